"""Translator: regenerates Lean *data* from the declarative parts of /repo's current source
(DESIGN.md §3.2).  Every generator returns Lean source text; files are only rewritten when their
content changes so that lake rebuilds exactly what depends on them.  When the source no longer has
the expected shape the table is emitted as `none` and the dependent theorem stops building."""
import ast
import os

GENERATORS = []


def generator(fn):
    GENERATORS.append(fn)
    return fn


def write_if_changed(path, text):
    if os.path.exists(path) and open(path).read() == text:
        return False
    os.makedirs(os.path.dirname(path), exist_ok=True)
    with open(path, 'w') as f:
        f.write(text)
    return True


def run_all(repo, outdir):
    notes = []
    for g in GENERATORS:
        try:
            name, text = g(repo)
        except Exception as e:  # extraction failed: emit nothing new, report
            notes.append('translator %s failed: %s: %s' % (g.__name__, type(e).__name__, e))
            continue
        if write_if_changed(os.path.join(outdir, name + '.lean'), text):
            notes.append('regenerated %s' % name)
    return notes
