#!/bin/sh
# usage: harness/seedcorpus.sh <ID-k> [...]  — run the check against a stored seeded change and keep one detecting case
# in corpus/<ID>/ so that detection no longer depends on the seed
cd "$(dirname "$0")/.."
for n in "$@"; do
  id=${n%%-*}
  if ! git -C /repo apply --check $PWD/seeded/$n/patch.diff 2>/dev/null; then echo "$n :: DOES-NOT-APPLY"; continue; fi
  out=$(harness/seedtest.sh $PWD/seeded/$n/patch.diff $id quick 2>&1)
  rp=$(echo "$out" | grep "^VIOLATION" | tail -1 | sed 's/.*replay=\([^ ]*\).*/\1/')
  if [ -z "$rp" ]; then echo "$n :: not detected"; continue; fi
  /venv/bin/python - "$n" "$rp" <<'PY'
import json,sys,os
n,rp=sys.argv[1:3]
pid=n.split('-')[0]
d=json.load(open(rp))
os.makedirs('corpus/%s'%pid,exist_ok=True)
case=d.get('case')
if case is None and d.get('first_differences'):
    case=d['first_differences'][0]['case']      # a broken correspondence without an oracle failure: the first differing case
if case is None and d.get('cases'):
    case=d['cases'][0]
if case is None:
    print('%s :: the replay holds no case'%n); sys.exit(0)
json.dump(dict(case=case,origin='a case on which seeded change %s was detected'%n),open('corpus/%s/seeded-%s.json'%(pid,n),'w'))
print('%s :: corpus case stored from %s'%(n,rp))
PY
done
