#!/bin/sh
# usage: harness/seedingest.sh <ID> <n_start>   — confirm every /tmp/seed/<ID>/out/mutant*/ in its worktree,
# store it as /verif/seeded/<ID>-<k>/ and run the check against it; prints one summary line per mutant
cd "$(dirname "$0")/.."
id=$1; k=${2:-1}
head=$(git -C /tmp/seed/$id rev-parse --short HEAD)
for md in /tmp/seed/$id/out/mutant*/; do
  conf=$(/tmp/seed/confirm.sh /tmp/seed/$id $md 2>&1 | tr '\n' ' ')
  dst=seeded/$id-$k; mkdir -p $dst
  cp $md/patch.diff $md/demo.py $md/notes.txt $dst/ 2>/dev/null
  out=$(harness/seedtest.sh $PWD/$dst/patch.diff $id quick 2>&1); 
  viol=$(echo "$out" | grep -c "^VIOLATION")
  /venv/bin/python - "$dst" "$id" "$head" "$conf" "$viol" <<'PY'
import json,sys,os
dst,pid,head,conf,viol=sys.argv[1:6]
notes=open(os.path.join(dst,'notes.txt')).read() if os.path.exists(os.path.join(dst,'notes.txt')) else ''
json.dump(dict(property=pid,breaks=notes,confirmed=dict(worktree='/tmp/seed/%s (git worktree of /repo at %s, removed afterwards)'%(pid,head),result=conf,
   demo_cmd='PYTHONPATH=<worktree>/src /venv/bin/python demo.py'),detection=('%s quick: VIOLATION reported'%pid) if int(viol)>0 else 'MISSED by quick at ingestion'),
   open(os.path.join(dst,'meta.json'),'w'),indent=1)
PY
  echo "$dst :: $conf :: violations=$viol :: $(echo "$out" | tail -1 | cut -c1-150)"
  k=$((k+1))
done
