"""development helper: correspondence + oracle only (no proofs):  python -m harness.dev C17 [n] [seed]"""
import random
import sys
import collections

from . import lib, main

if __name__ == '__main__':
    prop = lib.load_prop(sys.argv[1])
    n = int(sys.argv[2]) if len(sys.argv) > 2 else 200
    seed = int(sys.argv[3]) if len(sys.argv) > 3 else 0
    tier = sys.argv[4] if len(sys.argv) > 4 else 'quick'
    cases = list(prop.gen(random.Random(seed), tier))[:n]
    recs = main.correspondence(prop, cases, 'quick' if n < 2000 else 'thorough')
    nd = no = 0
    kinds = collections.Counter()
    for r in recs:
        if r['diff']:
            nd += 1
            if nd <= 5:
                print('DIFF', r['diff'][:600], '\n   case', str(r['case'])[:600])
        if r['oracle']:
            no += 1
            key = prop.classify(r['case'], r['oracle'], r['model'])
            kinds[key] += 1
            if kinds[key] <= 3:
                print('ORACLE', key, r['oracle'][:300], '\n   case', str(r['case'])[:500])
    print('cases', len(recs), 'diffs', nd, 'oracle failures', no, dict(kinds),
          'nontrivial', sum(1 for r in recs if prop.nontrivial(r['case'], r['impl'])))
    if hasattr(prop, 'distribution'):
        print(prop.distribution(recs))
