#!/bin/sh
# usage: harness/soak.sh <tier> <seed>...   runs every claimed check with each seed; prints anything that is not OK
cd "$(dirname "$0")/.."
tier=$1; shift
ids=$(/venv/bin/python -c "import json;print(' '.join(c['property_id'] for c in json.load(open('MANIFEST.json'))['checks']))" 2>/dev/null)
for s in "$@"; do
  for id in $ids; do
    out=$(VERIF_SEED=$s ./check $id $tier 2>&1); rc=$?
    last=$(echo "$out" | tail -1 | cut -c1-160)
    if [ $rc -ne 0 ]; then echo "seed=$s $id rc=$rc :: $last"; echo "$out" | grep VIOLATION | head -3; else echo "seed=$s $id ok :: $last"; fi
  done
done
