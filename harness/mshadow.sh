#!/bin/sh
# usage: harness/mshadow.sh <ID-k> [seeds...]  — development aid, not a registered check: apply a stored seeded change to a
# SCRATCH worktree of /repo (created on demand at /tmp/wt, never /repo itself) and run the property's quick cases against
# it through harness/shadow.py (PYTHONPATH shadows the installed package; evidence and replays are not touched).
# Several of these can run while /repo is busy; remove the worktree with `git -C /repo worktree remove --force /tmp/wt`.
n=$1; shift; id=${n%%-*}
[ -d /tmp/wt ] || git -C /repo worktree add --detach /tmp/wt HEAD -q
cd /tmp/wt && git checkout -q -- . && git apply /verif/seeded/$n/patch.diff || { echo "$n does not apply to /tmp/wt"; exit 9; }
cd /verif && PYTHONPATH=/tmp/wt/src /venv/bin/python -W ignore harness/shadow.py $id ${@:-0} 2>/dev/null | tail -4
cd /tmp/wt && git checkout -q -- .
