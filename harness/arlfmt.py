"""ARL packed-bit files (C20, second sentence): random specs, a reference encoder that lays the records out per the
format description and packs every field with the LEAN model of pack2d (not with the library), and the view the
library reader presents."""
import os
from datetime import datetime, timedelta
from fractions import Fraction

import numpy as np

from . import lib

SFC = ['PRSS', 'T02M', 'SHGT', 'USTR']      # USTR, ABSV: variables whose unit text names a factor ('100.00 ? m/s'): values as stored
LAY = ['TEMP', 'UWND', 'VWND', 'ABSV']


def gen(rng, small=None, partial=False):
    if partial:
        # a variable that only the lower levels carry (vertical velocity in real files): three levels above the surface, the
        # last variable of the list absent from the top one or two
        c = gen(rng)
        while len(c['lay']) < 2 or len(c['levels']) < 3 or c['nx'] >= 1000 or c['ny'] >= 1000:
            c = gen(rng)
        lay = c['lay']
        c['layorder'] = [list(lay)] + [list(lay[:-1]) for _ in range(len(c['levels']) - 2)]
        c['fields'] = {k: v for k, v in c['fields'].items() if k.split('|')[2] in _laykeys(c, int(k.split('|')[1]))}
        return c
    nx, ny = rng.randint(20, 24), rng.randint(17, 19)      # the index record and the reader's LENH-sized read must fit into one record
    if small is not None:
        nx, ny = rng.choice([(small, 1200), (1090, small)])
    elif rng.random() < 0.25:
        # 1000 or more points in one direction: the thousands travel as a letter in the two-character grid id
        # (CHAR(n/1000 + 64): '@' = 0, 'A' = 1000, 'B' = 2000), the header holds n mod 1000
        big, small = rng.choice([1003, 1200, 2048, 1090]), rng.randint(2, 5)      # two columns or rows at least
        nx, ny = (big, small) if rng.random() < 0.5 else (small, big)
    nlev = rng.randint(2, 3)                       # surface + upper levels
    sfc = rng.sample(SFC, rng.randint(1, 2))
    lay = rng.sample(LAY, rng.randint(1, 3))
    if len(lay) >= 2 and lay == sorted(lay):
        lay = lay[::-1]             # the order of the index record, not the alphabet (real files: HGTS TEMP UWND VWND WWND RELH)
    offs = [0]
    for _ in range(rng.randint(1, 2)):
        offs.append(offs[-1] + rng.choice([1, 3, 6, 24, 30]))
    levels = [1000.] + sorted(rng.sample([925., 850., 700., 500.], nlev - 1), reverse=True)
    t0 = rng.choice([[1995, 10, 16, 0], [2003, 12, 31, 18], [2012, 2, 28, 12], [1999, 12, 31, 18], [1999, 12, 31, 21]])   # also across the 1999/2000 new year
    fields = {}
    for ti in range(len(offs)):
        for li in range(nlev):
            for key in (sfc if li == 0 else lay):
                base = rng.choice([0, 250, -40, 1000])
                amp = rng.choice([1, 2, 8, 64, Fraction(1, 4)])
                fields['%d|%d|%s' % (ti, li, key)] = [[str(Fraction(base) + amp * (3 * i + j + (i * j) // 2)) for i in range(nx)]
                                                     for j in range(ny)]          # non-decreasing ramps (no negative differences)
    c = dict(nx=nx, ny=ny, levels=levels, sfc=sfc, lay=lay, t0=t0, offs=offs, fields=fields)
    if len(lay) >= 2 and nlev >= 3 and rng.random() < 0.6:
        # the upper levels list the same variables in different orders (index record and records alike)
        c['layorder'] = [list(lay)] + [rng.choice([lay[::-1], lay[1:] + lay[:1]]) for _ in range(nlev - 2)]
    return c


def _laykeys(c, li):
    """the variables of level li in the order of the index record"""
    if li == 0:
        return c['sfc']
    return c['layorder'][li - 1] if c.get('layorder') else c['lay']


def _gridid(nx, ny):
    if nx >= 1000 or ny >= 1000:
        return chr(nx // 1000 + 64) + chr(ny // 1000 + 64)
    return '99'


def _label(t, lev, key, nexp, prec, var1, gid='99', blank=False):
    stamp = t.strftime('%y%m%d%H') + '00'
    if blank:
        # the stamp as Fortran writes it with I2 fields: blanks, not zeros, in front of one-digit numbers
        stamp = '%2d%2d%2d%2d%2d' % (t.year % 100, t.month, t.day, t.hour, 0)
    txt = stamp + '%2d' % lev + gid + key.ljust(4)
    txt += '%4d' % nexp + '%14.7E' % prec + '%14.7E' % var1
    assert len(txt) == 50, txt
    return txt.encode('ascii')


def pack_with_model(rows):
    """bytes, nexp, var1, ksum of a field through the Lean model of pack2d (two requests: exponent, then bytes)"""
    r = lib.show_rows([[Fraction(x) for x in row] for row in rows])
    out = lib.run_model(['c20 pack 0 ' + r])[0]
    _, kv = lib.parse_kv(out)
    nexp = int(kv['nexp'])
    out = lib.run_model(['c20 pack %d %s' % (nexp, r)])[0]
    st, kv = lib.parse_kv(out)
    if st != 'ok':
        raise lib.HarnessError('Lean pack failed: ' + out[:80])
    b = [[int(x) for x in row.split(',')] for row in kv['bytes'].split(';')]
    un = [[Fraction(x) for x in row.split(',')] for row in kv['unpack'].split(';')]
    return b, nexp, Fraction(kv['var1']), int(kv['ksum']), un


def build(c):
    """(file bytes, per field: nexp and the values the bytes decode to)"""
    nx, ny = c['nx'], c['ny']
    recl = 50 + nx * ny
    t0 = datetime(*c['t0'])
    out = b''
    meta = {}
    for ti, off in enumerate(c['offs']):
        t = t0 + timedelta(hours=off)
        recs, sums = [], {}
        for li in range(len(c['levels'])):
            for key in _laykeys(c, li):
                rows = c['fields']['%d|%d|%s' % (ti, li, key)]
                b, nexp, var1, ksum, un = pack_with_model(rows)
                prec = 2.0 ** (nexp - 8) if False else 0.0
                recs.append(_label(t, li, key, nexp, 2.0 ** nexp / 254.0, float(var1), _gridid(nx, ny), blank=c.get('blankstamp')) + bytes(x for row in b for x in row))
                sums[li, key] = ksum
                meta['%d|%d|%s' % (ti, li, key)] = dict(nexp=nexp, decoded=[[str(x) for x in row] for row in un])
        lvltxt = ''
        for li, vg in enumerate(c['levels']):
            keys = _laykeys(c, li)
            lvltxt += '%6.1f' % vg + '%2d' % len(keys)
            for key in keys:
                lvltxt += key.ljust(4) + '%3d' % sums[li, key] + ' '
        lenh = 108 + len(lvltxt)
        hdr = 'TEST' + '  0' + ' 1'
        vals = [0., 0., 1., 1., 0., 0., 0., 1., 1., 10., -100., 0.]
        hdr += ''.join([('%7.2f' % v)[:7] for v in vals])
        hdr += '%3d%3d%3d' % (nx % 1000, ny % 1000, len(c['levels'])) + ' 2' + '%4d' % lenh
        assert len(hdr) == 108
        idx = (_label(t, 0, 'INDX', 0, 0., 0., _gridid(nx, ny), blank=c.get('blankstamp')) + (hdr + lvltxt).encode('ascii'))
        if len(idx) > recl:
            raise lib.HarnessError('index record does not fit: grid too small for the variable lists')
        out += idx.ljust(recl, b' ')
        for r in recs:
            out += r
    return out, meta


def view(f, c):
    keys = [k for k in f.variables.keys() if k in SFC + LAY]
    tv = f.variables['time']
    ref = datetime.strptime(tv.units, 'hours since %Y-%m-%d %H:%M:%S')
    times = [(ref + timedelta(hours=float(h))).strftime('%Y%m%d%H') for h in np.asarray(tv[:])]
    out = dict(keys=keys, z=[float(x) for x in np.asarray(f.variables['z'][:])], sfclvl=float(f.SFCVGLVL), times=times, fields={})
    out['absent'] = {}
    for k in keys:
        a = f.variables[k][:]
        out['fields'][k] = np.asarray(np.ma.filled(a, 0.), dtype='d').tolist()
        m = np.ma.getmaskarray(a)
        if m.ndim == 4:
            # levels of a variable that are missing as a whole, and cells missing on levels that are not
            out['absent'][k] = [[bool(m[ti, li].all()) for li in range(m.shape[1])] for ti in range(m.shape[0])]
            if any(m[ti, li].any() and not m[ti, li].all() for ti in range(m.shape[0]) for li in range(m.shape[1])):
                out['absent'][k] = 'partly missing level'
        elif m.any():
            out['absent'][k] = 'missing cells in a surface field'
    from . import pfile
    out['illformed'] = pfile.wellformed(f)
    return out
