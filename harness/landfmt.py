"""CAMx landuse files: generator, independent reference encoder/decoder (written from the format description),
library adapters and the checks shared by C08 (round trip, re-write), C09 (layout, both directions) and C14."""
import os
import struct

import numpy as np

from . import camx, lib

OPT_KEYS = ['VAR1', 'LAI', 'TOPO']       # the optional 2-D fields the writer knows, in file order


def gen(rng):
    new = rng.random() < 0.8
    nland = rng.choice([11, 26]) if new else 11
    ny, nx = rng.randint(1, 4), rng.randint(1, 4)
    n = ny * nx
    if new:
        opts = rng.choice([[], [], ['TOPO'], ['LAI'], ['VAR1'], ['LAI', 'TOPO'], ['LAI', 'TOPO'], ['VAR1', 'TOPO'], ['VAR1', 'LAI']])
    else:
        opts = rng.choice([[], ['TOPO']])
    return dict(family='land', new=new, nland=nland, ny=ny, nx=nx,
                fland=[camx.rand_f32_bits(rng) for _ in range(nland * n)],
                opts=[[k, [camx.rand_f32_bits(rng) for _ in range(n)]] for k in opts],
                flandname=rng.choice(['FLAND', 'LUCAT%02d' % nland]) if new else 'FLAND',
                vdtype=rng.choice(['f', 'f', 'd']),
                # reader-only streams: an optional key the writer does not know, a file cut short
                badkey=new and bool(opts) and rng.random() < 0.08,
                cut=rng.choice([1, 2, 5]) if rng.random() < 0.08 else 0)


def _rec(payload):
    m = struct.pack('>i', len(payload))
    return m + payload + m


def ref_encode(c):
    """the file as the format description gives it (independent of the library writer)"""
    out = b''
    if c['new']:
        out += _rec(('LUCAT%02d' % c['nland']).ljust(8).encode())
    out += _rec(struct.pack('>%dI' % len(c['fland']), *c['fland']))
    for k, d in c['opts']:
        if c['new']:
            out += _rec(('SOILTYPE' if c.get('badkey') else k).ljust(8).encode())
        out += _rec(struct.pack('>%dI' % len(d), *d))
    if c.get('cut'):
        out = out[:-4 * c['cut']]
    return out


def ref_decode(b, c):
    """independent decoder: walks the records; returns (keys, fields) or raises ValueError"""
    recs = camx.walk_records(b)
    n = c['ny'] * c['nx']
    keys, fields = [], []
    i = 0
    first = True
    while i < len(recs):
        if c['new']:
            if len(recs[i]) != 8:
                raise ValueError('record %d: a key record of 8 bytes expected, %d found' % (i, len(recs[i])))
            keys.append(recs[i].decode('latin1').strip())
            i += 1
            if i >= len(recs):
                raise ValueError('key record without data record')
        want = 4 * n * (c['nland'] if first else 1)
        if len(recs[i]) != want:
            raise ValueError('record %d: %d data bytes, %d expected' % (i, len(recs[i]), want))
        fields.append(list(struct.unpack('>%dI' % (len(recs[i]) // 4), recs[i])))
        first = False
        i += 1
    return keys, fields


def lean_enc_line(c):
    d = dict(c['opts'])
    return 'bin lu-enc new=%d nland=%d fland=%s var1=%s lai=%s topo=%s' % (
        1 if c['new'] else 0, c['nland'], camx.hexwords(c['fland']),
        *[camx.hexwords(d[k]) if k in d else '_' for k in OPT_KEYS])


def lean_read_line(c, hexbytes):
    return 'bin lu-read %d %s' % (c['ny'] * c['nx'], hexbytes or '-')


def build_file(c):
    import PseudoNetCDF as pnc
    f = pnc.PseudoNetCDFFile()
    f.createDimension('LANDUSE', c['nland'])
    f.createDimension('ROW', c['ny'])
    f.createDimension('COL', c['nx'])

    def arr(bits, shape):
        return np.array(bits, dtype='>u4').view('>f4').astype(c['vdtype']).reshape(shape)
    v = f.createVariable(c['flandname'], c['vdtype'], ('LANDUSE', 'ROW', 'COL'))
    v[:] = arr(c['fland'], (c['nland'], c['ny'], c['nx']))
    # the optional fields are created in another order than the file order half of the time
    opts = list(c['opts'])
    if len(opts) == 2 and (c['fland'][0] & 1):
        opts = opts[::-1]
    for k, d in opts:
        w = f.createVariable(k, c['vdtype'], ('ROW', 'COL'))
        w[:] = arr(d, (c['ny'], c['nx']))
    if not c['new']:
        f._newstyle = False
    return f


def view(f):
    """what the reader presents, in the Lean `showFile` form"""
    out = dict(new=1 if f._newstyle else 0, nland=len(f.dimensions['LANDUSE']), names=list(f.variables))
    bits = {k: np.asarray(v[...], dtype='>f4').view('>u4').ravel().tolist() for k, v in f.variables.items()}
    out['shapes'] = {k: list(v.shape) for k, v in f.variables.items()}
    first = out['names'][0]
    out['fland'] = camx.hexwords(bits[first])
    for k in OPT_KEYS:
        out[k.lower()] = camx.hexwords(bits[k]) if k in bits else '_'
    out['other'] = [k for k in out['names'][1:] if k not in OPT_KEYS]
    return out


def _tmp(tag):
    return os.path.join(camx.tmpdir(), 'lu%s_%d_%d.bin' % (tag, os.getpid(), np.random.randint(1 << 30)))


def impl(c):
    """library writer on the in-memory data set, library reader on its output and on the reference encoding,
    re-write of what was read"""
    from PseudoNetCDF.camxfiles.landuse.Memmap import landuse
    from PseudoNetCDF.pncgen import pncgen
    res = {}
    p1, p2, p3 = _tmp('a'), _tmp('b'), _tmp('c')
    try:
        with lib.pnc_warnings():
            ref = ref_encode(c)
            res['refhex'] = ref.hex()
            open(p3, 'wb').write(ref)
            try:
                with lib.time_limit(20):
                    g = landuse(p3, c['ny'], c['nx'])
                    res['refview'] = view(g)
                    del g
            except lib.HarnessError:
                raise
            except Exception as e:
                res['refview'] = dict(err='%s %s' % (type(e).__name__, str(e)[:80]))
            if c.get('badkey') or c.get('cut'):
                return res
            try:
                with lib.time_limit(20):
                    pncgen(build_file(c), p1, format='camxfiles.landuse', verbose=0)
                    b1 = open(p1, 'rb').read()
                    res['hex'] = b1.hex()
                    f = landuse(p1, c['ny'], c['nx'])
                    res['view'] = view(f)
                    pncgen(f, p2, format='camxfiles.landuse', verbose=0)
                    res['rewrite_same'] = open(p2, 'rb').read() == b1
                    del f
            except lib.HarnessError:
                raise
            except Exception as e:
                res['err'] = '%s %s' % (type(e).__name__, str(e)[:100])
        return res
    finally:
        for q in (p1, p2, p3):
            if os.path.exists(q):
                os.remove(q)


def to_line(c, res):
    return lean_read_line(c, res['refhex'])


def _diff_view(kv, v):
    if 'err' in v:
        return 'raised ' + v['err']
    for k in ('new', 'nland'):
        if int(kv[k]) != int(v[k]):
            return '%s model=%s impl=%s' % (k, kv[k], v[k])
    for k in ('fland', 'var1', 'lai', 'topo'):
        if kv[k] != v[k]:
            return 'field %s: model and reader differ' % k
    if v['other']:
        return 'the reader presents variables %s the model does not know' % v['other']
    return None


def agree(c, out, res):
    """model: Lean reader on the reference bytes; Lean writer = reference bytes = library writer bytes"""
    rv = res['refview']
    if c.get('badkey'):
        return None                 # a key the writer does not know: outside the model (the reader names a variable after it)
    if c.get('cut'):
        if out.startswith('err') and 'err' in rv:
            return None
        if out.startswith('ok ') and 'err' not in rv:
            # the cut removed exactly one optional record: what is left is a complete file, read as such by both
            _, kv = lib.parse_kv('x ' + out[3:])
            d = _diff_view(kv, rv)
            return ('a file cut short by %d words is itself a complete file: %s' % (c['cut'], d)) if d else None
        return 'a file cut short by %d words: model %s, reader %s' % (c['cut'], out[:30], rv.get('err', 'returned a file'))
    if not out.startswith('ok '):
        return 'reader model: %s' % out[:40]
    _, kv = lib.parse_kv('x ' + out[3:])
    d = _diff_view(kv, rv)
    if d:
        return 'reader on the reference file: ' + d
    enc = lib.run_model([lean_enc_line(c)])[0]
    if enc != 'ok ' + res['refhex']:
        return 'the python reference encoder and the Lean writer model differ'
    if 'err' in res:
        return 'library writer/reader raised %s' % res['err']
    if res['hex'] != res['refhex']:
        return 'library writer bytes differ from the Lean writer model (first difference at byte %d)' % next(
            (i // 2 for i, (x, y) in enumerate(zip(res['hex'], res['refhex'])) if x != y), min(len(res['hex']), len(res['refhex'])) // 2)
    d = _diff_view(kv, res['view'])
    if d:
        return 'reader on the library-written file: ' + d
    return None


def _want(c):
    d = dict(c['opts'])
    w = dict(fland=camx.hexwords(c['fland']))
    for k in OPT_KEYS:
        w[k.lower()] = camx.hexwords(d[k]) if k in d else '_'
    if not c['new'] and 'TOPO' not in d and len(c['opts']) == 1:
        w['topo'] = camx.hexwords(c['opts'][0][1])
    return w


def oracle_layout(c, res):
    """C09: the written file tiles into records with the right keys, counts and content; the reference file is read
    as exactly the encoded content"""
    if c.get('badkey') or c.get('cut'):
        return None
    if 'err' in res:
        return 'raised %s' % res['err']
    try:
        keys, fields = ref_decode(bytes.fromhex(res['hex']), c)
    except ValueError as e:
        return 'written file: %s' % e
    if c['new'] and keys != ['LUCAT%02d' % c['nland']] + [k for k, _ in c['opts']]:
        return 'written keys %s, data set holds %s' % (keys, ['LUCAT%02d' % c['nland']] + [k for k, _ in c['opts']])
    if fields != [c['fland']] + [d for _, d in c['opts']]:
        return 'written fields differ from the data set (%d fields, %d expected)' % (len(fields), 1 + len(c['opts']))
    rv = res['refview']
    if 'err' in rv:
        return 'reader raised on the reference file: %s' % rv['err']
    w = _want(c)
    for k, x in w.items():
        if rv[k] != x:
            return 'reference file: field %s read differs from what was encoded' % k
    if (rv['new'], rv['nland']) != (1 if c['new'] else 0, c['nland']):
        return 'reference file read as new=%s nland=%s' % (rv['new'], rv['nland'])
    n3 = [c['nland'], c['ny'], c['nx']]
    for k, sh in rv['shapes'].items():
        if sh != (n3 if k == rv['names'][0] else n3[1:]):
            return 'variable %s has shape %s' % (k, sh)
    return None


def oracle_roundtrip(c, res):
    """C08: written -> read gives the data set back; re-writing what was read changes no byte"""
    if c.get('badkey') or c.get('cut'):
        return None
    if 'err' in res:
        return 'raised %s' % res['err']
    v = res['view']
    w = _want(c)
    for k, x in w.items():
        if v[k] != x:
            return 'field %s differs after write/read' % k
    if v['other']:
        return 'unexpected variables %s after write/read' % v['other']
    if not res['rewrite_same']:
        return 're-writing the re-read file changed the bytes'
    return None


def nontrivial(c, res):
    return c['ny'] * c['nx'] > 1 and len(c['opts']) >= 1 and not c.get('badkey') and not c.get('cut')
