"""Regenerates /verif/MANIFEST.json from the table below:  /venv/bin/python -m harness.manifest"""
import json
import os

ROOT = os.path.dirname(os.path.dirname(os.path.abspath(__file__)))

BASE_NOTE = ('Trusted: Lean 4.33 kernel (axioms propext, Classical.choice, Quot.sound only; audited each run), '
             'the Lean compiler for the model driver, harness/translate.py and the correspondence harness. '
             'Modelled, not verified: numpy/scipy/netCDF4/datetime and IEEE rounding (models are over Int/Rat; '
             'equality with the code is checked on exactly representable inputs). ')

CLAIMED = {
    'C13': dict(
        text=('Lean word-level model of the CAMx formats whose files are a plain sequence of equal-sized records (one3d, '
              'humidity, vertical diffusivity, temperature, height/pressure): encoder, the memory-mapped readers\' inference '
              '(records of cells+4 words, slabs per step from the first change of (time, date)) and the content view a '
              'record-by-record reader presents. Theorem mm_decode_encode: for every well-formed file with at least two steps, '
              'any grid size, layer count and payload, and all three layouts, the memory-mapped view equals the content view '
              '(chunk_records, leading_eq are its two halves); single_step_rejected shows the domain boundary. For the gridded '
              'average family the corresponding theorem is Camx.decodeMM_encode (C08/C09). The RECORD-BASED readers of the one3d '
              'family, of height/pressure files and of temperature files are modelled as they are written (SlabRead.lean: layer count from the first '
              'time change, step = timediff, end found by seeking one step at a time, timerange, (date, time, layer) -> record '
              'number) and proved: read_decode_encode (on every file with a regular time axis of whole hours, step <= one day, '
              '>= 2 steps, any grid/layers/payload they present exactly the written content) and readers_agree / readers_agree_temperature (hence the same '
              'steps, layers, times and cells as the memory-mapped reader). Correspondence: reference-encoded bytes (= Lean '
              'encoder) read by BOTH library readers of each format, each compared with its own Lean model and with the other '
              '(dimension lengths, float data as bits, time flags / timerange), incl. files with irregular time axes for the '
              'record-reader model.'),
        note=BASE_NOTE + 'record readers: one3d family, height/pressure, temperature, gridded (uamiv) and wind files are all modelled and proved (readers_agree, readers_agree_temperature, uamiv_readers_agree_words, uamiv_read_encode, wind_readers_agree); one-step wind files and the irregular axes are covered by the correspondence only. Python int(a/b) on floats is taken to equal truncating integer division at these magnitudes.',
        technique='Lean 4 proof (chunking/regrouping lemmas over framed records) + model/implementation correspondence for both reader families + reader-vs-reader oracle',
        design='§7 C08-C09-C13-C14'),
    'C18': dict(
        text=('Lean word-level model of GEOS-Chem binary punch files (two header records, three Fortran records per data block) '
              'with encoder, independent decoder and the first-repetition rule by which bpch1 finds the unmarked time steps; '
              'theorems for any number of steps, tracers and layers: the records tile the file (tiles), the decoder inverts the '
              'encoder (refDecode_encode), time steps are recovered iff no tracer repeats within a step (groupSteps_flatten, '
              'repeat_breaks_grouping); the scale factor/unit/name selection from tracerinfo/diaginfo (resolve_listed, '
              'resolve_unlisted). Correspondence: python reference encoder = Lean encoder byte for byte; bpch1(noscale) presents '
              'the encoded words and ncf2bpch of it reproduces the bytes; bpch1 scaled = float32(raw)*scale with the resolved name '
              'and unit; bpch2 = bpch1. Three genuine defects repaired by fix: commits.'),
        note=BASE_NOTE + 'float32 multiplication and numpy memmap stride arithmetic are observed, not proved; vertical-coordinate helper variables are not compared.',
        technique='Lean 4 proof (record framing lemmas, induction over blocks and steps) + model/implementation correspondence + byte/numeric oracle',
        design='§7 C18'),
    'C19': dict(
        text=('Lean model of the ICARTT (ffi1001) writer and of the position-driven reader at the level of typed lines. Theorems '
              'for ALL well-formed files (any number of records, variables, attributes): the header-line count declared on line 1 '
              'is the position of the column-name line and the data follow it (header_count); the declared number of dependent '
              'variables, codes, description lines and user comments equal the actual ones (declared_counts); read(write f) = f '
              'with names in order, units, missing codes, masks and values (read_write, mask_preserved); a second write/read '
              'cycle returns the same data (second_cycle); wrong_count_rejected shows the count is load-bearing. Correspondence: '
              'the text written by the library is tokenised by an independent parser and compared line by line with the writer '
              'model, the library reader (explicit and auto-detected) with the reader model; numeric oracle for 7 significant '
              'digits. Three genuine defects repaired by fix: commits (independent-variable unit, missing codes written with %.6e, '
              'l100.isMine claiming short text files).'),
        note=BASE_NOTE + 'the text of a number (%.6e) and numpy.genfromtxt parsing are outside the model (numeric oracle on every value); attribute values without line breaks; special-comment blocks (never written by the library) are not modelled.',
        technique='Lean 4 proof (list indexing over the six segments of the output, induction-free mapM lemmas) + model/implementation correspondence + numeric oracle',
        design='§7 C19'),
    'C20': dict(
        text=('Lean theorems over Q for the pack2d/unpack algorithm (half-step bound and no wrap-around when all '
              'neighbour differences are <= 127 steps, unpack inverts pack, first element exact, checksum), '
              'kernel-checked counterexamples showing the unrestricted statement is false for the code as it is '
              '(recorded finding), and a bit-exact correspondence of the executable model with pack2d/unpack on '
              'dyadic fields on every run, the scaling exponent included (it must equal floor(log2 RMAX)+1 exactly; the float32 '
              'logarithm that broke this at some powers of two was repaired by a fix: commit). File clause: files laid out by a '
              'reference encoder that packs with the LEAN model are read by arlpackedbit (variables, levels, times, every field '
              'within the bound), incl. grids with 1000+ points in one direction; layout_disjoint / layout_size carry the record '
              'arithmetic.'),
        note=BASE_NOTE + 'the label/index text fields (Fortran edit descriptors) are the reference encoder\'s, not modelled in Lean; the writer writearlpackedbit is not exercised.',
        technique='Lean 4 proof (induction over rows, linarith over Q) + model/implementation correspondence',
        design='§7 C20'),
    'C17': dict(
        text=('Lean theorems over Q about the executable model of getinterpweights (columns sum to one, '
              'non-negative without extrapolation, linear profiles reproduced exactly, unit vectors at source '
              'nodes) and of sigma2coeff/interpSigma(conserve) (every source layer covered exactly once when top '
              'and bottom are shared, thickness-weighted column sums equal target thicknesses, column mass '
              'preserved, constants preserved), proved for all grids by induction; apply_linear / apply_const: the per-column '
              'application (weights * data).sum(0) reproduces linear profiles and constants. Exact correspondence of the '
              'model with scipy/numpy results on dyadic grids every run; the application is exercised through '
              'interpDimension (1-D coordinate and N-D coordinate variable, one weight matrix per column), IOAPI interpSigma '
              '(conserve and linear, with and without a change of the model top) and GEOS-Chem interpSigma on generated '
              '47-level files, each column compared with the Lean model, numpy.interp and a linear profile.'),
        note=BASE_NOTE + 'linear-exactness theorems are stated for ascending sources (descending = reversed; sum/non-negativity/constants proved for both); float arithmetic on the non-dyadic GEOS-Chem eta grid is compared to 1e-6.',
        technique='Lean 4 proof (structural induction, telescoping sums, linarith/field_simp over Q) + model/implementation correspondence',
        design='§7 C17'),
    'C16': dict(
        text=('Lean theorems over Q for the value-to-index core (fractional position by segment search, round-half-even '
              '/ truncate-and-clamp): the rounded index is a nearest coordinate, the truncated index names a cell whose '
              'edges contain the value, nodes map to their own index - for ascending and descending coordinates, all '
              'lengths; model-level lemmas tie the lookup model to that core; exact correspondence of the whole model '
              '(three bounds representations, methods, left/right, clean, bounds modes, warnings/errors) with val2idx on '
              'every run, for coordinate variables of type float64, float32 and integer, and through the datetime front end '
              '(time2idx with naive, UTC and non-zero-offset datetimes on an "hours since" coordinate). Three genuine defects '
              'were repaired by fix: commits.'),
        note=BASE_NOTE + 'np.interp exactness on power-of-two spacings, margin stream elsewhere; date2num (netCDF4/cftime) is exact on the generated multiples of 1/16 hour.',
        technique='Lean 4 proof (structural induction over the coordinate list, linarith over Q) + model/implementation correspondence',
        design='§7 C16'),
    'C15': dict(
        text=('Lean model of the ordered reader registry and getreader; theorems: an auto-detecting open leaves the '
              'registry unchanged, hence after ANY history of opens the reader selected for any probe is the one a fresh '
              'process selects (induction over histories), the selected reader is the first accepting entry, named open = '
              'auto-detected reader when names are unique; the copy/alias flag of the model is re-extracted from '
              '_getreader.py on every run, so the theorems are about the code as it is now; kernel-checked counterexample '
              'for the aliasing variant (the defect repaired by a fix: commit). Correspondence: real histories in freshly '
              'forked processes vs the model (selection at every step, registry order), probe data digests vs fresh process. '
              'Histories may also REGISTER a reader (a user subclass defined in the middle of the history): events_registry / '
              'events_independent prove that the registry after any mix of opens and registrations is the initial one with the '
              'registrations applied in order, so the probe result depends only on the file and the registered readers; '
              'registered_first: a new reader is searched first. The pool includes same-sized files of one family with different '
              'layouts and a little-endian file opened with endian named.'),
        note=BASE_NOTE + 'isMine() answers are measured, not modelled; process-global state other than the registry (class-level caches) is observed through the probe digest against a fresh process.',
        technique='Lean 4 proof (frame lemma + induction over open histories) with a source-extracted model flag + model/implementation correspondence',
        design='§7 C15'),
    'C12': dict(
        text=('Lean model of the time paths (TFLAG decode, SDATE/STIME/TSTEP arithmetic, updatetflag encode, '
              'add_time_variable, CF "unit since reference" for standard calendars, and the 365/366-day calendar path '
              'transcribed with its defects) over integer/rational seconds with the proleptic Gregorian calendar as '
              'datetime implements it. Theorems for ALL years >= 1: the closed-form days-before-year equals the sum of '
              'year lengths; ordinal <-> (year, day-of-year) are mutually inverse; flag decode equals the first-principles '
              'instant; encode/decode of flags round-trip, so synthesised TFLAGs decode to the attribute times across any '
              'day/year/leap roll-over; CF time from flags decodes to the flags; date2num inverse for standard calendars; '
              'kernel-checked counterexamples for the three recorded findings. Correspondence + independent oracle '
              '(datetime / cftime / independent reference-date parser) on every run.'),
        note=BASE_NOTE + 'CF time variables are stored as float64, float32 and integers; the 365/366-day finding is matched on decoding failures only. reference-date string parsing is not modelled (the parsed reference is passed to the model; an independent parser and cftime judge the result); timedelta microsecond rounding is trusted.',
        technique='Lean 4 proof (omega over calendar digit decompositions, induction) + model/implementation correspondence + independent oracle',
        design='§7 C12'),
    'C02': dict(
        text=('Lean model of files (dimensions, variables as nested arrays of optional rationals, attribute names) and of '
              'sliceDimensions; theorems for arrays of any rank and size: the orthogonal selection returns at every '
              'multi-index exactly the source element at the per-axis selected indices (same order), has the selected '
              'lengths, is the identity when every axis is taken in full (variables without the selected dimensions), '
              'every Python selector (negative ints, slices with any bounds/steps as CPython normalises them, lists) '
              'yields in-range indices, ints keep a length-1 axis. Whole-file correspondence (data, masks, attributes, '
              'dimension lengths, errors) with sliceDimensions incl. the pointwise multi-list mode on every run, plus an '
              'independent numpy.take oracle. Three genuine defects repaired by fix: commits.'),
        note=BASE_NOTE + 'also exercised: the string front end slice_dim (same model) and ioapi_base.sliceDimensions (numpy.take oracle, TFLAG rows). the pointwise (zipped) selection is modelled and compared but has no element-wise theorem yet; keyword order independence is exercised, not proved.',
        technique='Lean 4 proof (structural induction over nested arrays; omega for slice normalisation) + model/implementation correspondence',
        design='§7 C02'),
    'C03': dict(
        text=('Lean theorem, for arrays of any rank/shape, any axis and any 1-D function whose output length depends only on '
              'the input length: the element at every multi-index of the model of applyAlongDimensions is the corresponding '
              'element of the function applied to the 1-D fiber through that index (axis retained); all modelled functions '
              '(mean/sum/min/max/var, diff, sub-sampling, cumsum, reverse, convolution) are uniform; reducers exclude masked '
              'cells and give a masked result for an all-masked fiber; variables lacking the named dimensions are unchanged. '
              'Whole-file correspondence (data, masks, dimension and coordinate-variable lengths, integer casting) with '
              'applyAlongDimensions on every run plus a numpy/numpy.ma oracle.'),
        note=BASE_NOTE + 'also exercised: reduce_dim / convolve_dim (numpy.ma oracle; Lean model for the modelled reducers) and the IOAPI wrapper (C10 model, level-edge oracle); apply_shape proves the result shape for every rank and axis. commutation of reducers over different axes is exercised (random keyword order, numpy oracle), not proved; std and float32 go through the oracle only; float64 results compared within 1e-12.',
        technique='Lean 4 proof (induction over shape with a cell-wise transposition lemma) + model/implementation correspondence',
        design='§7 C03'),
    'C04': dict(
        text=('Lean theorems for arrays of any rank: cutting along axis k at any point and concatenating gives the array back; '
              'by induction the same for ANY partition into consecutive pieces; taking/dropping the first piece length from a '
              'concatenation returns the pieces; the stacked axis length is the sum. Correspondence of the stack model (shared '
              'dimensions, variables without the stack dimension from the first file, argument order, errors) with '
              'PseudoNetCDFFile.stack on split files and on independent files on every run; oracle: stack(split(f)) == f and '
              'slice(stack) == piece on the real code.'),
        note=BASE_NOTE + 'also exercised: pncmfopen / open_mfdataset on paths in non-sorted order and with repeats (model of the given sequence + oracle), stack_files attribute provenance, IOAPI split/save/stack against the original. open_mfdataset / pncmfopen / stack_files front-ends are not exercised yet.',
        technique='Lean 4 proof (mutual structural induction on nested arrays, induction over the cut list) + model/implementation correspondence',
        design='§7 C04'),
    'C09': dict(
        text=('The Lean model is the independent codec: a word-level reference encoder/decoder for the uamiv family written '
              'from the format description, with theorems for ALL contents (any species list, grid, layers, steps, payload): '
              'Fortran records tile the encoded file exactly (markers agree, no gaps, size = payload + 2 markers/record), '
              'header counts equal the content counts, the independent decoder recovers exactly what was encoded. Both '
              'directions are exercised on every run: library writer bytes == reference encoding (plus an independent python '
              'record walker), and the library reader on reference-encoded files == the Lean reader model. The same three '
              'statements (tiling, counts, content) are proved for the slab formats (one3d, humidity, vertical diffusivity, '
              'temperature, height/pressure), cloud/rain, wind, lateral_boundary and landuse layouts (slab_tiles ... landuse_read), '
              'each with its own reference encoder, record walker and writer/reader correspondence; the Memmap readers of landuse, wind, cloud/rain and '
              'lateral_boundary files are modelled too and proved to return exactly the encoded content (landuse_read, wind_read, cloud_rain_read, boundary_read). Genuine defects repaired by '
              'fix: commits are listed in known_findings.json.'),
        note=BASE_NOTE + 'Modelled: uamiv family (writer, Memmap reader, legacy record reader on its domain), five slab formats, cloud_rain, wind, lateral_boundary, landuse. bpch is covered by C18; point-source and vertical-diffusivity-like variants that share a slab layout are covered through that layout only. numpy tofile/memmap and float32<->bits are trusted.',
        technique='Lean 4 proof (codec round trip by induction over steps/species/layers; framing lemma) + model/implementation correspondence in both directions',
        design='§7 C08-C09-C13-C14'),
    'C14': dict(
        text=('Lean theorem about the model of the memory-mapped uamiv reader, for ANY accepted file and EVERY byte offset '
              'at which it can be cut: opening the prefix either raises or presents exactly the first k complete time steps '
              'with identical header, grid, species and counts (never shifted or partly filled values); cuts off a word '
              'boundary always raise. Correspondence of the reader model with the real reader on every cut point of small '
              'generated files (quick: all record boundaries +-4 bytes and random offsets; thorough: every byte). The same statement is proved for the slab, wind and lateral-boundary '
              'reader models (slab_prefix_safe, wind_prefix_safe, boundary_prefix_safe) and each model is compared with its real reader on every cut point.'),
        note=BASE_NOTE + 'Theorems: uamiv Memmap reader (prefix_safe, every byte cut), the slab readers (slab_prefix_safe), the wind reader (wind_prefix_safe: below one step rejected, else exactly the leading floor(n/step) steps) and the lateral_boundary reader (boundary_prefix_safe: rejected, or the prefix is the encoding of the leading k>=1 steps and is read as such), the last three for every cut in whole words - a cut inside a word is shown by the correspondence to raise. bpch prefixes are compared with the oracle only. lateral_boundary is exercised in modes r and r+ (incl. "the file on disk keeps its size"). cloud_rain is excluded: its variable count is not stored, so some prefixes are valid files of the other variant. The wind reader no longer hangs on truncated prefixes (fix: commit).',
        technique='Lean 4 proof (prefix invariance of fixed-stride reads, divisibility argument for the partial-time check) + model/implementation correspondence over cut points',
        design='§7 C08-C09-C13-C14'),
    'C08': dict(
        text=('Lean theorem for ALL well-formed uamiv contents (any species list, grid, nz>=1, >=1 steps, any payload words): '
              'the fixed-stride memory-mapped reader applied to the written bytes presents exactly the written content '
              '(bridge between the record codec and the stride arithmetic, proved by induction); two-digit-year dates decode '
              'back for every date 1970-2069; whole hours survive the float-hour storage and the x100 loop; hour bit '
              'patterns round-trip. Correspondence on every run: library writer bytes == model, library reader view == '
              'model, plus the real-code oracle read(write(f)) == f and write(read(write(f))) byte-identical, with '
              'day/year/leap/century roll-overs over-sampled. slab_roundtrip: the same for the five slab formats (any grid, '
              'layers, >= 2 steps); landuse_roundtrip: for landuse files of either style with up to two optional fields the reader '
              'undoes the writer and re-writing what was read gives the same bytes. Genuine defects repaired by fix: commits.'),
        note=BASE_NOTE + 'Covers the uamiv family, the five slab formats and landuse; the lateral_boundary write-back is part of C09; cloud_rain and wind have no reader/writer pair of the same family to round-trip (C09/C13 cover each direction).',
        technique='Lean 4 proof (codec/stride bridge by induction over steps, species, layers; omega for date arithmetic) + model/implementation correspondence + round-trip oracle',
        design='§7 C08-C09-C13-C14'),
    'C05': dict(
        text=('Lean model of the process-wide handle table behind netcdf-backed file objects (open takes the lowest free id, '
              'close is guarded by isopen, the finaliser calls close); theorem live_run: after ANY history of open / close / '
              'close-again / drop events every open object owns a distinct live id, hence (open_objects_readable) every open '
              'object is readable; unguarded_counterexample proves the same history breaks another file when close is not '
              'guarded. The guard itself is regenerated from the source of netcdf.close by the translator. Correspondence: random '
              'histories over real netCDF files in a fresh process, readability of every object after every event vs the model. '
              'Purity and non-aliasing of every operation and query (deep snapshot before/after, numpy.shares_memory, write into '
              'results then re-snapshot) are decided by observation on every run: the model is functional, so the theorem there is trivial. '
              'One genuine defect repaired (fix: netcdf.close on a recycled id); two recorded findings (eval of a bare name aliases; legacy helpers return views).'),
        note=BASE_NOTE + 'that real operations allocate fresh memory is observed, not proved; CPython finalisation order and the netCDF-C id allocator are modelled from observation.',
        technique='Lean 4 proof (invariant by induction over event histories) + generated guard table + model/implementation correspondence + purity/aliasing oracle',
        design='§7 C05'),
    'C10': dict(
        text=('Lean model of the IOAPI metadata state (NVARS, VAR-LIST, VAR, TFLAG width/rows, variables with dimension tuples, '
              'NROWS/NCOLS/NLAYS, VGLVLS, SDATE/STIME/TSTEP, origins) with _add2Varlist, getVarlist, updatetflag, updatemeta '
              'transcribed branch by branch and every operation (copy, sliceDimensions, subsetVariables, renameVariable, '
              'applyAlongDimensions, eval, mask, stack, interpSigma) as the sequence of primitive calls the Python method makes. '
              'Theorems: updatemeta is a normaliser (coherent_updatemeta); each of the nine operations maps a coherent state to a '
              'coherent state (coherent_step) and so does every sequence of any length (coherent_run), for all states, provided a '
              'variable stays listed; zero_listed_counterexample proves that side condition is real (recorded finding). '
              'Correspondence: five kinds of source file x random operation sequences, the complete metadata state after every '
              'step vs the model, plus the ten equalities evaluated on the real object. Six genuine defects repaired by fix: commits.'),
        note=BASE_NOTE + 'variable data is outside this model; time flags restricted to years 1000-9999 (TimeOk hypothesis, datetime range); files with a CF time variable (GRIDDESC withcf) are judged by the oracle only; eval with single assignments.',
        technique='Lean 4 proof (normaliser lemma + per-operation preservation, induction over operation sequences) + model/implementation correspondence + coherence oracle',
        design='§7 C10'),
    'C11': dict(
        text=('Same Lean model as C10. Theorems for integer (positive/negative) and unit-stride slice windows of any size on any '
              'grid: the selected indices are contiguous (window_contiguous); XORIG\' + j*XCELL\' = XORIG + (first+j)*XCELL for every '
              'retained column, same for rows (origin_x, origin_y, exact rationals); VGLVLS\' has one more entry than layers and '
              'equals the edges first..first+m of the source (levels_window); SDATE/STIME are the flag of the first selected step '
              '(start_is_first_selected, using the calendar round-trip encJ(decJ f) = f proved for C12); the decoded times are the '
              'selected sub-range of the source times (time_window, for files whose listable variables are all listed - '
              'slice_keeps_varlist shows a window operation then never changes the list). Correspondence + independent oracle recomputing origin, edges, times and SDATE/STIME/TSTEP '
              'from the source file. One genuine defect repaired (TSTEP of 24 h or more became 0).'),
        note=BASE_NOTE + 'integer selectors are passed as python ints and as numpy integers. float32/float64 rounding of XORIG += k*XCELL is not modelled (dyadic cells in the correspondence); PERIM windows of boundary files only through C10.',
        technique='Lean 4 proof (list/arith lemmas over Rat and Int, calendar round-trip) + model/implementation correspondence + independent oracle',
        design='§7 C11'),
    'C07': dict(
        text=('Lean model of save (pncgen.Pseudo2NetCDF.convert: dimensions, global attributes, variable definitions with the '
              'fill precedence missing_value > fill_value > _FillValue, attributes, data with masked cells filled) followed by '
              'reopen (netCDF4 auto-masking of _FillValue, missing_value and default fills). Theorems: cell_roundtrip, '
              'var_roundtrip, file_roundtrip: for ALL files whose dtypes the flavour can store, whose attribute names do not '
              'start with an underscore and whose unmasked values are not values netCDF reads as missing (decidable predicate '
              'CellOk), reopen(save f) = f up to the _FillValue attribute netCDF adds: same dimensions with unlimited flags, '
              'attributes, variable order, dtypes, dimension tuples, masks and values; unrepresentable types are rejected; '
              'mask_lost_counterexample shows what the repaired precedence fixed. Correspondence over four flavours x complevel, '
              'all dtypes incl. char, rank 0-3, five ways of declaring a fill; independent oracle compares the reopened file with '
              'the source. One genuine defect repaired by a fix: commit.'),
        note=BASE_NOTE + 'attribute tokens carry the storage type (float32/float64, int8/int16) besides the value. bit-identity through netCDF-C/HDF5/zlib and netCDF4 auto-masking rules are observed on every run, not proved; attribute values are opaque tokens.',
        technique='Lean 4 proof (case analysis of the fill/mask logic lifted over lists) + model/implementation correspondence + source-vs-reopened oracle',
        design='§7 C07'),
    'C06': dict(
        text=('Lean model of file arithmetic (pncbo), mask() and eval over nested arrays of optional rationals; theorems: '
              'for two arrays of one shape (any rank) every result cell is the operator applied to the operand cells at '
              'the same multi-index; a result cell is masked when an operand cell is masked, x/0 is masked, + - * / are '
              'exact; declared coordinate variables and variables missing on the right pass through unchanged; mask() masks '
              'a cell iff it was masked or satisfies one of the predicates / the where array, and never alters an unmasked '
              'value. Whole-file correspondence for all 13 operators (int and float, masked operands, zero divisors), all '
              'predicate subsets of mask(), and eval assignments, plus a numpy.ma oracle, on every run. One genuine defect '
              '(masks of masked operands dropped) repaired by a fix: commit; one recorded finding (eval on rank-0 masked variables raises).'),
        note=BASE_NOTE + 'eval is exercised into new variables and in place onto existing ones of another type; divisors include tiny non-zero values. float64 results compared with exact rationals within 1e-12; eval is modelled for the generated expression grammar (+ - * / unary -, literals), not arbitrary Python; pncexpr / mask_vals front-ends are not exercised.',
        technique='Lean 4 proof (structural induction on nested arrays; case analysis of predicates) + model/implementation correspondence + numpy.ma oracle',
        design='§7 C06'),
    'C01': dict(
        text=('Lean model of every structural operation (copy, slice, apply, subset, rename variable/dimension, insert/remove/'
              'reorder dimension, stack, arithmetic, mask) as functions on files of nested arrays; theorems: tabulated, cell-mapped '
              'and cell-zipped data always have the declared shape (any rank); well-formedness is PRESERVED by mask, insertDimension, '
              'subsetVariables, renameVariable, renameDimension(s) (several at once: swaps, chains and merges are refused), file '
              'arithmetic, reorderDimensions, removeSingleton and applyAlongDimensions (mask_wf, insertDim_wf, subset_wf, renameVar_wf, renameDims_wf, '
              'renameDim_wf, binop_wf, reorder_wf, removeSingleton_wf, apply_wf: for all files, any rank; apply_wf for files without empty dimensions and functions that do not empty an axis); together '
              'with the shape theorems of C02 (selection), C03 (fiberwise) and C04 (concatenation). On every run random SEQUENCES '
              'of 1-6 operations (incl. out-of-domain arguments) are executed on the real code and on the model and compared '
              'completely after every step, and the well-formedness predicate is evaluated on every real intermediate file; '
              'IOAPI files run the C10 operation sequences under the same predicate plus "TSTEP is unlimited". '
              'Genuine defects repaired by fix: commits.'),
        note=BASE_NOTE + 'WF-preservation is proved per operation for twelve operations, sliceDimensions (slice_wf: integers, slices, lists, two or more lists acting together; hypothesis: the new dimension name is free - the repaired code refuses it otherwise) and stack (stack_wf: conforming files, distinct dimension names in the first; a variable that carries the stack dimension twice is answered unspec) included; there is no single theorem over arbitrary operation sequences (each step theorem applies to the state the previous one gives); interpDimension and eval are exercised in C17/C06; IOAPI files are compared with the IOAPI model of C10 and judged by the real-object predicate.',
        technique='Lean 4 proof (shape lemmas by mutual structural induction) + model/implementation correspondence over operation sequences + well-formedness oracle',
        design='§7 C01'),
}

NOT_YET = {}


def build():
    props = [json.loads(l) for l in open(os.path.join(ROOT, 'properties.jsonl'))]
    checks = []
    na = []
    for p in props:
        pid = p['id']
        if pid in CLAIMED:
            c = CLAIMED[pid]
            checks.append(dict(
                property_id=pid,
                quick_cmd='./check %s quick' % pid,
                thorough_cmd='./check %s thorough' % pid,
                evidence_file='evidence/%s.json' % pid,
                replay_cmd_template='./check %s --replay {path}' % pid,
                engine='lean4-proof+correspondence',
                level_claimed=dict(category='proof', text=c['text'], design_ref='DESIGN.md ' + c['design']),
                level_note=c['note'],
                technique=c['technique']))
        else:
            na.append(dict(property_id=pid, reason=NOT_YET.get(
                pid, 'not claimed yet: model, theorems and correspondence for this property are not built '
                     '(work in progress; the technique applies, see DESIGN.md §7)')))
    m = dict(
        version=1,
        setup_cmd='cd lean && lake build',
        hooks=dict(
            guard='PSEUDONETCDF_VERIF',
            enable='no source hooks are needed; checks run the installed (editable) /repo tree with PSEUDONETCDF_VERIF=1 set',
            baseline_off_cmd=('cd /repo && /venv/bin/python -m pytest -ra -q -p no:cacheprovider --timeout=900 '
                              '--continue-on-collection-errors ; git -C /repo clean -fq -- src/PseudoNetCDF/testcase'),
            source_commits=[],
            add_only=True),
        engines=[dict(name='lean4-proof+correspondence', path='lean/ + harness/',
                      serves_properties=[c['property_id'] for c in checks],
                      kind_free_text='Lean 4 models + theorems; Python correspondence harness driving the compiled model')],
        checks=checks,
        notes='See DESIGN.md. known_findings.json lists recorded genuine defects.',
        not_applicable=na)
    with open(os.path.join(ROOT, 'MANIFEST.json'), 'w') as f:
        json.dump(m, f, indent=1)
    return m


if __name__ == '__main__':
    m = build()
    print('claimed:', [c['property_id'] for c in m['checks']])
