"""Shared machinery of the checks: Lean build + audit, model driver, correspondence,
oracle/search, known findings, evidence.  See DESIGN.md §2.1."""
import hashlib
import importlib
import json
import os
import random
import re
import subprocess
import sys
import time
import traceback
from fractions import Fraction

ROOT = os.path.dirname(os.path.dirname(os.path.abspath(__file__)))
LEAN = os.path.join(ROOT, 'lean')
DRIVER = os.path.join(LEAN, '.lake', 'build', 'bin', 'pncdriver')
REPO = os.environ.get('PNC_REPO', '/repo')
ALLOWED_AXIOMS = {'propext', 'Classical.choice', 'Quot.sound'}
BANNED = re.compile(r'\bsorry\b|\badmit\b|^\s*axiom\s|native_decide|bv_decide|implemented_by|'
                    r'\bunsafe\s|maxHeartbeats\s+0')

TRUSTED_BASE = [
    'Lean 4.33.0 kernel; axioms allowed: propext, Classical.choice, Quot.sound (audited by '
    '#print axioms on every property theorem on every run); no sorry/admit/axiom/native_decide/'
    'bv_decide/implemented_by/unsafe (grep audit on every run)',
    'Lean compiler/runtime for the executable model driver (same definitions the theorems are about)',
    'harness/translate.py (regenerates Lean tables from /repo source) and the correspondence '
    'harness (generators, adapters, canonicalisation, diff)',
    'modelled, not verified: numpy / numpy.ma / scipy / netCDF4 / datetime behaviour and IEEE-754 '
    'rounding (models compute in Int/Rat; equality with the code is claimed on exactly '
    'representable inputs only)',
]


class HarnessError(Exception):
    pass


# ---------------------------------------------------------------------------------------
# rationals on the wire

def frac(x):
    """exact Fraction of a python/numpy number"""
    if isinstance(x, Fraction):
        return x
    if isinstance(x, int):
        return Fraction(x)
    return Fraction(float(x))


def show_rat(x):
    q = frac(x)
    return str(q.numerator) if q.denominator == 1 else '%d/%d' % (q.numerator, q.denominator)


def show_list(xs, f=str):
    xs = list(xs)
    return ','.join(f(x) for x in xs) if xs else '-'


def show_rows(rows, f=str):
    rows = list(rows)
    return ';'.join(show_list(r, f) for r in rows) if rows else '-'


def parse_kv(out):
    """'ok a=1 b=2' -> ('ok', {'a': '1', 'b': '2'})"""
    toks = out.split(' ')
    d = {}
    for t in toks[1:]:
        if '=' in t:
            k, v = t.split('=', 1)
            d[k] = v
    return toks[0], d


# ---------------------------------------------------------------------------------------
# Lean: translate, build, audit

def run_cmd(cmd, cwd=None, timeout=3600, inp=None):
    p = subprocess.run(cmd, cwd=cwd, input=inp, stdout=subprocess.PIPE, stderr=subprocess.STDOUT,
                       timeout=timeout, text=True)
    return p.returncode, p.stdout


def translate():
    from . import translate as tr
    return tr.run_all(REPO, os.path.join(LEAN, 'PncModel', 'Generated'))


def lake_build():
    """returns (ok, failed_modules, log)"""
    rc, out = run_cmd(['lake', 'build'], cwd=LEAN, timeout=3000)
    failed = re.findall(r'^- (\S+)', out, flags=re.M)
    return rc == 0, failed, out


def strip_comments(src):
    src = re.sub(r'/-.*?-/', lambda m: '\n' * m.group(0).count('\n'), src, flags=re.S)
    src = re.sub(r'--.*', '', src)
    return src


def lean_sources():
    res = []
    for d, _, fs in os.walk(LEAN):
        if '.lake' in d:
            continue
        for f in fs:
            if f.endswith('.lean'):
                res.append(os.path.join(d, f))
    return sorted(res)


def grep_audit():
    hits = []
    for p in lean_sources():
        src = strip_comments(open(p).read())
        for i, line in enumerate(src.split('\n'), 1):
            if BANNED.search(line):
                hits.append('%s:%d: %s' % (os.path.relpath(p, LEAN), i, line.strip()))
    return hits


def theorems_of(module_file, namespace):
    """names of all theorems declared in a property file (inside `namespace`)"""
    src = strip_comments(open(os.path.join(LEAN, module_file)).read())
    return ['%s.%s' % (namespace, m) for m in re.findall(r'^theorem\s+([^\s:({\[]+)', src, flags=re.M)]


def axioms_audit(prop_id, module, theorems):
    """run `#print axioms` for each theorem; returns dict name -> set(axioms) (or None if missing)"""
    os.makedirs(os.path.join(LEAN, '.lake', 'audit'), exist_ok=True)
    path = os.path.join(LEAN, '.lake', 'audit', 'Audit_%s.lean' % prop_id)
    with open(path, 'w') as f:
        f.write('import %s\n' % module)
        for t in theorems:
            f.write('#print axioms %s\n' % t)
    rc, out = run_cmd(['lake', 'env', 'lean', path], cwd=LEAN, timeout=1200)
    res = {}
    for t in theorems:
        m = re.search(r"'%s' depends on axioms: \[([^\]]*)\]" % re.escape(t), out, flags=re.S)
        if m:
            res[t] = set(a.strip() for a in m.group(1).replace('\n', ' ').split(',') if a.strip())
        elif re.search(r"'%s' does not depend on any axioms" % re.escape(t), out):
            res[t] = set()
        else:
            res[t] = None
    return rc, res, out


def leanchecker(modules):
    rc, out = run_cmd(['lake', 'env', 'leanchecker'] + modules, cwd=LEAN, timeout=3000)
    return rc, out


# ---------------------------------------------------------------------------------------
# model driver

def run_model(lines):
    if not lines:
        return []
    if not os.path.exists(DRIVER):
        raise HarnessError('model driver not built: %s' % DRIVER)
    for l in lines:
        if '\n' in l:
            raise HarnessError('newline in model line')
    p = subprocess.run([DRIVER], input='\n'.join(lines) + '\n', stdout=subprocess.PIPE,
                       stderr=subprocess.PIPE, text=True, timeout=3000)
    if p.returncode != 0:
        raise HarnessError('model driver failed: rc=%s %s' % (p.returncode, p.stderr[:2000]))
    outs = p.stdout.split('\n')
    if outs and outs[-1] == '':
        outs.pop()
    if len(outs) != len(lines):
        raise HarnessError('model driver answered %d lines for %d requests' % (len(outs), len(lines)))
    return outs


# ---------------------------------------------------------------------------------------
# known findings

def load_findings():
    p = os.path.join(ROOT, 'known_findings.json')
    if not os.path.exists(p):
        return {'findings': [], 'fixed': []}
    return json.load(open(p))


def case_hash(case):
    return hashlib.sha1(json.dumps(case, sort_keys=True, default=str).encode()).hexdigest()[:12]


def write_replay(prop_id, payload):
    d = os.path.join(ROOT, 'replays', prop_id)
    os.makedirs(d, exist_ok=True)
    path = os.path.join(d, case_hash(payload) + '.json')
    with open(path, 'w') as f:
        json.dump(payload, f, indent=1, sort_keys=True, default=str)
    return os.path.relpath(path, ROOT)


def write_evidence(prop_id, ev):
    d = os.path.join(ROOT, 'evidence')
    os.makedirs(d, exist_ok=True)
    with open(os.path.join(d, prop_id + '.json'), 'w') as f:
        json.dump(ev, f, indent=1, sort_keys=True, default=str)


def load_prop(prop_id):
    return importlib.import_module('harness.props.' + prop_id.lower())


def exc_enum(e):
    """map a Python exception to the small error enum of the protocol"""
    return 'err ' + type(e).__name__


class pnc_warnings:
    """context manager recording PseudoNetCDF warnings (its `warn` wrapper swaps
    warnings.showwarning, which defeats warnings.catch_warnings(record=True))"""

    def __enter__(self):
        import warnings
        import PseudoNetCDF.pncwarn as pw
        self.pw = pw
        self.old = pw.clean_showwarning
        self.msgs = []
        pw.clean_showwarning = lambda message, *a, **k: self.msgs.append(str(message))
        self.cw = warnings.catch_warnings()
        self.cw.__enter__()
        warnings.simplefilter('always')
        self.oldshow = warnings.showwarning
        pw.std_showwarning = lambda message, *a, **k: self.msgs.append(str(message))
        warnings.showwarning = pw.std_showwarning
        return self

    def __exit__(self, *exc):
        self.pw.clean_showwarning = self.old
        self.pw.std_showwarning = self.oldshow
        self.cw.__exit__(*exc)
        return False


class Hang(Exception):
    """the implementation did not return within the time limit (an endless loop is a failure, not a harness error)"""


class time_limit:
    """`with time_limit(5): ...` raises Hang inside the block after that many seconds (worker processes, main thread)"""

    def __init__(self, seconds):
        self.seconds = seconds

    def __enter__(self):
        import signal

        def handler(signum, frame):
            raise Hang('no result after %d s' % self.seconds)
        self.old = signal.signal(signal.SIGALRM, handler)
        signal.alarm(self.seconds)
        return self

    def __exit__(self, *a):
        import signal
        signal.alarm(0)
        signal.signal(signal.SIGALRM, self.old)
        return False
