"""./check <Cxx> <quick|thorough> [--replay file]   — see DESIGN.md §2.1"""
import json
import multiprocessing as mp
import os
import random
import sys
import time
import traceback

from . import lib


def _impl_worker(args):
    prop_id, case = args
    prop = lib.load_prop(prop_id)
    try:
        res = prop.impl(case)
    except Exception as e:  # adapter failure = harness problem, reported as such
        return ('harness-exc', '%s: %s\n%s' % (type(e).__name__, e, traceback.format_exc()[-1500:]), None)
    try:
        orc = prop.oracle(case, res)
    except Exception as e:
        return ('harness-exc', 'oracle %s: %s\n%s' % (type(e).__name__, e, traceback.format_exc()[-1500:]), None)
    return ('ok', res, orc)


def eval_cases(prop, cases, tier):
    """run the real code (and the property predicate) on every case"""
    jobs = [(prop.ID, c) for c in cases]
    nproc = getattr(prop, 'NPROC', {}).get(tier, 1 if tier == 'quick' else 14)
    if nproc <= 1 or len(cases) < 32:
        return [_impl_worker(j) for j in jobs]
    ctx = mp.get_context('fork')
    with ctx.Pool(nproc) as pool:
        return pool.map(_impl_worker, jobs, chunksize=max(1, len(jobs) // (nproc * 8)))


def correspondence(prop, cases, tier):
    """returns list of records {case, impl, model, diff, oracle}"""
    results = eval_cases(prop, cases, tier)
    recs = []
    lines = []
    for c, (st, res, orc) in zip(cases, results):
        if st != 'ok':
            raise lib.HarnessError('adapter failed on case %s: %s' % (json.dumps(c, default=str)[:400], res))
        lines.append(prop.to_line(c, res))
    outs = lib.run_model(lines)
    for c, (st, res, orc), line, out in zip(cases, results, lines, outs):
        try:
            diff = prop.agree(c, out, res)
        except Exception as e:
            raise lib.HarnessError('agree() raised %s: %s on model=%s impl=%s' % (
                type(e).__name__, e, out[:300], str(res)[:300]))
        recs.append(dict(case=c, impl=res, line=line, model=out, diff=diff, oracle=orc))
    return recs


def main(argv):
    if len(argv) < 2:
        print('usage: check <Cxx> <quick|thorough> [--replay file]')
        return 2
    prop_id, tier = argv[0].upper(), argv[1]
    replay = None
    if '--replay' in argv:
        replay = argv[argv.index('--replay') + 1]
    if tier not in ('quick', 'thorough'):
        if tier == '--replay':
            tier = 'quick'
        else:
            print('tier must be quick or thorough')
            return 2
    seed = int(os.environ.get('VERIF_SEED', '0'))
    t0 = time.time()
    try:
        prop = lib.load_prop(prop_id)
        if replay:
            return do_replay(prop, replay)
        return run_check(prop, tier, seed, t0)
    except lib.HarnessError as e:
        print('HARNESS-ERROR: %s' % e)
        return 2
    except Exception:
        traceback.print_exc()
        return 2


def do_replay(prop, path):
    payload = json.load(open(path))
    cases = payload.get('cases') or ([payload['case']] if 'case' in payload else [])
    if not cases:
        print('replay names no concrete input: %s' % payload.get('what'))
        print(json.dumps(payload, indent=1)[:3000])
        return 1
    bad = 0
    for c in cases:
        recs = correspondence(prop, [c], 'quick')
        r = recs[0]
        print('case   :', json.dumps(c, default=str)[:2000])
        print('impl   :', str(r['impl'])[:2000])
        print('model  :', r['model'][:2000])
        print('diff   :', r['diff'])
        print('oracle :', r['oracle'])
        if r['oracle'] or r['diff']:
            bad += 1
    return 1 if bad else 0


def run_check(prop, tier, seed, t0):
    pid = prop.ID
    notes = []
    violations = []          # (replay_path, suffix)
    findings_db = lib.load_findings()
    listed = {f['key']: f for f in findings_db['findings'] if f['property'] == pid}

    # 1. translate + 2. build + audit ------------------------------------------------------
    tr_notes = lib.translate()
    notes += tr_notes
    ok, failed, log = lib.lake_build()
    proof_broken = []
    cone = set(getattr(prop, 'LEAN_CONE', []))
    if not ok:
        mine = [m for m in failed if m in cone or m == prop.LEAN_MODULE]
        if not failed:
            raise lib.HarnessError('lake build failed without naming a module:\n' + log[-3000:])
        if mine:
            proof_broken.append('lake build failed for %s' % ','.join(mine))
            notes.append(log[-3000:])
        elif not os.path.exists(lib.DRIVER):
            raise lib.HarnessError('lake build failed outside this property cone and no driver:\n' + log[-2000:])
    hits = lib.grep_audit()
    if hits:
        raise lib.HarnessError('banned construct in Lean sources: %s' % hits[:5])
    theorems = lib.theorems_of(prop.LEAN_FILE, prop.NAMESPACE)
    for mf in getattr(prop, 'MORE_LEAN_FILES', []):      # further property-theorem files of the same namespace
        theorems += lib.theorems_of(mf, prop.NAMESPACE)
    lemma_count = 0
    for f in getattr(prop, 'LEMMA_FILES', []):
        lemma_count += len(lib.theorems_of(f, 'X'))
    discharged = 0
    ax_out = ''
    if not proof_broken:
        rc, axs, ax_out = lib.axioms_audit(pid, prop.LEAN_MODULE, theorems)
        for t, a in axs.items():
            if a is None:
                proof_broken.append('theorem %s not found/does not check' % t)
            elif not a <= lib.ALLOWED_AXIOMS:
                raise lib.HarnessError('theorem %s depends on axioms %s' % (t, sorted(a)))
            else:
                discharged += 1
        required = getattr(prop, 'REQUIRED_THEOREMS', [])
        for t in required:
            if prop.NAMESPACE + '.' + t not in axs:
                proof_broken.append('required theorem %s missing' % t)
    checker_cmd = 'cd lean && lake build && lake env lean .lake/audit/Audit_%s.lean  (#print axioms)' % pid
    if tier == 'thorough' and not proof_broken:
        rc, out = lib.leanchecker([prop.LEAN_MODULE])
        if rc != 0:
            proof_broken.append('leanchecker rejected %s: %s' % (prop.LEAN_MODULE, out[-500:]))
        checker_cmd += ' ; lake env leanchecker %s' % prop.LEAN_MODULE

    # 3. correspondence + oracle ----------------------------------------------------------
    rng = random.Random(seed)
    corpus = load_corpus(pid)
    cases = corpus + list(prop.gen(rng, tier))
    recs = correspondence(prop, cases, tier)
    diffs = [r for r in recs if r['diff']]
    orc_fail = [r for r in recs if r['oracle']]
    known_hits = {}
    for r in orc_fail:
        key = _classify(prop, r['case'], r['oracle'], r['model'], r['impl'], r['diff'])
        r['key'] = key
        if key in listed:
            known_hits[key] = known_hits.get(key, 0) + 1
        else:
            path = lib.write_replay(pid, dict(property=pid, what=r['oracle'], case=r['case'],
                                              impl=r['impl'], model=r['model'], classified=key))
            violations.append((path, ''))
    # extra, property specific checks (spec validation, translator obligations, …)
    extra = []
    if hasattr(prop, 'extra_checks'):
        for name, okx, detail in prop.extra_checks(tier, rng):
            extra.append(dict(name=name, ok=okx, detail=detail))
            if not okx:
                proof_broken.append('extra check %s failed: %s' % (name, detail))

    # 4. witnesses of listed findings -----------------------------------------------------
    kf_lines = []
    wit = prop.witnesses() if hasattr(prop, 'witnesses') else []
    for key, wcase in wit:
        if key not in listed:
            continue
        wr = correspondence(prop, [wcase], 'quick')[0]
        if wr['oracle'] and not any(key in l for l in kf_lines):
            kf_lines.append('KNOWN-FINDING: property=%s %s [%s] %s' % (pid, key, listed[key]['what'], wr['oracle'][:200]))
        if wr['oracle']:
            if wr['diff']:
                # the model is supposed to mirror the defective behaviour
                diffs.append(wr)
    for l in kf_lines:
        print(l)

    # 5. decision on broken proof / correspondence ---------------------------------------
    unexplained = diffs
    if (proof_broken or unexplained) and not violations:
        # search for a concrete failing input on the real code
        found = None
        budget = 4000 if tier == 'quick' else 40000
        srng = random.Random(seed + 7919)
        gen = prop.search(srng, budget) if hasattr(prop, 'search') else prop.gen(srng, 'thorough')
        scases = [r['case'] for r in unexplained] + list(gen)[:budget]
        sres = eval_cases(prop, scases, 'thorough')
        fails = [(c, res, orc) for c, (st, res, orc) in zip(scases, sres) if st == 'ok' and orc]
        if fails:
            outs = lib.run_model([prop.to_line(c, res) for c, res, _ in fails])
            for (c, res, orc), out in zip(fails, outs):
                key = _classify(prop, c, orc, out, res, None)
                if key in listed:
                    known_hits[key] = known_hits.get(key, 0) + 1
                    continue
                found = (c, res, orc, out, key)
                break
        what = '; '.join(proof_broken + (['correspondence differs on %d case(s): %s' % (
            len(unexplained), unexplained[0]['diff'])] if unexplained else []))
        if found:
            c, res, orc, out, key = found
            if hasattr(prop, 'shrink'):
                c = prop.shrink(c)
            path = lib.write_replay(pid, dict(property=pid, what=orc, case=c, impl=res, model=out,
                                              broken=what))
            violations.append((path, ''))
        else:
            path = lib.write_replay(pid, dict(
                property=pid, what='no longer shown to hold: ' + what,
                broken_obligations=proof_broken,
                correspondence_stream=pid.lower(),
                cases=[r['case'] for r in unexplained[:5]],
                first_differences=[dict(case=r['case'], impl=r['impl'], model=r['model'], diff=r['diff'])
                                   for r in unexplained[:5]],
                build_log_tail=notes[-1][-1500:] if notes else ''))
            violations.append((path, ' no-failing-input-found'))

    # 6. evidence ------------------------------------------------------------------------
    distinct = set()
    for r in recs:
        if prop.nontrivial(r['case'], r['impl']):
            distinct.add(lib.case_hash(r['case']))
    if len(distinct) < getattr(prop, 'MIN_NONTRIVIAL', {}).get(tier, 2) and not violations:
        raise lib.HarnessError('only %d non-trivial cases generated' % len(distinct))
    samples = [dict(case=r['case'], model=r['model'][:400]) for r in recs[len(corpus):len(corpus) + 3]]
    obligations = len(theorems) + lemma_count
    ev = dict(
        property_id=pid, tier=tier, seed=seed, level='proof',
        coverage=dict(
            obligations=obligations,
            discharged=(discharged + lemma_count) if not proof_broken else discharged,
            property_theorems=theorems,
            checker_cmd=checker_cmd,
            trusted_base=lib.TRUSTED_BASE + list(getattr(prop, 'TRUSTED_EXTRA', [])),
            evaluations=len(recs),
            distinct_nontrivial=len(distinct),
            rule=prop.RULE,
            samples=samples,
            traces_validated_against_impl=len([r for r in recs if not r['diff']]),
            disagreements=len(diffs),
            oracle_failures=len(orc_fail),
            known_finding_hits=known_hits,
            known_findings_reported=kf_lines,
            distribution=prop.distribution(recs) if hasattr(prop, 'distribution') else {},
            extra_checks=extra,
            proof_broken=proof_broken,
            translator_notes=tr_notes,
        ),
        assumptions=list(getattr(prop, 'ASSUMPTIONS', [])),
        wall_s=round(time.time() - t0, 2),
        violations=len(violations),
    )
    lib.write_evidence(pid, ev)
    for path, suffix in violations[:10]:
        print('VIOLATION property=%s replay=%s%s' % (pid, path, suffix))
    if violations:
        return 1
    print('OK property=%s tier=%s cases=%d nontrivial=%d theorems=%d known-findings=%d wall=%.1fs' % (
        pid, tier, len(recs), len(distinct), obligations, len(kf_lines), time.time() - t0))
    return 0


def _classify(prop, case, orc, out, res, diff):
    """which listed finding (if any) a failure is: properties may look at the implementation's result and at its agreement
    with the model too (a finding mirrored by the model is only that finding while the implementation still behaves like
    the model)"""
    if hasattr(prop, 'classify_full'):
        if diff is None:
            try:
                diff = prop.agree(case, out, res)
            except Exception as e:
                diff = 'agree() raised %s' % type(e).__name__
        return prop.classify_full(case, orc, out, res, diff)
    return prop.classify(case, orc, out)


def load_corpus(pid):
    d = os.path.join(lib.ROOT, 'corpus', pid)
    res = []
    if os.path.isdir(d):
        for f in sorted(os.listdir(d)):
            if f.endswith('.json'):
                res.append(json.load(open(os.path.join(d, f)))['case'])
    return res


if __name__ == '__main__':
    sys.exit(main(sys.argv[1:]))
