"""Helpers for the CAMx binary formats (C08, C09, C13, C14): generating CAMx-convention files,
word-level views of bytes, canonical text of what the library readers present."""
import atexit
import os
import shutil
import struct
import tempfile

import numpy as np

from . import lib

_TMP = None


def tmpdir():
    global _TMP
    if _TMP is None or not os.path.isdir(_TMP):
        _TMP = tempfile.mkdtemp(prefix='pncverif_bin_')
        atexit.register(shutil.rmtree, _TMP, True)
    return _TMP


def f32bits(x):
    return struct.unpack('>I', struct.pack('>f', float(x)))[0]


def bits_f32(w):
    return struct.unpack('>f', struct.pack('>I', w))[0]


def hexwords(ws):
    return ''.join('%08x' % w for w in ws) or '-'


def bytes_to_words(b):
    n = len(b) // 4
    return list(struct.unpack('>%dI' % n, b[:4 * n])), len(b) - 4 * n


def words_to_bytes(ws):
    return struct.pack('>%dI' % len(ws), *ws)


def codes(s, n):
    return [ord(c) for c in s.ljust(n)[:n]]


def rand_f32_bits(rng):
    """finite float32 bit patterns: ordinary, tiny/denormal, negative zero, large"""
    k = rng.random()
    if k < 0.6:
        return f32bits(rng.choice([1, -1]) * rng.randint(0, 4000) / rng.choice([1, 2, 8, 1000]))
    if k < 0.7:
        return rng.choice([0x80000000, 0x00000000, 0x00000001, 0x807fffff, 0x00800000])
    e = rng.randint(1, 254)
    return (rng.randint(0, 1) << 31) | (e << 23) | rng.randint(0, (1 << 23) - 1)


NAMES = ['AVERAGE', 'EMISSIONS', 'INSTANT', 'AIRQUALITY']


def gen_uamiv(rng, maxdim=4, maxsteps=3):
    nspec = rng.randint(1, 3)
    nx, ny, nz = rng.randint(1, maxdim), rng.randint(1, maxdim), rng.randint(1, 3)
    nt = rng.randint(1, maxsteps)
    pool = ['O3', 'NO2', 'NO', 'CO', 'PM25', 'ISOP', 'A234567890', 'X1', 'SO2', 'HNO3']
    species = rng.sample(pool, nspec)
    y = rng.choice([1970, 1985, 1998, 2001, 2019, 2020, 2069, rng.randint(1970, 1998), rng.randint(2000, 2068)])
    leap = y % 4 == 0 and (y % 100 != 0 or y % 400 == 0)
    j = rng.choice([1, 59, 60, 200, rng.randint(1, 364)])
    h = rng.choice([0, 0, 5, 12, rng.randint(0, 20)])
    if rng.random() < 0.2:
        # roll-overs: last hours of a day / of the year (1999 -> 2000 included)
        if y < 2069:     # 2070 is outside the two-digit-year window of the format
            j = rng.choice([j, 366 if leap else 365])
        h = rng.choice([22, 23, 21])
        if rng.random() < 0.3:
            y, leap = 1999, False
            j = 365
    tstep = rng.choice([1, 1, 1, 3])
    import datetime as dt
    t0 = dt.datetime(y, 1, 1) + dt.timedelta(days=j - 1, hours=h)
    tflag, etflag = [], []
    for i in range(nt):
        a = t0 + dt.timedelta(hours=tstep * i)
        b = a + dt.timedelta(hours=tstep)
        tflag.append([int(a.strftime('%Y%j')), int(a.strftime('%H%M%S'))])
        etflag.append([int(b.strftime('%Y%j')), int(b.strftime('%H%M%S'))])
    grid = dict(PLON=rng.choice([-97., 0., 10.5]), PLAT=rng.choice([40., 0., 90.]), IUTM=rng.choice([0, 15]),
                XORIG=rng.choice([-2736000., 0., 12.5]), YORIG=rng.choice([-2088000., 1.0, -36.]),
                XCELL=rng.choice([36000., 12000., 0.5]), YCELL=rng.choice([36000., 12000., 0.25]),
                CPROJ=rng.choice([0, 1, 2, 3]), ISTAG=rng.choice([0, 1]), TLAT1=rng.choice([33., 0.]),
                TLAT2=rng.choice([45., 0.]))
    data = [[[[rand_f32_bits(rng) for _ in range(nx * ny)] for _ in range(nz)] for _ in range(nspec)] for _ in range(nt)]
    with_etflag = rng.random() < 0.5
    if with_etflag and rng.random() < 0.4:
        # the CAMx way of writing an end at midnight: hour 24 of the day that ends (what the reader returns for daily files)
        for i in range(nt):
            b = t0 + dt.timedelta(hours=tstep * (i + 1))
            if b.hour == 0 and b.minute == 0:
                y_ = b - dt.timedelta(days=1)
                etflag[i] = [int(y_.strftime('%Y%j')), 240000]
    return dict(name=rng.choice(NAMES), note=rng.choice(['verif note', 'CAMx v6 test', '']), itzon=rng.choice([0, 6, -5]),
                grid=grid, nx=nx, ny=ny, nz=nz, species=species, tflag=tflag, etflag=etflag,
                with_etflag=with_etflag, tstep=tstep, data=data)


def end_of_day(c):
    """end flags at midnight spelt the CAMx way: hour 24 of the day that ends"""
    import datetime as dt
    for i, (d_, t_) in enumerate(c['etflag']):
        if t_ == 0:
            prev = dt.datetime.strptime('%07d' % d_, '%Y%j') - dt.timedelta(days=1)
            c['etflag'][i] = [int(prev.strftime('%Y%j')), 240000]
    return c


def gen_uamiv_at(rng, y, j, h, with_etflag=False, tstep=1):
    """a random gridded file whose first step begins at year y, day j, hour h"""
    import datetime as dt
    c = gen_uamiv(rng)
    t0 = dt.datetime(y, 1, 1) + dt.timedelta(days=j - 1, hours=h)
    c['tflag'], c['etflag'] = [], []
    for i in range(len(c['data'])):
        a = t0 + dt.timedelta(hours=tstep * i)
        b = a + dt.timedelta(hours=tstep)
        c['tflag'].append([int(a.strftime('%Y%j')), int(a.strftime('%H%M%S'))])
        c['etflag'].append([int(b.strftime('%Y%j')), int(b.strftime('%H%M%S'))])
    c['with_etflag'] = with_etflag
    c['tstep'] = tstep
    return c


def in_read_domain(c):
    """files on which the legacy record reader (uamiv.Read) is meaningful: see DESIGN (C13)"""
    nt = len(c['tflag'])
    return (c['name'] in ('AVERAGE', 'INSTANT') and c['tstep'] % 2 == 1 and min(c['nx'], c['ny'], c['nz'], nt) >= 2
            and c['tflag'][0][0] == c['etflag'][-1][0])


def gen_uamiv_read_domain(rng):
    while True:
        c = gen_uamiv(rng)
        c['name'] = rng.choice(['AVERAGE', 'INSTANT'])
        if in_read_domain(c):
            return c


def gen_uamiv_one_day(rng):
    """AVERAGE/INSTANT files whose steps (1, 2, 3, 4 or 6 hours; 1-6 of them; any counts, also 1) lie within one day:
    there the record reader's time arithmetic is exact whatever the parity of the step"""
    while True:
        ts = rng.choice([1, 2, 3, 4, 6])
        c = gen_uamiv_at(rng, rng.choice([1985, 2001, 2019, 2020]), rng.randint(1, 365), rng.choice([0, 0, 3, 5, 11, 18, 21, 23]), tstep=ts)
        nt = rng.randint(1, 6)
        left = 24 - c['tflag'][0][1] // 10000
        if left < ts * nt:
            continue
        if left == ts * nt and (ts % 2 == 0 or c['tflag'][0][0] % 1000 >= 365 or nt < 2):
            # a period that runs to midnight is stamped (next day, 0.0): the record reader counts its steps with a day of
            # 24 only for odd steps, knows no year end, and takes the step from the FIRST time record, which therefore
            # must not be the one that ends at midnight (21.0 -> next day 0.0 reads as a step of 2379)
            continue
        import datetime as dt
        t0 = dt.datetime.strptime('%d %06d' % tuple(c['tflag'][0]), '%Y%j %H%M%S')
        c['tflag'] = [[int((t0 + dt.timedelta(hours=ts * i)).strftime('%Y%j')), int((t0 + dt.timedelta(hours=ts * i)).strftime('%H%M%S'))] for i in range(nt)]
        c['etflag'] = [[int((t0 + dt.timedelta(hours=ts * (i + 1))).strftime('%Y%j')), int((t0 + dt.timedelta(hours=ts * (i + 1))).strftime('%H%M%S'))] for i in range(nt)]
        if rng.random() < 0.35:
            # a species whose name occurs inside the name of an earlier one
            c['species'] = rng.choice([['NO2', 'NO'], ['HNO3', 'NO', 'O3'], ['O3', 'O'], ['ETOH', 'OH'], ['NO3', 'NO', 'O']])
        nspec = len(c['species'])
        c['data'] = [[[[rand_f32_bits(rng) for _ in range(c['nx'] * c['ny'])] for _ in range(c['nz'])] for _ in range(nspec)] for _ in range(nt)]
        c['name'] = rng.choice(['AVERAGE', 'INSTANT'])
        assert c['tflag'][0][0] == c['etflag'][-1][0] or c['etflag'][-1][1] == 0
        return c


def gen_uamiv_emis2d(rng):
    """2-D gridded emissions: one layer of data; the grid header says nz = 1 or (older files) nz = 0"""
    while True:
        c = gen_uamiv(rng)
        c['name'] = 'EMISSIONS'
        nt = len(c['tflag'])
        if c['tstep'] % 2 == 1 and min(c['nx'], c['ny'], nt) >= 2 and c['tflag'][0][0] == c['etflag'][-1][0]:
            c['nz'] = 1
            c['data'] = [[spc[:1] for spc in step] for step in c['data']]
            c['hdr_nz'] = rng.choice([0, 1])
            return c


def record_model_diff(hexbytes, r):
    """the record reader of gridded files against its own Lean model (UamivRead.read: header walk by markers, step from
    the first time record, count from the file header, timerange, byte positions)"""
    rd = lib.run_model(['bin uamiv-rd ' + hexbytes])[0]
    if 'err' in r or 'inconsistent' in r:
        return None if rd.startswith('err') else 'record reader %s, its model reads the file (%s)' % (
            r.get('err', r.get('inconsistent')), rd[:60])
    if not rd.startswith('ok '):
        return 'record-reader model: %s, the library read the file' % rd[:40]
    _, kv = lib.parse_kv('x ' + rd[3:])
    for k in ('nspec', 'nx', 'ny', 'nz', 'nt'):
        if int(kv[k]) != r[k]:
            return 'record reader %s model=%s impl=%s' % (k, kv[k], r[k])
    if kv['species'] != r['species']:
        return 'record reader species model=%s impl=%s' % (kv['species'], r['species'])
    if kv['data'] != r['data']:
        return 'record reader data differ from its model'
    return None


def view_of_record_reader(f):
    names = list(f.variables.keys())
    nt = len(f.dimensions['TSTEP'])
    nz, ny, nx = len(f.dimensions['LAY']), len(f.dimensions['ROW']), len(f.dimensions['COL'])
    sp = ';'.join(lib.show_list(codes(s, 10)) for s in names) or '-'
    for s in names:
        shp = tuple(np.shape(f.variables[s]))
        if shp != (nt, nz, ny, nx):
            return dict(inconsistent='variable %s has shape %s but the dimensions say %s' % (s, shp, (nt, nz, ny, nx)),
                        nspec=len(names), nx=nx, ny=ny, nz=nz, nt=nt)
    dat = []
    for t in range(nt):
        ws = []
        for s in names:
            arr = np.ascontiguousarray(np.asarray(f.variables[s][t], dtype='>f4'))
            ws += arr.view('>u4').ravel().tolist()
        dat.append(hexwords(ws))
    return dict(nspec=len(names), nx=nx, ny=ny, nz=nz, nt=nt, species=sp, data='|'.join(dat), partial=True)


def grid_words(c):
    g = c['grid']
    i32 = lambda v: v & 0xffffffff
    return [f32bits(g['PLON']), f32bits(g['PLAT']), i32(g['IUTM']), f32bits(g['XORIG']), f32bits(g['YORIG']),
            f32bits(g['XCELL']), f32bits(g['YCELL']), c['nx'], c['ny'], c.get('hdr_nz', c['nz']), i32(g['CPROJ']), i32(g['ISTAG']),
            f32bits(g['TLAT1']), f32bits(g['TLAT2']), 0]


def build_uamiv_file(c):
    """a CAMx-convention PseudoNetCDFFile as ncf2uamiv expects it"""
    import PseudoNetCDF as pnc
    f = pnc.PseudoNetCDFFile()
    nt = len(c['tflag'])
    nspec = len(c['species'])
    f.createDimension('TSTEP', nt).setunlimited(True)
    f.createDimension('LAY', c['nz'])
    f.createDimension('ROW', c['ny'])
    f.createDimension('COL', c['nx'])
    f.createDimension('VAR', nspec)
    f.createDimension('DATE-TIME', 2)
    f.NAME = c['name'].ljust(10)
    f.NOTE = c['note'].ljust(60)
    f.ITZON = np.int32(c['itzon'])
    for k, v in c['grid'].items():
        setattr(f, k, np.float32(v) if isinstance(v, float) else np.int32(v))
    setattr(f, 'VAR-LIST', ''.join(s.ljust(16) for s in c['species']))
    f.TSTEP = np.int32(c['tstep'] * 10000)
    f.NVARS = nspec
    tf = f.createVariable('TFLAG', 'i', ('TSTEP', 'VAR', 'DATE-TIME'))
    tf[:] = np.array(c['tflag'], dtype='i')[:, None, :].repeat(nspec, 1)
    if c['with_etflag']:
        ef = f.createVariable('ETFLAG', 'i', ('TSTEP', 'VAR', 'DATE-TIME'))
        ef[:] = np.array(c['etflag'], dtype='i')[:, None, :].repeat(nspec, 1)
    # the variables may have been created in another order than VAR-LIST names them (a file put together by hand, a species
    # replaced later): VAR-LIST says what the species order of the output is
    order = c.get('varorder') or list(range(nspec))
    for si in order:
        s = c['species'][si]
        v = f.createVariable(s, c.get('vdtype', 'f'), ('TSTEP', 'LAY', 'ROW', 'COL'))
        bits = np.array([[c['data'][t][si][z] for z in range(c['nz'])] for t in range(nt)], dtype='>u4')
        v[:] = bits.view('>f4').reshape(nt, c['nz'], c['ny'], c['nx'])      # float32 -> float64 is exact
        v.units = 'ppm'
    return f


def uamiv_write_line(c):
    sp = ';'.join(lib.show_list(codes(s, 10)) for s in c['species'])
    et = lib.show_list(['%d:%d' % (a, b) for a, b in c['etflag']]) if c['with_etflag'] else '_'
    dat = '|'.join(hexwords([w for spc in step for lay in spc for w in lay]) for step in c['data']) or '-'
    return ('bin uamiv-write name=%s note=%s itzon=%08x grid=%s species=%s tflag=%s etflag=%s tstep=%d data=%s' % (
        lib.show_list(codes(c['name'], 10)), lib.show_list(codes(c['note'], 60)), c['itzon'] & 0xffffffff,
        hexwords(grid_words(c)), sp, lib.show_list(['%d:%d' % (a, b) for a, b in c['tflag']]), et, c['tstep'], dat))


def view_of_reader(f, kind='uamiv'):
    """canonical text of what a library reader presents (same form as Camx.showView)"""
    names = [k for k in getattr(f, 'VAR-LIST').split()] if hasattr(f, 'VAR-LIST') else []
    nt = len(f.dimensions['TSTEP'])
    nz, ny, nx = len(f.dimensions['LAY']), len(f.dimensions['ROW']), len(f.dimensions['COL'])
    sp = ';'.join(lib.show_list(codes(s, 10)) for s in names) or '-'

    def flags(k):
        a = np.asarray(f.variables[k][:, 0, :])
        return lib.show_list(['%d:%d' % (int(x), int(y)) for x, y in a])
    for s in names + ['TFLAG']:
        shp = tuple(np.shape(f.variables[s]))
        want = (nt, nz, ny, nx) if s != 'TFLAG' else (nt, len(names), 2)
        if shp != want:
            return dict(inconsistent='variable %s has shape %s but the dimensions say %s' % (s, shp, want),
                        nspec=len(names), nx=nx, ny=ny, nz=nz, nt=nt)
    dat = []
    for t in range(nt):
        ws = []
        for s in names:
            arr = np.ascontiguousarray(np.asarray(f.variables[s][t], dtype='>f4'))
            ws += arr.view('>u4').ravel().tolist()
        dat.append(hexwords(ws))
    hdr = codes(str(f.NAME), 10) + codes(str(f.NOTE), 60)
    hdrw = [(ch << 24) | 0x202020 for ch in hdr] + [int(f.ITZON) & 0xffffffff, len(names)]
    gw = [f32bits(f.PLON), f32bits(f.PLAT), int(f.IUTM) & 0xffffffff, f32bits(f.XORIG), f32bits(f.YORIG),
          f32bits(f.XCELL), f32bits(f.YCELL), nx, ny, None, int(f.CPROJ) & 0xffffffff, int(f.ISTAG) & 0xffffffff,
          f32bits(f.TLAT1), f32bits(f.TLAT2)]
    return dict(nspec=len(names), nx=nx, ny=ny, nz=nz, nt=nt, species=sp, tflag=flags('TFLAG'),
                etflag=flags('ETFLAG') if 'ETFLAG' in f.variables else None, hdr=hdrw, grid=gw, data='|'.join(dat),
                tstep_attr=(int(f.TSTEP) if hasattr(f, 'TSTEP') else None))


def diff_view(model_out, view):
    """compare Camx.showView text with view_of_reader()"""
    st, kv = lib.parse_kv(model_out)
    if 'inconsistent' in view:
        return 'impl presents an inconsistent file: ' + view['inconsistent']
    for k in ('nspec', 'nx', 'ny', 'nz', 'nt'):
        if int(kv[k]) != view[k]:
            return '%s model=%s impl=%s' % (k, kv[k], view[k])
    for k in (('species', 'data') if view.get('partial') else ('species', 'tflag', 'data')):
        if kv[k] != view[k]:
            return '%s model=%s impl=%s' % (k, kv[k][:120], view[k][:120])
    if view.get('partial'):
        return None         # record reader: dimensions, species and data only
    if view['etflag'] is not None and kv['etflag'] != view['etflag']:
        return 'etflag model=%s impl=%s' % (kv['etflag'], view['etflag'])
    mh = kv['hdr']
    mhw = [int(mh[i:i + 8], 16) for i in range(0, len(mh), 8)]
    if mhw[:72] != view['hdr']:
        return 'header words (NAME/NOTE/ITZON/nspec) differ'
    mg = kv['grid']
    mgw = [int(mg[i:i + 8], 16) for i in range(0, len(mg), 8)]
    for i, w in enumerate(view['grid']):
        if w is not None and mgw[i] != w:
            return 'grid header word %d model=%08x impl=%08x' % (i, mgw[i], w)
    return None


def walk_records(b):
    """independent Fortran record walker (python): list of payloads or raises ValueError"""
    recs = []
    pos = 0
    n = len(b)
    while pos < n:
        if pos + 4 > n:
            raise ValueError('truncated marker at %d' % pos)
        m = struct.unpack('>i', b[pos:pos + 4])[0]
        if m < 0 or pos + 8 + m > n:
            raise ValueError('record at %d overruns the file' % pos)
        e = struct.unpack('>i', b[pos + 4 + m:pos + 8 + m])[0]
        if e != m:
            raise ValueError('markers disagree at %d: %d vs %d' % (pos, m, e))
        recs.append(b[pos + 4:pos + 4 + m])
        pos += 8 + m
    return recs


def uamiv_content_tokens(c):
    """content of a uamiv file for the reference encoder (dates as YYJJJ, hours as float32 bits)"""
    def yyjjj(d):
        return d % 100000

    def hour(t):
        return f32bits(t // 10000)
    steps = []
    for i, step in enumerate(c['data']):
        b, e = c['tflag'][i], c['etflag'][i]
        steps.append('%08x:%08x:%08x:%08x:%s' % (yyjjj(b[0]), hour(b[1]), yyjjj(e[0]), hour(e[1]),
                                                 hexwords([w for spc in step for lay in spc for w in lay])))
    sp = ';'.join(lib.show_list(codes(s, 10)) for s in c['species'])
    b0, e1 = c['tflag'][0], c['etflag'][-1]
    return 'name=%s note=%s itzon=%08x ftime=%08x:%08x:%08x:%08x grid=%s species=%s lay=%d steps=%s' % (
        lib.show_list(codes(c['name'], 10)), lib.show_list(codes(c['note'], 60)), c['itzon'] & 0xffffffff,
        yyjjj(b0[0]), hour(b0[1]), yyjjj(e1[0]), hour(e1[1]), hexwords(grid_words(c)), sp, c['nz'], '|'.join(steps) or '-')


def ref_encode_uamiv(c):
    out = lib.run_model(['bin uamiv-refenc ' + uamiv_content_tokens(c)])[0]
    if not out.startswith('ok '):
        raise lib.HarnessError('reference encoder failed: ' + out[:100])
    h = out[3:]
    return bytes.fromhex(h) if h != '-' else b''


def write_with_library(c, fmt='uamiv'):
    from PseudoNetCDF.pncgen import pncgen
    f = build_uamiv_file(c)
    path = os.path.join(tmpdir(), 'w_%d_%d.bin' % (os.getpid(), id(c) % 100000))
    if os.path.exists(path):
        os.remove(path)
    with lib.pnc_warnings():
        pncgen(f, path, format=fmt, verbose=0)
    b = open(path, 'rb').read()
    os.remove(path)
    return b


def read_with_library(b, reader='memmap', endian=None):
    path = os.path.join(tmpdir(), 'r_%d_%d.bin' % (os.getpid(), np.random.randint(1 << 30)))
    with open(path, 'wb') as fh:
        fh.write(b)
    try:
        with lib.pnc_warnings():
            if reader == 'memmap':
                from PseudoNetCDF.camxfiles.uamiv.Memmap import uamiv
                f = uamiv(path, endian=endian) if endian else uamiv(path)
            else:
                from PseudoNetCDF.camxfiles.uamiv.Read import uamiv
                f = uamiv(path)
                return view_of_record_reader(f)
            return view_of_reader(f)
    finally:
        try:
            os.remove(path)
        except OSError:
            pass


def to_little_endian(b):
    """a big-endian uamiv file as a little-endian machine would have written it: every integer/float word and every
    record marker byte-swapped, the characters (one per word, 'A   ') left in place"""
    recs = walk_records(b)

    def sw(x):
        return b''.join(x[i:i + 4][::-1] for i in range(0, len(x), 4))
    out = b''
    for i, r in enumerate(recs):
        if i == 0:
            body = r[:280] + sw(r[280:])
        elif i in (1, 2):
            body = sw(r)
        elif i == 3:
            body = r
        elif len(r) == 16:
            body = sw(r)
        else:
            body = sw(r[:4]) + r[4:44] + sw(r[44:])
        m = struct.pack('<i', len(r))
        out += m + body + m
    return out
