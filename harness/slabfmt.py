"""CAMx slab formats (one3d / humidity / vertical_diffusivity, temperature, height_pressure): random specs, an
independent reference encoder, library readers (Memmap and Read) and writers, canonical views (C09, C13, C08)."""
import os
import struct

import numpy as np

from . import camx, lib

FORMATS = {  # name: (kind, variables in file order, Memmap module, Read module, writer format)
    'one3d': ('one3d', ['UNKNOWN'], 'one3d.Memmap.one3d', 'one3d.Read.one3d', 'camxfiles.one3d'),
    'humidity': ('one3d', ['HUM'], 'humidity.Memmap.humidity', 'humidity.Read.humidity', 'camxfiles.humidity'),
    'vertical_diffusivity': ('one3d', ['KV'], 'vertical_diffusivity.Memmap.vertical_diffusivity',
                             'vertical_diffusivity.Read.vertical_diffusivity', 'camxfiles.vertical_diffusivity'),
    'temperature': ('temperature', ['SURFTEMP', 'AIRTEMP'], 'temperature.Memmap.temperature', 'temperature.Read.temperature',
                    'camxfiles.temperature'),
    'height_pressure': ('height_pressure', ['HGHT', 'PRES'], 'height_pressure.Memmap.height_pressure',
                        'height_pressure.Read.height_pressure', 'camxfiles.height_pressure'),
}


def gen(rng, fmt=None, mint=2, longspan=None):
    """longspan: None = random (25 % long), False = hourly/3-hourly only, 6/12/24 = that step in hours"""
    fmt = fmt or rng.choice(sorted(FORMATS))
    kind = FORMATS[fmt][0]
    nx, ny, nz, nt = rng.randint(1, 4), rng.randint(1, 4), rng.randint(1, 3), rng.randint(mint, 4)
    yy = rng.choice([2, 19, 85, 99, 0])
    jjj = rng.choice([1, 59, 200, 365])
    h0 = rng.choice([0, 5, 12, 20, 22])
    step = rng.choice([1, 1, 1, 3])
    if longspan or (longspan is None and rng.random() < 0.25):
        # long spans: half-day and whole-day steps, more steps (two or more midnights inside the file)
        step = longspan or rng.choice([6, 12, 24, 24])
        nt = rng.randint(max(mint, 2), 6)
        jjj = rng.choice([1, 59, 200])
    flags = []
    for t in range(nt):
        h = h0 + t * step
        d = yy * 1000 + jjj + h // 24          # stays within the year for the chosen values except day 365/366
        flags.append([d, (h % 24) * 100])
    if rng.random() < 0.2 and step < 24:
        # end-of-day labelling: midnight written as hour 24 of the day that ends (2200, 2300, 2400 on one julian day)
        for t in range(1, nt):
            if flags[t][1] == 0 and flags[t][0] == flags[t - 1][0] + 1 and flags[t - 1][1] != 2400:
                flags[t] = [flags[t - 1][0], 2400]
    per = {'one3d': nz, 'temperature': nz + 1, 'height_pressure': 2 * nz}[kind]
    data = [[[camx.rand_f32_bits(rng) for _ in range(nx * ny)] for _ in range(per)] for _ in range(nt)]
    return dict(fmt=fmt, nx=nx, ny=ny, nz=nz, flags=flags, data=data)


def f32bits(x):
    return struct.unpack('>I', struct.pack('>f', x))[0]


def encode(c):
    out = b''
    n = c['nx'] * c['ny']
    m = struct.pack('>i', 4 * (n + 2))
    for (d, hhmm), slabs in zip(c['flags'], c['data']):
        for s in slabs:
            out += m + struct.pack('>fi', float(hhmm), d) + struct.pack('>%dI' % n, *s) + m
    return out


def lean_steps(c):
    return 'cells=%d steps=%s' % (c['nx'] * c['ny'], '|'.join(
        '%08x:%08x:%s' % (f32bits(float(hhmm)), d, ','.join(camx.hexwords(s) for s in slabs))
        for (d, hhmm), slabs in zip(c['flags'], c['data'])))


def _cls(path):
    import importlib
    mod, name = path.rsplit('.', 1)
    return getattr(importlib.import_module('PseudoNetCDF.camxfiles.' + mod), name)


def open_reader(c, path, which):
    cls = _cls(FORMATS[c['fmt']][2 if which == 'memmap' else 3])
    if c.get('noshape'):
        return cls(path)            # rows and columns left to the reader (one row or one column of all cells)
    if c.get('partial') == 'rows':
        return cls(path, c['ny'], None)     # the other count is inferred from the record size
    if c.get('partial') == 'cols':
        return cls(path, None, c['nx'])
    return cls(path, c['ny'], c['nx'])


def view(f, c):
    """canonical view in the form of Slab.showView (vars in the model's order and names)"""
    kind, names = FORMATS[c['fmt']][0], FORMATS[c['fmt']][1]
    mnames = {'one3d': ['UNKNOWN'], 'temperature': ['SURFTEMP', 'AIRTEMP'], 'height_pressure': ['HGHT', 'PRES']}[kind]
    nt = len(f.dimensions['TSTEP'])
    nz = len(f.dimensions['LAY'])
    vs = []
    for mn, k in zip(mnames, names):
        arr = np.asarray(f.variables[k][:])
        vs.append('%s~%s' % (mn, camx.hexwords(np.ascontiguousarray(arr.astype('>f4')).view('>u4').ravel().tolist()) or '-'))
    out = dict(nt=float(nt), nz=float(nz), vars=';'.join(vs),
               shapes=[list(np.shape(f.variables[k])) for k in names])
    if 'TFLAG' in f.variables:
        tf = np.asarray(f.variables['TFLAG'][:, 0, :])
        out['tflag'] = lib.show_list(['%d:%d' % (int(a), int(b)) for a, b in tf])
    elif hasattr(f, 'timerange'):
        # the record readers present their time flags through timerange(): (YYJJJ, HHMM) as stored
        out['timerange'] = [[int(d), float(t)] for d, t in f.timerange()]
    return out


def build_file(c, dtype='f'):
    """a PseudoNetCDFFile as the writers expect it"""
    import PseudoNetCDF as pnc
    kind, names = FORMATS[c['fmt']][0], FORMATS[c['fmt']][1]
    nt, nz, ny, nx = len(c['flags']), c['nz'], c['ny'], c['nx']
    f = pnc.PseudoNetCDFFile()
    f.createDimension('TSTEP', nt).setunlimited(True)
    f.createDimension('LAY', nz)
    f.createDimension('ROW', ny)
    f.createDimension('COL', nx)
    f.createDimension('VAR', len(names))
    f.createDimension('DATE-TIME', 2)
    tf = f.createVariable('TFLAG', 'i', ('TSTEP', 'VAR', 'DATE-TIME'))
    for t, (d, hhmm) in enumerate(c['flags']):
        yyyy = (2000 if d // 1000 < 70 else 1900) * 1000
        tf[t, :, 0] = d + yyyy
        tf[t, :, 1] = hhmm * 100
    bits = np.array(c['data'], dtype='>u4').view('>f4')          # (nt, per, cells)
    if kind == 'one3d':
        v = f.createVariable(names[0], dtype, ('TSTEP', 'LAY', 'ROW', 'COL'))
        v[:] = bits.reshape(nt, nz, ny, nx)
    elif kind == 'temperature':
        v = f.createVariable('SURFTEMP', dtype, ('TSTEP', 'ROW', 'COL'))
        v[:] = bits[:, 0].reshape(nt, ny, nx)
        v = f.createVariable('AIRTEMP', dtype, ('TSTEP', 'LAY', 'ROW', 'COL'))
        v[:] = bits[:, 1:].reshape(nt, nz, ny, nx)
    else:
        b = bits.reshape(nt, nz, 2, ny, nx)
        v = f.createVariable('HGHT', dtype, ('TSTEP', 'LAY', 'ROW', 'COL'))
        v[:] = b[:, :, 0]
        v = f.createVariable('PRES', dtype, ('TSTEP', 'LAY', 'ROW', 'COL'))
        v[:] = b[:, :, 1]
    return f


def write_with_library(c, dtype='f'):
    from PseudoNetCDF.pncgen import pncgen
    f = build_file(c, dtype)
    path = os.path.join(camx.tmpdir(), 'sw_%d_%d.bin' % (os.getpid(), np.random.randint(1 << 30)))
    try:
        with lib.pnc_warnings():
            pncgen(f, path, format=FORMATS[c['fmt']][4], verbose=0)
        return open(path, 'rb').read()
    finally:
        if os.path.exists(path):
            os.remove(path)


# ---- wind -------------------------------------------------------------------------------------------------

def gen_wind(rng):
    while True:
        c = gen(rng, 'one3d', mint=1)       # a wind file may hold a single time step (its step ends with a closing record)
        if c['nx'] * c['ny'] >= 4:       # records of 4, 8 or 12 bytes are the closing / header records
            break
    n = c['nx'] * c['ny']
    c['fmt'] = 'wind'
    if rng.random() < 0.2:               # many steps on a small grid (the step count comes from the file size)
        d0, h0 = c['flags'][0]
        c['flags'] = [[d0 + (h0 // 100 + t) // 24, ((h0 // 100 + t) % 24) * 100] for t in range(rng.randint(5, 9))]
    c['data'] = [[[camx.rand_f32_bits(rng) for _ in range(n)] for _ in range(2 * c['nz'])] for _ in c['flags']]
    c['stag'] = rng.choice([None, 0, 1])            # None: old files with a two-word time header
    return c


def wind_encode(c):
    n = c['nx'] * c['ny']
    out = b''
    for (d, hhmm), slabs in zip(c['flags'], c['data']):
        if c['stag'] is None:
            out += struct.pack('>ifii', 8, float(hhmm), d, 8)
        else:
            out += struct.pack('>ifiii', 12, float(hhmm), d, c['stag'], 12)
        for sl in slabs:
            out += struct.pack('>i', 4 * n) + struct.pack('>%dI' % n, *sl) + struct.pack('>i', 4 * n)
        out += struct.pack('>ifi', 4, 0.0, 4)
    return out


def wind_line(c):
    return 'bin wind-enc steps=' + '|'.join(
        '%08x:%08x:%s:%s' % (f32bits(float(hhmm)), d, '_' if c['stag'] is None else '%08x' % c['stag'],
                             ','.join(camx.hexwords(sl) for sl in slabs))
        for (d, hhmm), slabs in zip(c['flags'], c['data']))


def wind_open(c, path, which):
    cls = _cls('wind.Memmap.wind' if which == 'memmap' else 'wind.Read.wind')
    return cls(path, c['ny'], c['nx'])


def wind_view(f, c):
    nt, nz = len(f.dimensions['TSTEP']), len(f.dimensions['LAY'])
    out = dict(nt=float(nt), nz=float(nz), vars={})
    for k in ('U', 'V'):
        arr = np.ascontiguousarray(np.asarray(f.variables[k][:]).astype('>f4')).view('>u4')
        out['vars'][k] = arr.reshape(-1).tolist()
        out.setdefault('shapes', []).append(list(np.shape(f.variables[k])))
    if 'TFLAG' in f.variables:
        tf = np.asarray(f.variables['TFLAG'][:, 0, :])
        out['tflag'] = [[int(a), int(b)] for a, b in tf]
    elif hasattr(f, 'timerange'):
        out['timerange'] = [[int(d), float(t)] for d, t in f.timerange()]
    return out


def wind_model_diff(c, hexbytes, view):
    """the Memmap reader's view against the Lean reader model applied to the same bytes (None = equal)"""
    out = lib.run_model(['bin wind-read %d %s' % (c['nx'] * c['ny'], hexbytes or '-')])[0]
    if 'err' in view:
        return None if out.startswith('err') else 'Memmap reader raised %s, the Lean reader model reads the file' % view['err']
    if not out.startswith('ok '):
        return 'Lean reader model: %s, the Memmap reader read the file' % out[:40]
    steps = [] if out[3:] == '-' else out[3:].split('|')
    U, V, flags = [], [], []
    nz = None
    for st in steps:
        t, d, g, slabs = st.split(':')
        rows = slabs.split(',') if slabs else []
        nz = len(rows) // 2
        for i, r in enumerate(rows):
            ws = [int(r[k:k + 8], 16) for k in range(0, len(r), 8)] if r != '-' else []
            (U if i % 2 == 0 else V).extend(ws)
        flags.append((int(d, 16), int(t, 16)))
    if float(len(steps)) != view['nt'] or (nz is not None and float(nz) != view['nz']):
        return 'steps/layers model=%d,%s reader=%s,%s' % (len(steps), nz, view['nt'], view['nz'])
    if U != view['vars']['U'] or V != view['vars']['V']:
        return 'U/V data of the Memmap reader differ from the Lean reader model'
    return None


def wind_rec_model_diff(c, hexbytes, view):
    """the record reader's view against its Lean model (WindRec.read) applied to the same bytes (None = equal)"""
    out = lib.run_model(['bin wind-rd %d %s' % (c['nx'] * c['ny'], hexbytes or '-')])[0]
    if 'err' in view:
        return None if out.startswith('err') else 'record reader raised %s, its Lean model reads the file' % view['err']
    if not out.startswith('ok '):
        return 'Lean model of the record reader: %s, the reader read the file' % out[:40]
    _, kv = lib.parse_kv('x ' + out[3:])
    if float(kv['nt']) != view['nt'] or float(kv['nz']) != view['nz']:
        return 'record reader steps/layers model=%s,%s reader=%s,%s' % (kv['nt'], kv['nz'], view['nt'], view['nz'])
    if kv['u'] != (camx.hexwords(view['vars']['U']) or '-') or kv['v'] != (camx.hexwords(view['vars']['V']) or '-'):
        return 'U/V data of the record reader differ from its Lean model'
    want = ','.join('%d:%d' % (int(d), int(t)) for d, t in view.get('timerange', [])) or '-'
    if 'timerange' in view and kv['times'] != want:
        return 'timerange() of the record reader %s, its Lean model %s' % (want, kv['times'])
    return None


def wind_build(c, dtype='f'):
    import PseudoNetCDF as pnc
    nt, nz, ny, nx = len(c['flags']), c['nz'], c['ny'], c['nx']
    f = pnc.PseudoNetCDFFile()
    f.createDimension('TSTEP', nt).setunlimited(True)
    f.createDimension('LAY', nz)
    f.createDimension('ROW', ny)
    f.createDimension('COL', nx)
    f.createDimension('VAR', 2)
    f.createDimension('DATE-TIME', 2)
    # the stagger flag as users set it: a python int, a numpy scalar, a big-endian array; NaN = file without a flag
    st = c['stag']
    f.LSTAGGER = float('nan') if st is None else [st, np.int32(st), np.array(st, dtype='>i')][(st + nt + nz) % 3]
    tf = f.createVariable('TFLAG', 'i', ('TSTEP', 'VAR', 'DATE-TIME'))
    for t, (d, hhmm) in enumerate(c['flags']):
        tf[t, :, 0] = d + (2000 if d // 1000 < 70 else 1900) * 1000
        tf[t, :, 1] = hhmm * 100
    bits = np.array(c['data'], dtype='>u4').view('>f4').reshape(nt, nz, 2, ny, nx)
    for vi, k in enumerate(('U', 'V')):
        v = f.createVariable(k, dtype, ('TSTEP', 'LAY', 'ROW', 'COL'))
        v[:] = bits[:, :, vi]
    return f


# ---- lateral boundary ---------------------------------------------------------------------------------------

def gen_bnd(rng, under=None):
    u = camx.gen_uamiv(rng)
    while under and len(u['species']) < 2:
        u = camx.gen_uamiv(rng)
    u['name'] = 'BOUNDARY'
    u['nx'], u['ny'] = max(u['nx'], 3), max(u['ny'], 3)       # the edge definitions need interior cells
    if under or (under is None and rng.random() < 0.4):
        # species names with underscores, one the prefix of another (variables are named <EDGE>_<SPECIES>)
        fam = rng.choice([['PM', 'PM_FINE', 'PM_10'], ['NO_3', 'NO', 'NO_3_X'], ['A_B', 'A', 'B']])
        u['species'] = fam[:len(u['species'])]
    if rng.random() < 0.35:
        camx.end_of_day(u)          # steps that end at midnight stamped (day that ends, 24 h)
    nt, nspec, nz = len(u['tflag']), len(u['species']), u['nz']
    u['bdata'] = [[[[camx.rand_f32_bits(rng) for _ in range((u['ny'] if e < 2 else u['nx']) * nz)] for e in range(4)]
                   for _ in range(nspec)] for _ in range(nt)]
    del u['data']
    return u


def _chars(s, n):
    return b''.join(ch.encode() + b'   ' for ch in s.ljust(n))


def bnd_records(c):
    """records (payload bytes) of a boundary file written from the format description"""
    yy = lambda d: d % 100000
    nspec = len(c['species'])
    b0, e1 = c['tflag'][0], c['etflag'][-1]
    recs = [_chars(c['name'], 10) + _chars(c['note'], 60) + struct.pack('>iiifif', c['itzon'], nspec, yy(b0[0]), b0[1] // 10000,
                                                                       yy(e1[0]), e1[1] // 10000),
            struct.pack('>15I', *camx.grid_words(c)), struct.pack('>4i', 1, 1, c['nx'], c['ny']),
            b''.join(_chars(s, 10) for s in c['species'])]
    for ei, nb, icell in ((1, c['ny'], 2), (2, c['ny'], c['nx'] - 1), (3, c['nx'], 2), (4, c['nx'], c['ny'] - 1)):
        recs.append(struct.pack('>%di' % (3 + 4 * nb), *([1, ei, nb, 0, 0, 0, 0] + [icell, 0, 0, 0] * (nb - 2) + [0, 0, 0, 0])))
    for t in range(len(c['tflag'])):
        b, e = c['tflag'][t], c['etflag'][t]
        recs.append(struct.pack('>ifif', yy(b[0]), b[1] // 10000, yy(e[0]), e[1] // 10000))
        for si, s in enumerate(c['species']):
            for ei in range(4):
                d = c['bdata'][t][si][ei]
                recs.append(struct.pack('>i', 1) + _chars(s, 10) + struct.pack('>i', ei + 1) + struct.pack('>%dI' % len(d), *d))
    return recs


def bnd_encode(c):
    return b''.join(struct.pack('>i', len(r)) + r + struct.pack('>i', len(r)) for r in bnd_records(c))


def bnd_line(c):
    recs = [r.hex() for r in bnd_records(c)]
    nspec = len(c['species'])
    per = 1 + 4 * nspec
    steps = '|'.join('%s:%s' % (recs[8 + t * per], ','.join(recs[9 + t * per:8 + (t + 1) * per])) for t in range(len(c['tflag'])))
    return 'bin bnd-enc headers=%s defs=%s steps=%s' % (','.join(recs[:4]), ','.join(recs[4:8]), steps)


def bnd_view(f, c):
    out = dict(nt=len(f.dimensions['TSTEP']), nz=len(f.dimensions['LAY']), ny=len(f.dimensions['ROW']), nx=len(f.dimensions['COL']),
               vars={})
    for s in c['species']:
        for e in ('WEST', 'EAST', 'SOUTH', 'NORTH'):
            k = '%s_%s' % (e, s)
            arr = np.ascontiguousarray(np.asarray(f.variables[k][:]).astype('>f4')).view('>u4')
            out['vars'][k] = arr.reshape(out['nt'], -1).tolist()
            out.setdefault('shapes', {})[k] = list(np.shape(f.variables[k]))
    out['tflag'] = [[int(a), int(b)] for a, b in np.asarray(f.variables['TFLAG'][:, 0, :])]
    out['etflag'] = [[int(a), int(b)] for a, b in np.asarray(f.variables['ETFLAG'][:, 0, :])]
    out['raw'] = bnd_raw(f)
    return out


def bnd_raw(f):
    """the records as the reader's own maps present them, in the form of the Lean `Boundary.showFile`"""
    pay = lambda a: a.tobytes()[4:-4].hex()
    hdr = [pay(f._lateral_boundary__emiss_hdr), pay(f._lateral_boundary__grid_hdr), pay(f._lateral_boundary__cell_hdr),
           f._lateral_boundary__spc_hdr.tobytes().hex()]
    defs = [pay(f._boundary_def[k]) for k in ('WEST', 'EAST', 'SOUTH', 'NORTH')]
    mm = f.__memmap__
    steps = []
    for t in range(mm.shape[0]):
        recs = [pay(mm[t][s][e]) for s in mm.dtype.names[1:] for e in ('WEST', 'EAST', 'SOUTH', 'NORTH')]
        steps.append('%s:%s' % (pay(mm[t]['DATE']), ','.join(recs) or '-'))
    return 'headers=%s defs=%s steps=%s' % (','.join(hdr), ','.join(defs), '|'.join(steps) or '-')


def bnd_model_diff(hexbytes, view):
    """the Memmap reader's own maps against the Lean reader model applied to the same bytes (None = equal)"""
    out = lib.run_model(['bin bnd-read %s' % (hexbytes or '-')])[0]
    if 'err' in view:
        return None if out.startswith('err') else 'Memmap reader raised %s, the Lean reader model reads the file' % view['err']
    if not out.startswith('ok '):
        return 'Lean reader model: %s, the Memmap reader read the file' % out[:40]
    if out[3:] != view['raw']:
        a, b = out[3:], view['raw']
        i = next((k for k, (x, y) in enumerate(zip(a, b)) if x != y), min(len(a), len(b)))
        return 'records of the Memmap reader differ from the Lean reader model at character %d (...%s / ...%s)' % (i, a[max(0, i - 20):i + 20], b[max(0, i - 20):i + 20])
    return None
