"""CAMx slab formats (one3d / humidity / vertical_diffusivity, temperature, height_pressure): random specs, an
independent reference encoder, library readers (Memmap and Read) and writers, canonical views (C09, C13, C08)."""
import os
import struct

import numpy as np

from . import camx, lib

FORMATS = {  # name: (kind, variables in file order, Memmap module, Read module, writer format)
    'one3d': ('one3d', ['UNKNOWN'], 'one3d.Memmap.one3d', 'one3d.Read.one3d', 'camxfiles.one3d'),
    'humidity': ('one3d', ['HUM'], 'humidity.Memmap.humidity', 'humidity.Read.humidity', 'camxfiles.humidity'),
    'vertical_diffusivity': ('one3d', ['KV'], 'vertical_diffusivity.Memmap.vertical_diffusivity',
                             'vertical_diffusivity.Read.vertical_diffusivity', 'camxfiles.vertical_diffusivity'),
    'temperature': ('temperature', ['SURFTEMP', 'AIRTEMP'], 'temperature.Memmap.temperature', 'temperature.Read.temperature',
                    'camxfiles.temperature'),
    'height_pressure': ('height_pressure', ['HGHT', 'PRES'], 'height_pressure.Memmap.height_pressure',
                        'height_pressure.Read.height_pressure', 'camxfiles.height_pressure'),
}


def gen(rng, fmt=None, mint=2):
    fmt = fmt or rng.choice(sorted(FORMATS))
    kind = FORMATS[fmt][0]
    nx, ny, nz, nt = rng.randint(1, 4), rng.randint(1, 4), rng.randint(1, 3), rng.randint(mint, 4)
    yy = rng.choice([2, 19, 85, 99, 0])
    jjj = rng.choice([1, 59, 200, 365])
    h0 = rng.choice([0, 5, 12, 20, 22])
    step = rng.choice([1, 1, 1, 3])
    flags = []
    for t in range(nt):
        h = h0 + t * step
        d = yy * 1000 + jjj + h // 24          # stays within the year for the chosen values except day 365/366
        flags.append([d, (h % 24) * 100])
    per = {'one3d': nz, 'temperature': nz + 1, 'height_pressure': 2 * nz}[kind]
    data = [[[camx.rand_f32_bits(rng) for _ in range(nx * ny)] for _ in range(per)] for _ in range(nt)]
    return dict(fmt=fmt, nx=nx, ny=ny, nz=nz, flags=flags, data=data)


def f32bits(x):
    return struct.unpack('>I', struct.pack('>f', x))[0]


def encode(c):
    out = b''
    n = c['nx'] * c['ny']
    m = struct.pack('>i', 4 * (n + 2))
    for (d, hhmm), slabs in zip(c['flags'], c['data']):
        for s in slabs:
            out += m + struct.pack('>fi', float(hhmm), d) + struct.pack('>%dI' % n, *s) + m
    return out


def lean_steps(c):
    return 'cells=%d steps=%s' % (c['nx'] * c['ny'], '|'.join(
        '%08x:%08x:%s' % (f32bits(float(hhmm)), d, ','.join(camx.hexwords(s) for s in slabs))
        for (d, hhmm), slabs in zip(c['flags'], c['data'])))


def _cls(path):
    import importlib
    mod, name = path.rsplit('.', 1)
    return getattr(importlib.import_module('PseudoNetCDF.camxfiles.' + mod), name)


def open_reader(c, path, which):
    cls = _cls(FORMATS[c['fmt']][2 if which == 'memmap' else 3])
    return cls(path, c['ny'], c['nx'])


def view(f, c):
    """canonical view in the form of Slab.showView (vars in the model's order and names)"""
    kind, names = FORMATS[c['fmt']][0], FORMATS[c['fmt']][1]
    mnames = {'one3d': ['UNKNOWN'], 'temperature': ['SURFTEMP', 'AIRTEMP'], 'height_pressure': ['HGHT', 'PRES']}[kind]
    nt = len(f.dimensions['TSTEP'])
    nz = len(f.dimensions['LAY'])
    vs = []
    for mn, k in zip(mnames, names):
        arr = np.asarray(f.variables[k][:])
        vs.append('%s~%s' % (mn, camx.hexwords(np.ascontiguousarray(arr.astype('>f4')).view('>u4').ravel().tolist()) or '-'))
    out = dict(nt=float(nt), nz=float(nz), vars=';'.join(vs),
               shapes=[list(np.shape(f.variables[k])) for k in names])
    if 'TFLAG' in f.variables:
        tf = np.asarray(f.variables['TFLAG'][:, 0, :])
        out['tflag'] = lib.show_list(['%d:%d' % (int(a), int(b)) for a, b in tf])
    elif hasattr(f, 'timerange'):
        # the record readers present their time flags through timerange(): (YYJJJ, HHMM) as stored
        out['timerange'] = [[int(d), float(t)] for d, t in f.timerange()]
    return out


def build_file(c, dtype='f'):
    """a PseudoNetCDFFile as the writers expect it"""
    import PseudoNetCDF as pnc
    kind, names = FORMATS[c['fmt']][0], FORMATS[c['fmt']][1]
    nt, nz, ny, nx = len(c['flags']), c['nz'], c['ny'], c['nx']
    f = pnc.PseudoNetCDFFile()
    f.createDimension('TSTEP', nt).setunlimited(True)
    f.createDimension('LAY', nz)
    f.createDimension('ROW', ny)
    f.createDimension('COL', nx)
    f.createDimension('VAR', len(names))
    f.createDimension('DATE-TIME', 2)
    tf = f.createVariable('TFLAG', 'i', ('TSTEP', 'VAR', 'DATE-TIME'))
    for t, (d, hhmm) in enumerate(c['flags']):
        yyyy = (2000 if d // 1000 < 70 else 1900) * 1000
        tf[t, :, 0] = d + yyyy
        tf[t, :, 1] = hhmm * 100
    bits = np.array(c['data'], dtype='>u4').view('>f4')          # (nt, per, cells)
    if kind == 'one3d':
        v = f.createVariable(names[0], dtype, ('TSTEP', 'LAY', 'ROW', 'COL'))
        v[:] = bits.reshape(nt, nz, ny, nx)
    elif kind == 'temperature':
        v = f.createVariable('SURFTEMP', dtype, ('TSTEP', 'ROW', 'COL'))
        v[:] = bits[:, 0].reshape(nt, ny, nx)
        v = f.createVariable('AIRTEMP', dtype, ('TSTEP', 'LAY', 'ROW', 'COL'))
        v[:] = bits[:, 1:].reshape(nt, nz, ny, nx)
    else:
        b = bits.reshape(nt, nz, 2, ny, nx)
        v = f.createVariable('HGHT', dtype, ('TSTEP', 'LAY', 'ROW', 'COL'))
        v[:] = b[:, :, 0]
        v = f.createVariable('PRES', dtype, ('TSTEP', 'LAY', 'ROW', 'COL'))
        v[:] = b[:, :, 1]
    return f


def write_with_library(c, dtype='f'):
    from PseudoNetCDF.pncgen import pncgen
    f = build_file(c, dtype)
    path = os.path.join(camx.tmpdir(), 'sw_%d_%d.bin' % (os.getpid(), np.random.randint(1 << 30)))
    try:
        with lib.pnc_warnings():
            pncgen(f, path, format=FORMATS[c['fmt']][4], verbose=0)
        return open(path, 'rb').read()
    finally:
        if os.path.exists(path):
            os.remove(path)


# ---- wind -------------------------------------------------------------------------------------------------

def gen_wind(rng):
    while True:
        c = gen(rng, 'one3d')
        if c['nx'] * c['ny'] >= 4:       # records of 4, 8 or 12 bytes are the closing / header records
            break
    n = c['nx'] * c['ny']
    c['fmt'] = 'wind'
    c['data'] = [[[camx.rand_f32_bits(rng) for _ in range(n)] for _ in range(2 * c['nz'])] for _ in c['flags']]
    c['stag'] = rng.choice([None, 0, 1])            # None: old files with a two-word time header
    return c


def wind_encode(c):
    n = c['nx'] * c['ny']
    out = b''
    for (d, hhmm), slabs in zip(c['flags'], c['data']):
        if c['stag'] is None:
            out += struct.pack('>ifii', 8, float(hhmm), d, 8)
        else:
            out += struct.pack('>ifiii', 12, float(hhmm), d, c['stag'], 12)
        for sl in slabs:
            out += struct.pack('>i', 4 * n) + struct.pack('>%dI' % n, *sl) + struct.pack('>i', 4 * n)
        out += struct.pack('>ifi', 4, 0.0, 4)
    return out


def wind_line(c):
    return 'bin wind-enc steps=' + '|'.join(
        '%08x:%08x:%s:%s' % (f32bits(float(hhmm)), d, '_' if c['stag'] is None else '%08x' % c['stag'],
                             ','.join(camx.hexwords(sl) for sl in slabs))
        for (d, hhmm), slabs in zip(c['flags'], c['data']))


def wind_open(c, path, which):
    cls = _cls('wind.Memmap.wind' if which == 'memmap' else 'wind.Read.wind')
    return cls(path, c['ny'], c['nx'])


def wind_view(f, c):
    nt, nz = len(f.dimensions['TSTEP']), len(f.dimensions['LAY'])
    out = dict(nt=float(nt), nz=float(nz), vars={})
    for k in ('U', 'V'):
        arr = np.ascontiguousarray(np.asarray(f.variables[k][:]).astype('>f4')).view('>u4')
        out['vars'][k] = arr.reshape(-1).tolist()
        out.setdefault('shapes', []).append(list(np.shape(f.variables[k])))
    if 'TFLAG' in f.variables:
        tf = np.asarray(f.variables['TFLAG'][:, 0, :])
        out['tflag'] = [[int(a), int(b)] for a, b in tf]
    elif hasattr(f, 'timerange'):
        out['timerange'] = [[int(d), float(t)] for d, t in f.timerange()]
    return out


def wind_build(c, dtype='f'):
    import PseudoNetCDF as pnc
    nt, nz, ny, nx = len(c['flags']), c['nz'], c['ny'], c['nx']
    f = pnc.PseudoNetCDFFile()
    f.createDimension('TSTEP', nt).setunlimited(True)
    f.createDimension('LAY', nz)
    f.createDimension('ROW', ny)
    f.createDimension('COL', nx)
    f.createDimension('VAR', 2)
    f.createDimension('DATE-TIME', 2)
    f.LSTAGGER = np.array(c['stag'] if c['stag'] is not None else 0, dtype='>i')
    tf = f.createVariable('TFLAG', 'i', ('TSTEP', 'VAR', 'DATE-TIME'))
    for t, (d, hhmm) in enumerate(c['flags']):
        tf[t, :, 0] = d + (2000 if d // 1000 < 70 else 1900) * 1000
        tf[t, :, 1] = hhmm * 100
    bits = np.array(c['data'], dtype='>u4').view('>f4').reshape(nt, nz, 2, ny, nx)
    for vi, k in enumerate(('U', 'V')):
        v = f.createVariable(k, dtype, ('TSTEP', 'LAY', 'ROW', 'COL'))
        v[:] = bits[:, :, vi]
    return f
