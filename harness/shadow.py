"""usage: PYTHONPATH=<scratch worktree>/src python harness/shadow.py C06 [seeds] — development aid: run a property's quick cases against the tree that shadows the installed package, without building, auditing or writing evidence / replays"""
import sys, random, traceback
sys.path.insert(0, '/verif')
import PseudoNetCDF
from harness import main, lib
pid = sys.argv[1]; seeds = [int(x) for x in sys.argv[2:]] or [0]
prop = lib.load_prop(pid)
listed = {f['key'] for f in lib.load_findings()['findings'] if f['property'] == pid}
tot = bad = 0
for sd in seeds:
    cases = main.load_corpus(pid) + list(prop.gen(random.Random(sd), 'quick'))
    res = []
    for c in cases:
        try:
            r = prop.impl(c); o = prop.oracle(c, r)
        except Exception as e:
            print('CRASH', type(e).__name__, str(e)[:200]); bad += 1; res.append(None); continue
        res.append((r, o))
    ok = [(c, ro) for c, ro in zip(cases, res) if ro]
    outs = lib.run_model([prop.to_line(c, r) for c, (r, o) in ok])
    for (c, (r, o)), out in zip(ok, outs):
        tot += 1
        try:
            d = prop.agree(c, out, r)
        except Exception as e:
            d = 'agree raised %s' % e
        key = None
        if o:
            key = main._classify(prop, c, o, out, r, d)
        if d or (o and key not in listed):
            bad += 1
            if bad < 12: print(pid, 'seed', sd, 'DIFF' if d else 'ORACLE', (d or o)[:220])
print(pid, PseudoNetCDF.__file__, 'cases', tot, 'bad', bad)
