"""usage: PYTHONPATH=<scratch worktree>/src python harness/covshadow.py C06 [seeds] — development aid, not a registered check:
run the property's quick cases (corpus + generated) against the tree that shadows the installed package under `coverage`
and list, for the files the property is anchored in, the functions that were entered but have statements no case reached
(and anchored functions never entered). This is where a change to the code can hide from the correspondence."""
import ast, json, os, runpy, sys
import coverage
sys.path.insert(0, '/verif')
pid = sys.argv[1]
import PseudoNetCDF
pkg = os.path.dirname(PseudoNetCDF.__file__)
cov = coverage.Coverage(data_file='/tmp/cov/%s.cov' % pid, source=[pkg], branch=False)
cov.start()
try:
    sys.argv = ['shadow.py'] + sys.argv[1:]
    runpy.run_path('/verif/harness/shadow.py', run_name='__main__')
except SystemExit:
    pass
cov.stop(); cov.save()
props = {json.loads(l)['id']: json.loads(l) for l in open('/verif/properties.jsonl')}
anchors = props[pid]['anchors']
files = [os.path.join(os.path.dirname(pkg), f[len('src/'):]) if f.startswith('src/') else os.path.join(pkg, f) for f in anchors['files']]
extra = os.environ.get('COV_EXTRA', '')
files += [os.path.join(pkg, x) for x in extra.split(',') if x]
words = ' '.join(m.get('where', '') + ' ' + m.get('name', '') for m in anchors.get('mechanism', []) + anchors.get('state', []))
for path in files:
    if not os.path.exists(path):
        print('??', path); continue
    _, stmts, _, missing, _ = cov.analysis2(path)
    stmts, missing = set(stmts), set(missing)
    tree = ast.parse(open(path).read())
    rows = []
    for node in ast.walk(tree):
        if isinstance(node, (ast.FunctionDef, ast.AsyncFunctionDef)):
            inner = set()
            for ch in ast.walk(node):
                if ch is not node and isinstance(ch, (ast.FunctionDef, ast.AsyncFunctionDef, ast.ClassDef)):
                    inner |= set(range(ch.lineno, ch.end_lineno + 1))
            body = set(range(node.body[0].lineno, node.end_lineno + 1)) - inner
            st = stmts & body
            ms = missing & body
            if not st:
                continue
            entered = len(ms) < len(st)
            named = node.name in words
            if (entered and ms) or (named and not entered):
                rows.append((node.lineno, node.name, len(st), len(ms), sorted(ms), entered))
    print('== %s: %d statements, %d not reached' % (os.path.relpath(path, pkg), len(stmts), len(missing)))
    for ln, name, ns, nm, ms, entered in sorted(rows):
        rng = []
        for x in ms:
            if rng and x == rng[-1][1] + 1:
                rng[-1][1] = x
            else:
                rng.append([x, x])
        txt = ','.join('%d' % a if a == b else '%d-%d' % (a, b) for a, b in rng)
        print('  %-32s L%-5d %3d/%-3d %s %s' % (name, ln, nm, ns, '' if entered else 'NEVER-ENTERED', txt[:150]))
