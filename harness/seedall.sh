#!/bin/sh
# usage: harness/seedall.sh [tier]  — run every stored seeded change against its property's check; one line per change
cd "$(dirname "$0")/.."
tier="${1:-quick}"
for d in seeded/*/; do
  n=$(basename $d); id=${n%%-*}
  if ! git -C /repo apply --check $PWD/$d/patch.diff 2>/dev/null; then echo "$n :: DOES-NOT-APPLY"; continue; fi
  out=$(harness/seedtest.sh $PWD/$d/patch.diff $id $tier 2>&1)
  v=$(echo "$out" | grep -c "^VIOLATION")
  echo "$n :: violations=$v :: $(echo "$out" | tail -1 | cut -c1-120)"
done
