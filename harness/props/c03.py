"""C03 — applyAlongDimensions (core/_files.py) against lean/PncModel/File.lean applyFile"""
from fractions import Fraction

import numpy as np

from .. import lib, pfile

ID = 'C03'
LEAN_MODULE = 'PncProofs.C03Order'      # imports PncProofs.C03
LEAN_FILE = 'PncProofs/C03.lean'
MORE_LEAN_FILES = ['PncProofs/C03Order.lean']
NAMESPACE = 'Props.C03'
LEAN_CONE = ['PncModel.Arr', 'PncModel.NsStep', 'PncModel.Generated.NamespaceOrder', 'PncModel.File', 'PncProofs.ArrLemmas', 'PncProofs.FiberLemmas', 'PncProofs.C03', 'PncProofs.C03Order']
LEMMA_FILES = ['PncProofs/FiberLemmas.lean']
REQUIRED_THEOREMS = ['apply_fiberwise', 'fn_uniform', 'apply_shape', 'reducers_exclude_masked', 'untouched',
                     'fnOf_perm', 'apply_kwperm', 'foldC_swap', 'sum_apply_eq', 'min_apply_eq', 'max_apply_eq', 'ext_get', 'reduce_get',
                     'reduce_commute_of', 'reduce_commute']
RULE = ('[dict form] whole-fibre callables also in the documented dictionary form func1d + keyword arguments; random files (as C02; float64 and int32 variables, masked and unmasked, coordinate variables) x 1-3 '
        'dimension functions in random keyword order: named reducers mean/sum/min/max/var (array methods, '
        'keepdims) and callables np.diff, x[::2], np.cumsum, x[::-1], np.convolve(x,[1,1],"valid") (the last '
        'only on unmasked data); std and float32 variables run through the oracle only (tolerance); the string front ends '
        'reduce_dim (mean/sum/min/max/std/var/median/ptp, masked and unmasked) and convolve_dim (valid/same/full, symmetric and '
        'asymmetric dyadic weights) against numpy / numpy.ma (and the Lean model for the modelled reducers); IOAPI files: '
        'applyAlongDimensions along LAY/TSTEP/ROW with reducers and callables incl. x[::2] and x[[0,-1]] (C10 model + level edges); '
        'non-trivial = some variable has a named dimension and another does not, or two dimensions are named; direct family (numpy on the arrays the source holds, no model): IOAPI files incl. length-1 dimensions with mean/sum/min/max/std/var and selections, reduce_dim on netCDF files on disk with whole fibres missing, applyAlongDimensions after float variables were derived from integer ones (eval, assignment)')
ASSUMPTIONS = ['numpy / numpy.ma reductions and apply_along_axis behave as the per-fiber model says',
               'results are stored in the declared type of the variable (integer variables: C cast of the float result)',
               'float64 results are compared with the exact rational within 1e-12 relative']
MIN_NONTRIVIAL = {'quick': 80, 'thorough': 800}

REDUCERS = ['mean', 'sum', 'min', 'max', 'var']
CALLABLES = ['diff', 'sub2', 'cumsum', 'rev', 'conv2']
PYFN = {'diff': np.diff, 'sub2': (lambda x: x[::2]), 'cumsum': np.cumsum, 'rev': (lambda x: x[::-1]),
        'conv2': (lambda x: np.convolve(x, [1, 1], mode='valid')),
        # what dict(func1d=_thin, step=2) selects (the dictionary form with a keyword that has a default)
        'thin2dict': (lambda x: x[::2])}


def _thin(a, step=1):
    return a[::step]


def _case(rng):
    spec = pfile.gen_file(rng, maxlen=4, minlen=2 if rng.random() < 0.7 else 1)
    for v in spec['vars']:
        if v['dtype'] == 'f':
            v['dtype'] = 'd'
    names = [d[0] for d in spec['dims']]
    k = rng.randint(1, min(3, len(names)))
    chosen = rng.sample(names, k)
    anymasked = any(v['masked'] for v in spec['vars'])
    fns = []
    for n in chosen:
        if rng.random() < 0.65:
            fn = rng.choice(REDUCERS)
        else:
            dl = {d[0]: d[1] for d in spec['dims']}
            # np.diff / 'valid' convolution of a length-1 axis give an empty / a swapped-operand result:
            # outside the functions' sensible domain, not generated
            fn = rng.choice([c for c in CALLABLES if not (anymasked and c == 'conv2')
                             and not (dl[n] < 2 and c in ('diff', 'conv2'))])
        fns.append([n, fn])
    malformed = rng.random() < 0.05
    if malformed:
        fns.append(['nosuchdim', 'mean'])
    return dict(spec=spec, fns=fns)


LEGACY_FUNCS = ['mean', 'sum', 'min', 'max', 'std', 'var', 'median', 'ptp']


def _legacy_reduce_case(rng):
    """the string front end reduce_dim(f, 'dim,func')"""
    spec = pfile.gen_file(rng, maxlen=4, minlen=2)
    for v in spec['vars']:
        if v['dtype'] == 'f':
            v['dtype'] = 'd'
    n = rng.choice([d[0] for d in spec['dims']])
    fn = rng.choice(LEGACY_FUNCS)
    if rng.random() < 0.35:
        # data variables whose names look like cell bounds without being among the coordinate keys the function treats
        # specially (CF spells them time_bnds / lat_bnds; a lifetime may carry bounds too): reduced like any variable
        pool = ['time_bnds', 'lat_bnds', 'lon_bnds', 'lifetime_bounds', 'x_bnds']
        dimnames = {d[0] for d in spec['dims']}
        for v in spec['vars']:
            if v['name'] not in dimnames and v['dims'] and pool and rng.random() < 0.6:
                v['name'] = pool.pop(rng.randrange(len(pool)))
    if rng.random() < 0.4 or fn in ('median', 'ptp'):
        # a fibre along the reduced dimension that is missing throughout (a site that never reports)
        dl = {d[0]: d[1] for d in spec['dims']}
        cand = [v for v in spec['vars'] if n in v['dims'] and v['name'] not in dl]
        if cand and not any(v['masked'] for v in cand):
            cand[0]['masked'] = True
            cand[0]['attrs'] = list(cand[0]['attrs']) + ['fill_value']
        for v in spec['vars']:
            if v['masked'] and n in v['dims'] and rng.random() < 0.8:
                shape = [dl[k] for k in v['dims']]
                idx = np.arange(int(np.prod(shape))).reshape(shape)
                sel = [slice(None) if k == n else rng.randrange(dl[k]) for k in v['dims']]
                for i in np.atleast_1d(idx[tuple(sel)]).ravel().tolist():
                    v['data'][i] = None
    case = dict(kind='reduce', spec=spec, fns=[[n, fn]], text='%s,%s' % (n, fn))
    others = [d[0] for d in spec['dims'] if d[0] != n]
    if others and rng.random() < 0.4:
        # a second call on the result, along another dimension: what lacks that dimension (the float means of integer
        # variables among it) goes through unchanged
        case['then'] = '%s,%s' % (rng.choice(others), rng.choice(['sum', 'max', 'mean']))
    return case


def _legacy_convolve_case(rng):
    """convolve_dim(f, 'dim,mode,w1,w2,...') with symmetric and asymmetric dyadic weights; masked variables: a sum that a
    missing cell would enter is missing"""
    spec = pfile.gen_file(rng, maxlen=5, minlen=3, masked_prob=rng.choice([0.0, 0.5]))
    for v in spec['vars']:
        if v['dtype'] == 'f':
            v['dtype'] = 'd'
    n = rng.choice([d[0] for d in spec['dims'] if d[1] >= 3] or [spec['dims'][0][0]])
    w = rng.choice([[1, -1], [0.5, 0.5], [0.5, 0.25, 0.25], [1, 0, -1], [2, 1], [0.25, 0.75]])
    mode = rng.choice(['valid', 'same', 'full'])
    return dict(kind='convolve', spec=spec, fns=[], dim=n, mode=mode, w=w, text='%s,%s,%s' % (n, mode, ','.join(str(x) for x in w)))


def _ioapi_case(rng):
    from . import c10
    d = rng.choice(['LAY', 'LAY', 'TSTEP', 'ROW'])
    fn = rng.choice(['mean', 'sum', 'min', 'max', 'first2', 'rev', 'every2', 'ends'])
    src = c10._src(rng)
    src['nl'] = rng.randint(2, 3)
    src['kind'] = rng.choice(['arrays', 'arrays', 'disk'])
    if d == 'LAY' and src['kind'] == 'arrays' and rng.random() < 0.4:
        # the same object was reduced along LAY before and its level edges were assigned anew since (same number of layers)
        nl = src['nl']
        asc = src['lv'][0] < src['lv'][-1]
        inner = sorted(rng.sample(range(1, 64), nl - 1))
        lv = [0] + inner + [64]
        return dict(kind='ioapi', fns=[], c10=dict(src=src, recipes=[], ops=[
            ['setvg', ['%d/64' % x for x in (lv if asc else lv[::-1])]], ['apply', d, fn]]))
    if d != 'TSTEP' and rng.random() < 0.35:
        # time steps thinned unevenly first: the time flags do not have the dimension and stay as they are
        src['nt'] = rng.choice([4, 6])
        keep = sorted(rng.sample(range(src['nt']), rng.randint(2, 3)))
        return dict(kind='ioapi', fns=[], c10=dict(src=src, recipes=[], ops=[['slice', [['TSTEP', ['l', keep]]]], ['apply', d, fn]]))
    return dict(kind='ioapi', fns=[], c10=dict(src=src, recipes=[], ops=[['apply', d, fn]]))


NP_REDUCERS = ['mean', 'sum', 'min', 'max', 'std', 'var']
FIBREFN = {'anom': (lambda x: x - x.mean()), 'top2': (lambda x: np.sort(x)[-2:]), 'norm': (lambda x: x / (np.abs(x).sum() + 1.)),
           'same3': (lambda x: np.convolve(x, [0.25, 0.5, 0.25], mode='same'))}


def _scaled(x, fn=None, scale=1.0):
    return FIBREFN[fn](x) * scale


def _direct_case(rng):
    """files the operation model does not build, judged directly against numpy on the arrays the source file holds:
    (ioapi) IOAPI files (in memory, on disk, boundary, with extra variables) incl. length-1 dimensions and reducers that are
    not the identity on one element; (disk) the string front end reduce_dim on a netCDF file on disk whose variables have
    missing values, whole fibres included; (derived) a file holding float variables derived from integer ones (eval, direct
    assignment) before applyAlongDimensions"""
    k = rng.choice(['ioapi', 'ioapi', 'disk', 'derived', 'callable', 'prefixdim', 'repeatdim'])
    if k == 'repeatdim':
        # a variable that carries the named dimension on two axes (a covariance or transition matrix)
        nx, nt = rng.randint(2, 4), rng.randint(2, 3)
        shapes = [['x', 'x'], ['x', 't', 'x'], ['t', 'x'], ['t'], ['t', 't']]
        dl = dict(x=nx, t=nt)
        vs = [pfile._mkvar(rng, 'V%d' % i, vd, dl, i, False) for i, vd in enumerate(shapes)]
        for v in vs:
            v['dtype'] = 'd'
        spec = dict(dims=[['t', nt, False], ['x', nx, False]], vars=vs, attrs=[])
        return dict(kind='direct', sub='derived', fns=[], spec=spec, dim=rng.choice(['x', 'x', 't']),
                    fn=rng.choice(['rev', 'cumsum', 'sum', 'max', 'min', 'mean']), how='eval')
    if k in ('callable', 'prefixdim'):
        # callable: 1-D functions that use the whole fibre (anomaly, normalisation, the two largest values, a same-length
        # running mean); prefixdim: the string front end on a file where another dimension's name begins with the named one
        spec = pfile.gen_file(rng, maxlen=4, minlen=2, masked_prob=0.0 if k == 'callable' else 0.3, scalar_prob=0.0)
        for v in spec['vars']:
            v['dtype'] = 'd'
        names = [d[0] for d in spec['dims']]
        if k == 'prefixdim':
            ren = dict(zip(names, ['lev', 'lev_edge', 'n', 'nv', 'west_east'][:len(names)]))
            for d in spec['dims']:
                d[0] = ren[d[0]]
            for v in spec['vars']:
                v['dims'] = [ren[n] for n in v['dims']]
                v['name'] = ren.get(v['name'], v['name'])
            names = [d[0] for d in spec['dims']]
            return dict(kind='direct', sub=k, fns=[], spec=spec, dim=rng.choice([n for n in names if n in ('lev', 'n')]),
                        fn=rng.choice(NP_REDUCERS), how='eval')
        # dictform: the documented dictionary form of a dimension's function, func1d plus keyword arguments (here a scale)
        return dict(kind='direct', sub=k, fns=[], spec=spec, dim=rng.choice(names), fn=rng.choice(['anom', 'top2', 'norm', 'same3']), how='eval',
                    dictform=rng.choice([None, None, 2.0, -0.5]))
    if k == 'ioapi':
        from . import c10
        src = c10._src(rng)
        if rng.random() < 0.5:
            src[rng.choice(['nl', 'nt', 'nr'])] = 1
        if src['kind'].startswith('griddesc'):
            src['kind'] = 'arrays'
        d = rng.choice(['LAY', 'TSTEP', 'TSTEP', 'ROW', 'COL'])
        fn = rng.choice(NP_REDUCERS + ['first2', 'rev', 'rev', 'cumsum'])
        if d == 'TSTEP' and rng.random() < 0.6:
            fn = rng.choice(['rev', 'cumsum'])      # functions that keep the number of steps
            src['nt'] = max(src['nt'], 2)
        if d == 'LAY' and rng.random() < 0.4:
            fn = 'thin2dict'                        # the dictionary form along LAY: the level edges follow the same keywords
            src['nl'] = max(src['nl'], 3)
        return dict(kind='direct', sub=k, fns=[], src=src, dim=d, fn=fn)
    spec = pfile.gen_file(rng, maxlen=4, minlen=1 if rng.random() < 0.3 else 2, masked_prob=0.6 if k == 'disk' else 0.3)
    for v in spec['vars']:
        if v['dtype'] == 'f':
            v['dtype'] = 'd'
    if k == 'derived':
        for v in spec['vars'][:2]:
            v['dtype'] = 'i'
    names = [d[0] for d in spec['dims']]
    dim = rng.choice(names)
    if k == 'disk':
        dl = {d[0]: d[1] for d in spec['dims']}
        for v in spec['vars']:
            # a whole fibre without a valid element
            if v['masked'] and dim in v['dims'] and rng.random() < 0.6:
                shape = [dl[n] for n in v['dims']]
                idx = np.arange(int(np.prod(shape))).reshape(shape)
                sel = [slice(None) if n == dim else rng.randrange(dl[n]) for n in v['dims']]
                for i in np.atleast_1d(idx[tuple(sel)]).ravel().tolist():
                    v['data'][i] = None
    return dict(kind='direct', sub=k, fns=[], spec=spec, dim=dim, fn=rng.choice(NP_REDUCERS if k == 'disk' else NP_REDUCERS + ['diff', 'rev']),
                how=rng.choice(['eval', 'assign']))


def _twoorder_case(rng):
    """two different dimensions reduced with one commuting reducer (sum, min, max; masked cells, whole masked fibres): in one
    call (keywords in either order) and in two calls in both orders - the four results are one and the same
    (Lean: apply_kwperm, reduce_commute)"""
    spec = pfile.gen_file(rng, maxlen=4, minlen=2, masked_prob=0.7)
    for v in spec['vars']:
        if v['dtype'] in ('f', 'i'):
            v['dtype'] = 'd'
    dl = {d[0]: d[1] for d in spec['dims']}
    for v in spec['vars']:
        # often a whole fibre, or everything but one cell, without a valid element
        if v['masked'] and v['dims'] and rng.random() < 0.5:
            shape = [dl[n] for n in v['dims']]
            idx = np.arange(int(np.prod(shape))).reshape(shape)
            ax = rng.randrange(len(shape))
            sel = [slice(None) if i == ax else rng.randrange(shape[i]) for i in range(len(shape))]
            for i in np.atleast_1d(idx[tuple(sel)]).ravel().tolist():
                v['data'][i] = None
    names = [d[0] for d in spec['dims']]
    if len(names) < 2:
        return _direct_case(rng)
    d1, d2 = rng.sample(names, 2)
    return dict(kind='direct', sub='twoorder', fns=[], spec=spec, dim=d1, dim2=d2, fn=rng.choice(['sum', 'min', 'max']), how='eval')


def _cli_case(rng):
    """the command-line / PNC front end of reduce_dim with a --coordkeys list of the user's own: a variable that is no
    coordinate by that list (time_bounds when only `time` is named) is reduced like every other variable"""
    return dict(kind='direct', sub='cli', fns=[], nt=rng.randint(2, 5), nx=rng.randint(1, 3), fn=rng.choice(['mean', 'sum', 'min', 'max']),
                dim='time', coordkeys=rng.choice(['time', 'time', 'time x']))


def _snap(f):
    out = {}
    for k, v in f.variables.items():
        a = v[...]
        out[k] = dict(dims=list(v.dimensions), data=np.ma.getdata(a).astype('d').ravel().tolist(),
                      mask=np.ma.getmaskarray(a).ravel().tolist(), shape=list(np.shape(a)), kind=np.asarray(np.ma.getdata(a)).dtype.kind)
    return out


def _shadow(f, case):
    """variable attributes that have the name of the reducer (and of other array methods): `max = 5.` is an attribute like
    `units`; the reducer named 'max' is still the array method"""
    if case.get('shadowattr'):
        for v in f.variables.values():
            for nm in set([case['fn'], 'max', 'mean']):
                if nm in NP_REDUCERS:
                    setattr(v, nm, 5.0)


def _impl_direct(case):
    import os
    path = None
    try:
        with lib.pnc_warnings(), np.errstate(all='ignore'):
            if case['sub'] == 'ioapi':
                from . import c10
                f, path = c10.build(case['src'])
                if case['dim'] not in f.dimensions:
                    return dict(skip=True)
                before = _snap(f)
                vg0 = np.asarray(getattr(f, 'VGLVLS', [])).astype('d').tolist()
                if case['fn'] == 'thin2dict':
                    g = f.applyAlongDimensions(**{case['dim']: dict(func1d=_thin, step=2)})
                else:
                    g = f.applyAlongDimensions(**{case['dim']: (c10.FNS.get(case['fn']) or PYFN.get(case['fn']) or case['fn'])})
                return dict(before=before, after=_snap(g), dimlen={k: len(v) for k, v in g.dimensions.items()}, vg0=vg0,
                            vg1=np.asarray(getattr(g, 'VGLVLS', [])).astype('d').tolist(), nlays=int(getattr(g, 'NLAYS', -1)))
            elif case['sub'] == 'callable':
                f = pfile.build(case['spec'])
                before = _snap(f)
                if case.get('dictform'):
                    g = f.applyAlongDimensions(**{case['dim']: dict(func1d=_scaled, fn=case['fn'], scale=case['dictform'])})
                else:
                    g = f.applyAlongDimensions(**{case['dim']: FIBREFN[case['fn']]})
            elif case['sub'] == 'cli':
                import PseudoNetCDF as pnc
                from PseudoNetCDF.pncparse import PNC
                f = pnc.PseudoNetCDFFile()
                f.createDimension('time', case['nt']).setunlimited(True)
                f.createDimension('x', case['nx'])
                f.createDimension('nv', 2)
                t = f.createVariable('time', 'd', ('time',))
                t.units = 'hours since 2000-01-01 00:00:00+0000'
                t[:] = np.arange(case['nt']) + 0.5
                tb = f.createVariable('time_bounds', 'd', ('time', 'nv'))
                tb[:] = np.array([np.arange(case['nt']), np.arange(case['nt']) + 1.]).T
                xv = f.createVariable('x', 'd', ('x',))
                xv[:] = np.arange(case['nx']) * 10.
                o = f.createVariable('O', 'd', ('time', 'x'))
                o[:] = (np.arange(case['nt'] * case['nx'], dtype='d').reshape(case['nt'], case['nx']) * 5) % 7
                before = _snap(f)
                g = PNC('--coordkeys=%s' % case['coordkeys'], '--reduce=time,%s' % case['fn'], ifiles=[f]).ifiles[0]
            elif case['sub'] == 'twoorder':
                f = pfile.build(case['spec'])
                before = _snap(f)
                d1, d2, fn = case['dim'], case['dim2'], case['fn']
                g = f.applyAlongDimensions(**{d1: fn, d2: fn})
                others = dict(swapped=_snap(f.applyAlongDimensions(**{d2: fn, d1: fn})),
                              first_then_second=_snap(f.applyAlongDimensions(**{d1: fn}).applyAlongDimensions(**{d2: fn})),
                              second_then_first=_snap(f.applyAlongDimensions(**{d2: fn}).applyAlongDimensions(**{d1: fn})))
                return dict(before=before, after=_snap(g), dimlen={k: len(v) for k, v in g.dimensions.items()}, others=others)
            elif case['sub'] in ('prefixdim', 'repeatlegacy'):
                from PseudoNetCDF.core._functions import reduce_dim
                f = pfile.build(case['spec'])
                _shadow(f, case)
                before = _snap(f)
                g = reduce_dim(f, '%s,%s' % (case['dim'], case['fn']))
            elif case['sub'] == 'disk':
                import PseudoNetCDF as pnc
                from PseudoNetCDF.core._functions import reduce_dim
                from .. import camx
                path = os.path.join(camx.tmpdir(), 'c03d_%d_%d.nc' % (os.getpid(), np.random.randint(1 << 30)))
                pfile.build(case['spec']).save(path, format=pfile.disk_format(case['spec']), verbose=0).close()
                f = pnc.pncopen(path, format='netcdf')
                before = _snap(f)
                g = reduce_dim(f, '%s,%s' % (case['dim'], case['fn']))
            else:
                f = pfile.build(case['spec'])
                ints = [v['name'] for v in case['spec']['vars'] if v['dtype'] == 'i' and v['dims']]
                for i, nm in enumerate(ints):
                    if case['how'] == 'eval':
                        f = f.eval('R%d = %s / 7.' % (i, nm), inplace=False, copyall=True)
                    else:
                        f.variables['R%d' % i] = f.variables[nm] * 0.5
                _shadow(f, case)
                before = _snap(f)
                g = f.applyAlongDimensions(**{case['dim']: (case['fn'] if case['fn'] in NP_REDUCERS else PYFN[case['fn']])})
            return dict(before=before, after=_snap(g), dimlen={k: len(v) for k, v in g.dimensions.items()})
    except lib.HarnessError:
        raise
    except Exception as e:
        return dict(err=type(e).__name__, msg=str(e)[:100])
    finally:
        if path and os.path.exists(path):
            os.remove(path)


def _along(arr, ax, fn, scale=None):
    """numpy's answer for one axis"""
    from . import c10
    with np.errstate(all='ignore'):
        if fn in NP_REDUCERS:
            return getattr(np.ma, fn)(arr, axis=ax, keepdims=True)
        if fn in FIBREFN:
            return np.apply_along_axis(FIBREFN[fn], ax, np.ma.getdata(arr)) * (scale or 1.0)
        f_ = c10.FNS.get(fn) or PYFN[fn]
        m = np.ma.getmaskarray(arr)
        if fn == 'diff':
            # a difference is missing when either neighbour is
            return np.ma.masked_array(np.diff(np.ma.getdata(arr), axis=ax), mask=np.logical_or(
                np.take(m, range(1, m.shape[ax]), axis=ax), np.take(m, range(0, m.shape[ax] - 1), axis=ax)))
        # selections (first two, reversed): the same selection of the mask
        return np.ma.masked_array(np.apply_along_axis(f_, ax, np.ma.getdata(arr)), mask=np.apply_along_axis(f_, ax, m))


def _oracle_direct(case, res):
    if res.get('skip'):
        return None
    if 'err' in res:
        if case['sub'] == 'ioapi' and case['dim'] not in ('LAY', 'TSTEP', 'ROW', 'COL'):
            return None
        return '%s %s=%s raised %s %s' % (case['sub'], case['dim'], case['fn'], res['err'], res.get('msg'))
    dim, fn = case['dim'], case['fn']
    from . import c10
    if case['sub'] == 'twoorder':
        # the order in which the two dimensions are named, in one call or in two, does not matter
        for how, other in res['others'].items():
            for k, a in res['after'].items():
                o = other.get(k)
                if o is None or (o['dims'], o['shape'], o['mask']) != (a['dims'], a['shape'], a['mask']) or any(
                        not m and not (abs(x - y) <= 1e-9 * max(1.0, abs(x))) for x, y, m in zip(a['data'], o['data'], a['mask'])):
                    return 'twoorder %s over %s and %s: variable %s differs between the one call and %s: %s / %s against %s / %s' % (
                        fn, dim, case['dim2'], k, how, a['data'][:6], a['mask'][:6], o and o['data'][:6], o and o['mask'][:6])
    if case['sub'] == 'ioapi' and dim == 'LAY' and fn == 'thin2dict' and res.get('vg0'):
        want = res['vg0'][:-1][::2] + res['vg0'][-1:]
        if len(res['vg1']) != res['nlays'] + 1 or any(abs(a - b) > 1e-6 for a, b in zip(res['vg1'], want)):
            return 'ioapi LAY=dict(func1d=thin, step=2): NLAYS=%d, VGLVLS %s, the lower edges of the kept layers and the top are %s' % (
                res['nlays'], res['vg1'], want)
    if case['sub'] == 'ioapi' and dim == 'TSTEP' and 'TFLAG' in res['before'] and 'TFLAG' in res['after'] and \
            res['after']['TFLAG']['shape'][0] == res['before']['TFLAG']['shape'][0]:
        # a function that keeps the number of steps: the time flags are still the sequence SDATE/STIME/TSTEP define
        if res['after']['TFLAG']['data'] != res['before']['TFLAG']['data']:
            return 'ioapi TSTEP=%s keeps the number of steps but TFLAG changed: %s -> %s' % (
                fn, res['before']['TFLAG']['data'][:4], res['after']['TFLAG']['data'][:4])
        src = case.get('src', {})
        if src.get('kind') == 'arrays' and not src.get('owntflag') and src.get('tstep', 0) > 0:
            # ... and that sequence is calendar arithmetic on the start date (python's datetime, not the library's)
            import datetime as _dt
            t0 = _dt.datetime.strptime('%07d %06d' % (src['sdate'], src['stime']), '%Y%j %H%M%S')
            T = src['tstep']
            step = _dt.timedelta(hours=T // 10000, minutes=T // 100 % 100, seconds=T % 100)
            nvar = res['after']['TFLAG']['shape'][1]
            want = []
            for k in range(res['after']['TFLAG']['shape'][0]):
                t = t0 + k * step
                want += [float(t.strftime('%Y%j')), float(t.strftime('%H%M%S'))] * nvar
            if res['after']['TFLAG']['data'] != want:
                return 'ioapi TSTEP=%s: TFLAG %s, the start date and the step give %s' % (fn, res['after']['TFLAG']['data'][:8], want[:8])
    for k, b in res['before'].items():
        if k == 'TFLAG' or k not in res['after']:
            continue            # IOAPI regenerates the time flags (C10); variables dropped by a wrapper are C10's concern
        a = res['after'][k]
        arr = np.ma.masked_array(np.array(b['data'], dtype='d').reshape(b['shape']), mask=np.array(b['mask'], dtype=bool).reshape(b['shape']))
        if dim in b['dims']:
            if any(b['shape'][ax] == 0 for ax, dn in enumerate(b['dims']) if dn == dim) or (
                    fn == 'diff' and b['shape'][b['dims'].index(dim)] < 2):
                continue
            want = arr
            # every axis that carries the dimension (a covariance matrix COV(x, x) has two), last axis first
            for ax in [i for i, dn in enumerate(b['dims']) if dn == dim][::-1]:
                want = _along(want, ax, fn, case.get('dictform'))
        else:
            want = arr
        if case['sub'] == 'twoorder':
            # both dimensions: every axis that carries one of them, last axis first
            want = arr
            for ax in [i for i, dn in enumerate(b['dims']) if dn in (dim, case['dim2'])][::-1]:
                want = _along(want, ax, fn)
        wm = np.ma.getmaskarray(want).ravel()
        wd = np.ma.getdata(want).astype('d').ravel()
        if list(np.shape(want)) != a['shape']:
            return '%s %s=%s: variable %s has shape %s, numpy gives %s' % (case['sub'], dim, fn, k, a['shape'], list(np.shape(want)))
        am, ad = np.array(a['mask'], dtype=bool), np.array(a['data'], dtype='d')
        if a['kind'] in 'iu' and b['kind'] in 'iu':
            wd = np.trunc(wd)       # integer variables keep their type: the C cast of the float result
        for i in range(wd.size):
            if bool(am[i]) != bool(wm[i]):
                return '%s %s=%s: variable %s cell %d masked=%s, numpy gives masked=%s' % (case['sub'], dim, fn, k, i, bool(am[i]), bool(wm[i]))
            if not wm[i] and not (abs(ad[i] - wd[i]) <= 1e-5 * max(1.0, abs(wd[i])) or (ad[i] != ad[i] and wd[i] != wd[i])):
                return '%s %s=%s: variable %s cell %d = %r, numpy gives %r' % (case['sub'], dim, fn, k, i, ad[i], wd[i])
    return None


def gen(rng, tier):
    n = 300 if tier == 'quick' else 10000
    out = [_case(rng) for _ in range(n)]
    out += [_direct_case(rng) for _ in range(n // 4)]
    out += [_legacy_reduce_case(rng) for _ in range(n // 8)]
    # on every run: the float mean of an integer variable handed through a second call along a dimension it lacks
    found = 0
    for _ in range(2000):
        c = _legacy_reduce_case(rng)
        d1, fn = c['fns'][0]
        if c.get('then') and fn in ('mean', 'std', 'var') and any(
                v['dtype'] == 'i' and not v['masked'] and d1 in v['dims'] and c['then'].split(',')[0] not in v['dims'] and
                len(set(v['data'])) > 1 for v in c['spec']['vars']):
            out.append(c)
            found += 1
            if found == 3:
                break
    out += [_legacy_convolve_case(rng) for _ in range(n // 10)]
    out += [_ioapi_case(rng) for _ in range(n // 10)]
    out += [_twoorder_case(rng) for _ in range(n // 10)]
    out += [_cli_case(rng) for _ in range(max(3, n // 60))]
    # on every run: functions along TSTEP that keep the number of steps, on files that run over the end of February in a
    # century year that is no leap year (the time flags are regenerated from the decoded times)
    from . import c10
    for sd in (2100058, 1900059):
        src = c10._src(rng)
        src.update(kind='arrays', sdate=sd, stime=rng.choice([0, 120000]), tstep=240000, nt=rng.randint(3, 5), owntflag=False, withcf=False)
        out.append(dict(kind='direct', sub='ioapi', fns=[], src=src, dim='TSTEP', fn=rng.choice(['rev', 'cumsum'])))
    # masked variables that declare no fill attribute (masked by an earlier step, created from masked values), with whole
    # fibres missing: the result is missing where numpy.ma says so, not the numbers under the mask
    got = 0
    for _ in range(400):
        c = _direct_case(rng)
        if c.get('spec') and c['sub'] in ('derived', None) and 'src' not in c and any(v['masked'] and c['dim'] in v['dims'] for v in c['spec']['vars']):
            pfile.drop_fill_attrs(rng, c['spec'], prob=1.0)
            dl = {d[0]: d[1] for d in c['spec']['dims']}
            for v in c['spec']['vars']:
                if v['masked'] and c['dim'] in v['dims']:
                    shape = [dl[n_] for n_ in v['dims']]
                    idx = np.arange(int(np.prod(shape))).reshape(shape)
                    sel = [slice(None) if n_ == c['dim'] else rng.randrange(dl[n_]) for n_ in v['dims']]
                    for i in np.atleast_1d(idx[tuple(sel)]).ravel().tolist():
                        v['data'][i] = None
            out.append(c)
            got += 1
            if got >= max(4, n // 40):
                break
    # variables that have an attribute named like the reducer; the string front end on variables that carry the dimension twice
    got = 0
    for _ in range(400):
        c = _direct_case(rng)
        if c.get('spec') and c['fn'] in NP_REDUCERS and c['sub'] in ('derived', 'prefixdim', 'direct', None) and 'src' not in c:
            if c['sub'] == 'derived' and any(len(set(v['dims'])) < len(v['dims']) for v in c['spec']['vars']):
                c['sub'] = 'repeatlegacy'
            else:
                c['shadowattr'] = True
            out.append(c)
            got += 1
            if got >= max(6, n // 25):
                break
    return out


def _unmasked_nans(o):
    """cells that hold NaN without being masked (the observation prints NaN like a missing cell: the inputs have none, so
    a result has none either - a fibre without data gives a MISSING result)"""
    out = {}
    for k, v in o.variables.items():
        a = v[...]
        d = np.ma.getdata(a)
        if d.dtype.kind == 'f':
            n = int((np.isnan(d) & ~np.ma.getmaskarray(a)).sum())
            if n:
                out[k] = n
    return out


def impl(case):
    if case.get('kind') == 'direct':
        return _impl_direct(case)
    if case.get('kind') == 'ioapi':
        from . import c10
        return c10.impl(case['c10'])
    if case.get('kind') in ('reduce', 'convolve'):
        from PseudoNetCDF.core._functions import convolve_dim, reduce_dim
        f = pfile.build(case['spec'])
        try:
            with lib.pnc_warnings(), np.errstate(all='ignore'):
                o = (reduce_dim if case['kind'] == 'reduce' else convolve_dim)(f, case['text'])
                res = dict(obs=pfile.observe(o), nans=_unmasked_nans(o))
                if case.get('then'):
                    try:
                        res['then_obs'] = pfile.observe(reduce_dim(o, case['then']))
                    except Exception as e:
                        res['then_err'] = '%s: %s' % (type(e).__name__, str(e)[:100])
            return res
        except Exception as e:
            return dict(err=type(e).__name__, msg=str(e)[:100])
    f = pfile.build(case['spec'])
    kw = {k: (fn if fn in REDUCERS else PYFN[fn]) for k, fn in case['fns']}
    try:
        with lib.pnc_warnings():
            o = f.applyAlongDimensions(**kw)
        return dict(obs=pfile.observe(o), nans=_unmasked_nans(o))
    except Exception as e:
        return dict(err=type(e).__name__, msg=str(e)[:100])


def to_line(case, res):
    if case.get('kind') == 'direct':
        return 'c03 apply x:1:f - - -'      # no model question (oracle only)
    if case.get('kind') == 'ioapi':
        from . import c10
        return c10.to_line(case['c10'], res)
    if case.get('kind') == 'convolve' or (case.get('kind') == 'reduce' and case['fns'][0][1] not in REDUCERS):
        return 'c03 apply x:1:f - - -'      # no model question (oracle only)
    d, v, a = pfile.encode(case['spec'])
    fns = ';'.join('%s=%s' % (k, fn) for k, fn in case['fns']) or '-'
    return 'c03 apply %s %s %s %s' % (d, v, a, fns)


def agree(case, out, res):
    if case.get('kind') == 'direct':
        return None
    if case.get('kind') == 'ioapi':
        from . import c10
        return c10.agree(case['c10'], out, res)
    if case.get('kind') == 'convolve' or (case.get('kind') == 'reduce' and case['fns'][0][1] not in REDUCERS):
        return None
    if case.get('kind') == 'reduce' and 'obs' in res and out.startswith('ok '):
        # reduce_dim adds a history attribute and drops nothing else: compare dimensions and variable data with the
        # model of applyAlongDimensions(dim=func)
        a, b = pfile.parse_obs(out[3:]), pfile.parse_obs(res['obs'])
        a['attrs'] = b['attrs']
        for k in a['vars']:
            if k in b['vars']:
                a['vars'][k]['attrs'] = b['vars'][k]['attrs']
                a['vars'][k]['flag'] = b['vars'][k]['flag']
        for v in case['spec']['vars']:
            # reduce_dim keeps the float result of an integer variable (applyAlongDimensions casts it): not compared
            if v['dtype'] == 'i' and v['name'] in a['vars'] and v['name'] in b['vars'] and case['fns'][0][0] in v['dims']:
                a['vars'][v['name']]['cells'] = b['vars'][v['name']]['cells'] = '-'
        return pfile.diff_parsed_numeric(a, b)
    if 'err' in res:
        return None if out.startswith('err') else 'impl raised %s (%s), model %s' % (res['err'], res.get('msg'), out[:80])
    if not out.startswith('ok '):
        return 'model %s, impl returned' % out[:80]
    a, b = pfile.parse_obs(out[3:]), pfile.parse_obs(res['obs'])
    # out of domain: an int32 variable whose exact result does not fit its declared storage type
    for v in case['spec']['vars']:
        if v['dtype'] == 'i' and v['name'] in a['vars'] and v['name'] in b['vars']:
            cells = a['vars'][v['name']]['cells']
            if any(c not in ('_', '-') and abs(Fraction(c)) >= 2 ** 31 for c in cells.split(',')):
                a['vars'][v['name']]['cells'] = b['vars'][v['name']]['cells'] = '-'
    return pfile.diff_parsed_numeric(a, b)


def oracle(case, res):
    """numpy / numpy.ma applied directly along the corresponding axes of the input arrays"""
    if res.get('nans'):
        return 'unmasked NaN in the result (%s) although every input value is finite: a fibre without data gives a missing cell' % res['nans']
    if case.get('kind') == 'direct':
        return _oracle_direct(case, res)
    if case.get('kind') == 'ioapi':
        return _oracle_ioapi(case, res)
    if case.get('kind') in ('reduce', 'convolve'):
        return _oracle_legacy(case, res)
    spec = case['spec']
    dl = {d[0]: d[1] for d in spec['dims']}
    fns = dict((k, fn) for k, fn in case['fns'])
    if any(k not in dl for k in fns):
        return None if 'err' in res else None
    if 'err' in res:
        return 'in-domain call raised %s %s' % (res['err'], res.get('msg'))
    got = pfile.parse_obs(res['obs'])
    for k, n in dl.items():
        if k in fns:
            fn = fns[k]
            want = 1 if fn in REDUCERS else len(PYFN[fn](np.arange(n)))
        else:
            want = n
        if got['dims'].get(k, (None,))[0] != want:
            return 'dimension %s has length %s, expected %d' % (k, got['dims'].get(k), want)
    for v in spec['vars']:
        shape = pfile.shape_of(spec, v)
        vals = np.array([0 if x is None else x for x in v['data']], dtype='d').reshape(shape)
        mask = np.array([x is None for x in v['data']], dtype=bool).reshape(shape)
        arr = np.ma.masked_array(vals, mask=mask) if v['masked'] else vals
        touched = False
        for ax in reversed(range(len(v['dims']))):
            k = v['dims'][ax]
            if k in fns:
                touched = True
                fn = fns[k]
                if fn in REDUCERS:
                    arr = getattr(arr, fn)(axis=ax, keepdims=True)
                elif v['masked']:
                    arr = np.ma.apply_along_axis(PYFN[fn], ax, arr)
                else:
                    arr = np.apply_along_axis(PYFN[fn], ax, arr)
        g = got['vars'].get(v['name'])
        if g is None:
            return 'variable %s disappeared' % v['name']
        m2 = np.ma.getmaskarray(arr).ravel() if np.ma.isMaskedArray(arr) else np.zeros(np.size(arr), bool)
        d2 = np.ma.getdata(arr).ravel().astype('d')
        if v['dtype'] == 'i' and touched:
            d2 = np.trunc(d2)
            if np.any(np.abs(d2[~m2]) >= 2 ** 31):
                continue        # out of domain: the result does not fit the declared int32 storage
        cells = g['cells'].split(',') if g['cells'] != '-' else []
        if len(cells) != d2.size:
            return 'variable %s has %d cells, the reduction along the named axes gives %d' % (v['name'], len(cells), d2.size)
        for i, c in enumerate(cells):
            if (c == '_') != bool(m2[i]):
                return 'variable %s cell %d masked=%s, numpy.ma gives masked=%s' % (v['name'], i, c == '_', bool(m2[i]))
            if c != '_' and abs(float(Fraction(c)) - d2[i]) > 1e-9 * max(1.0, abs(d2[i])):
                return 'variable %s cell %d = %s, numpy gives %r' % (v['name'], i, c, d2[i])
    return None


def _oracle_legacy(case, res):
    spec = case['spec']
    dl = {d[0]: d[1] for d in spec['dims']}
    if 'err' in res:
        return 'in-domain call %s raised %s %s' % (case['text'], res['err'], res.get('msg'))
    got = pfile.parse_obs(res['obs'])
    if case['kind'] == 'reduce':
        dim, fn = case['fns'][0]
        wantlen = 1
    else:
        dim = case['dim']
        w32 = np.array(case['w'], dtype='f')
        wantlen = len(np.convolve(w32, np.arange(dl[dim]), mode=case['mode']))
    for k, n in dl.items():
        want = wantlen if k == dim else n
        if got['dims'].get(k, (None,))[0] != want:
            return '%s: dimension %s has length %s, expected %d' % (case['text'], k, got['dims'].get(k), want)
    for v in spec['vars']:
        shape = pfile.shape_of(spec, v)
        vals = np.array([0 if x is None else x for x in v['data']], dtype='d').reshape(shape)
        mask = np.array([x is None for x in v['data']], dtype=bool).reshape(shape)
        arr = np.ma.masked_array(vals, mask=mask) if v['masked'] else vals
        touched = dim in v['dims']
        if touched:
            ax = v['dims'].index(dim)
            if case['kind'] == 'reduce':
                mod = np.ma if v['masked'] else np
                with np.errstate(all='ignore'):
                    arr = getattr(mod, fn)(arr, axis=ax, keepdims=True)
            elif v['masked']:
                # weights over the values with the missing ones set to zero; missing wherever a missing cell lies in the window
                dat = np.apply_along_axis(lambda x: np.convolve(w32, x, mode=case['mode']), ax, np.ma.filled(arr, 0.))
                hit = np.apply_along_axis(lambda x: np.convolve(np.ones(len(w32)), x, mode=case['mode']), ax,
                                          np.ma.getmaskarray(arr).astype('d'))
                arr = np.ma.masked_array(dat, mask=hit > 0)
            else:
                arr = np.apply_along_axis(lambda x: np.convolve(w32, x, mode=case['mode']), ax, arr)
        g = got['vars'].get(v['name'])
        if g is None:
            return '%s: variable %s disappeared' % (case['text'], v['name'])
        if g['dims'] != ('.'.join(v['dims']) or '-'):
            return '%s: variable %s has dimensions %s' % (case['text'], v['name'], g['dims'])
        m2 = np.ma.getmaskarray(arr).ravel() if np.ma.isMaskedArray(arr) else np.zeros(np.size(arr), bool)
        d2 = np.ma.getdata(arr).ravel().astype('d')
        if v['dtype'] == 'i' and touched and case['kind'] == 'convolve':
            # convolve_dim assigns into a variable of the declared type (C cast); reduce_dim hands the float result on
            d2 = np.trunc(d2)
            if np.any(np.abs(d2[~m2]) >= 2 ** 31):
                continue
        cells = g['cells'].split(',') if g['cells'] != '-' else []
        if len(cells) != d2.size:
            return '%s: variable %s has %d cells, expected %d' % (case['text'], v['name'], len(cells), d2.size)
        for i, c in enumerate(cells):
            if (c == '_') != bool(m2[i]):
                return '%s: variable %s cell %d masked=%s, numpy gives masked=%s' % (case['text'], v['name'], i, c == '_', bool(m2[i]))
            if c != '_' and abs(float(Fraction(c)) - d2[i]) > 1e-9 * max(1.0, abs(d2[i])):
                return '%s: variable %s cell %d = %s, numpy gives %r' % (case['text'], v['name'], i, c, d2[i])
    if case.get('then'):
        if 'then_err' in res:
            return '%s then %s raised %s' % (case['text'], case['then'], res['then_err'])
        d2name = case['then'].split(',')[0]
        after = pfile.parse_obs(res['then_obs'])
        for v in spec['vars']:
            if d2name in v['dims']:
                continue
            a, b = got['vars'].get(v['name']), after['vars'].get(v['name'])
            if b is None or (a['dims'], a['shape'], a['cells']) != (b['dims'], b['shape'], b['cells']):
                return '%s then %s: variable %s lacks %s but changed: %s -> %s' % (
                    case['text'], case['then'], v['name'], d2name, a['cells'][:80], b and b['cells'][:80])
    return None


def _oracle_ioapi(case, res):
    """level edges after applyAlongDimensions(LAY=f): f(lower edges) followed by the last of f(upper edges)"""
    from . import c10
    op = case['c10']['ops'][0]
    if not res['states'] or 'err' in res['states'][0]:
        return None
    # the time flags have none of LAY / ROW / COL: a function along one of those leaves them as they were
    prev = res['init']
    for o, stt in zip(case['c10']['ops'], res['states']):
        if 'err' in stt:
            break
        if o[0] == 'apply' and o[1] != 'TSTEP' and prev.get('tflag') != stt['st'].get('tflag'):
            return 'IOAPI file, %s along %s: TFLAG lacks %s but changed: %s -> %s' % (o[2], o[1], o[1], prev.get('tflag'), stt['st'].get('tflag'))
        prev = stt['st']
    st = res['states'][0]
    if st['bad']:
        return 'IOAPI file after %s: %s' % (op, '; '.join(st['bad']))
    if op[1] == 'LAY':
        vg0 = [Fraction(x) for x in res['init']['vglvls'].split(',')] if res['init']['vglvls'] != '-' else []
        f = c10.FNS.get(op[2])
        lo, hi = np.array([float(x) for x in vg0[:-1]]), np.array([float(x) for x in vg0[1:]])
        if f is None:
            lo2, hi2 = np.atleast_1d(getattr(lo, op[2])()), np.atleast_1d(getattr(hi, op[2])())
        else:
            lo2, hi2 = f(lo), f(hi)
        want = list(lo2) + [hi2[-1]]
        got = [float(Fraction(x)) for x in st['st']['vglvls'].split(',')] if st['st']['vglvls'] != '-' else []
        if len(got) != len(want) or any(abs(a - b) > 1e-6 for a, b in zip(got, want)):
            return 'VGLVLS after applyAlongDimensions(LAY=%s): %s, expected %s' % (op[2], got, want)
    return None


def classify(case, failure, model_out):
    return None


def nontrivial(case, res):
    if case.get('kind') == 'direct':
        return 'err' not in res and not res.get('skip')
    if case.get('kind') == 'ioapi':
        return bool(res.get('states')) and 'err' not in res['states'][0]
    if case.get('kind') == 'convolve':
        return 'obs' in res
    named = {k for k, fn in case['fns']}
    has = [bool(set(v['dims']) & named) for v in case['spec']['vars']]
    return (any(has) and not all(has)) or len(named) >= 2


def distribution(recs):
    d = {}
    for r in recs:
        if r['case'].get('kind'):
            d[r['case']['kind']] = d.get(r['case']['kind'], 0) + 1
            if r['case']['kind'] == 'direct':
                key = 'direct_%s%s' % (r['case']['sub'], '!' if 'err' in r['impl'] else '')
                d[key] = d.get(key, 0) + 1
            if r['case']['kind'] in ('ioapi', 'direct'):
                continue
        for k, fn in r['case']['fns']:
            d[fn] = d.get(fn, 0) + 1
        if 'err' in r['impl']:
            d['err_' + str(r['impl']['err'])] = d.get('err_' + str(r['impl']['err']), 0) + 1
    return d
