"""C03 — applyAlongDimensions (core/_files.py) against lean/PncModel/File.lean applyFile"""
from fractions import Fraction

import numpy as np

from .. import lib, pfile

ID = 'C03'
LEAN_MODULE = 'PncProofs.C03'
LEAN_FILE = 'PncProofs/C03.lean'
NAMESPACE = 'Props.C03'
LEAN_CONE = ['PncModel.Arr', 'PncModel.File', 'PncProofs.ArrLemmas', 'PncProofs.FiberLemmas', 'PncProofs.C03']
LEMMA_FILES = ['PncProofs/FiberLemmas.lean']
REQUIRED_THEOREMS = ['apply_fiberwise', 'fn_uniform', 'apply_shape', 'reducers_exclude_masked', 'untouched']
RULE = ('random files (as C02; float64 and int32 variables, masked and unmasked, coordinate variables) x 1-3 '
        'dimension functions in random keyword order: named reducers mean/sum/min/max/var (array methods, '
        'keepdims) and callables np.diff, x[::2], np.cumsum, x[::-1], np.convolve(x,[1,1],"valid") (the last '
        'only on unmasked data); std and float32 variables run through the oracle only (tolerance); '
        'non-trivial = some variable has a named dimension and another does not, or two dimensions are named')
ASSUMPTIONS = ['numpy / numpy.ma reductions and apply_along_axis behave as the per-fiber model says',
               'results are stored in the declared type of the variable (integer variables: C cast of the float result)',
               'float64 results are compared with the exact rational within 1e-12 relative']
MIN_NONTRIVIAL = {'quick': 80, 'thorough': 800}

REDUCERS = ['mean', 'sum', 'min', 'max', 'var']
CALLABLES = ['diff', 'sub2', 'cumsum', 'rev', 'conv2']
PYFN = {'diff': np.diff, 'sub2': (lambda x: x[::2]), 'cumsum': np.cumsum, 'rev': (lambda x: x[::-1]),
        'conv2': (lambda x: np.convolve(x, [1, 1], mode='valid'))}


def _case(rng):
    spec = pfile.gen_file(rng, maxlen=4, minlen=2 if rng.random() < 0.7 else 1)
    for v in spec['vars']:
        if v['dtype'] == 'f':
            v['dtype'] = 'd'
    names = [d[0] for d in spec['dims']]
    k = rng.randint(1, min(3, len(names)))
    chosen = rng.sample(names, k)
    anymasked = any(v['masked'] for v in spec['vars'])
    fns = []
    for n in chosen:
        if rng.random() < 0.65:
            fn = rng.choice(REDUCERS)
        else:
            dl = {d[0]: d[1] for d in spec['dims']}
            # np.diff / 'valid' convolution of a length-1 axis give an empty / a swapped-operand result:
            # outside the functions' sensible domain, not generated
            fn = rng.choice([c for c in CALLABLES if not (anymasked and c == 'conv2')
                             and not (dl[n] < 2 and c in ('diff', 'conv2'))])
        fns.append([n, fn])
    malformed = rng.random() < 0.05
    if malformed:
        fns.append(['nosuchdim', 'mean'])
    return dict(spec=spec, fns=fns)


def gen(rng, tier):
    n = 300 if tier == 'quick' else 10000
    return [_case(rng) for _ in range(n)]


def impl(case):
    f = pfile.build(case['spec'])
    kw = {k: (fn if fn in REDUCERS else PYFN[fn]) for k, fn in case['fns']}
    try:
        with lib.pnc_warnings():
            o = f.applyAlongDimensions(**kw)
        return dict(obs=pfile.observe(o))
    except Exception as e:
        return dict(err=type(e).__name__, msg=str(e)[:100])


def to_line(case, res):
    d, v, a = pfile.encode(case['spec'])
    fns = ';'.join('%s=%s' % (k, fn) for k, fn in case['fns']) or '-'
    return 'c03 apply %s %s %s %s' % (d, v, a, fns)


def agree(case, out, res):
    if 'err' in res:
        return None if out.startswith('err') else 'impl raised %s (%s), model %s' % (res['err'], res.get('msg'), out[:80])
    if not out.startswith('ok '):
        return 'model %s, impl returned' % out[:80]
    a, b = pfile.parse_obs(out[3:]), pfile.parse_obs(res['obs'])
    # out of domain: an int32 variable whose exact result does not fit its declared storage type
    for v in case['spec']['vars']:
        if v['dtype'] == 'i' and v['name'] in a['vars'] and v['name'] in b['vars']:
            cells = a['vars'][v['name']]['cells']
            if any(c not in ('_', '-') and abs(Fraction(c)) >= 2 ** 31 for c in cells.split(',')):
                a['vars'][v['name']]['cells'] = b['vars'][v['name']]['cells'] = '-'
    return pfile.diff_parsed_numeric(a, b)


def oracle(case, res):
    """numpy / numpy.ma applied directly along the corresponding axes of the input arrays"""
    spec = case['spec']
    dl = {d[0]: d[1] for d in spec['dims']}
    fns = dict((k, fn) for k, fn in case['fns'])
    if any(k not in dl for k in fns):
        return None if 'err' in res else None
    if 'err' in res:
        return 'in-domain call raised %s %s' % (res['err'], res.get('msg'))
    got = pfile.parse_obs(res['obs'])
    for k, n in dl.items():
        if k in fns:
            fn = fns[k]
            want = 1 if fn in REDUCERS else len(PYFN[fn](np.arange(n)))
        else:
            want = n
        if got['dims'].get(k, (None,))[0] != want:
            return 'dimension %s has length %s, expected %d' % (k, got['dims'].get(k), want)
    for v in spec['vars']:
        shape = pfile.shape_of(spec, v)
        vals = np.array([0 if x is None else x for x in v['data']], dtype='d').reshape(shape)
        mask = np.array([x is None for x in v['data']], dtype=bool).reshape(shape)
        arr = np.ma.masked_array(vals, mask=mask) if v['masked'] else vals
        touched = False
        for ax in reversed(range(len(v['dims']))):
            k = v['dims'][ax]
            if k in fns:
                touched = True
                fn = fns[k]
                if fn in REDUCERS:
                    arr = getattr(arr, fn)(axis=ax, keepdims=True)
                elif v['masked']:
                    arr = np.ma.apply_along_axis(PYFN[fn], ax, arr)
                else:
                    arr = np.apply_along_axis(PYFN[fn], ax, arr)
        g = got['vars'].get(v['name'])
        if g is None:
            return 'variable %s disappeared' % v['name']
        m2 = np.ma.getmaskarray(arr).ravel() if np.ma.isMaskedArray(arr) else np.zeros(np.size(arr), bool)
        d2 = np.ma.getdata(arr).ravel().astype('d')
        if v['dtype'] == 'i' and touched:
            d2 = np.trunc(d2)
            if np.any(np.abs(d2[~m2]) >= 2 ** 31):
                continue        # out of domain: the result does not fit the declared int32 storage
        cells = g['cells'].split(',') if g['cells'] != '-' else []
        if len(cells) != d2.size:
            return 'variable %s has %d cells, the reduction along the named axes gives %d' % (v['name'], len(cells), d2.size)
        for i, c in enumerate(cells):
            if (c == '_') != bool(m2[i]):
                return 'variable %s cell %d masked=%s, numpy.ma gives masked=%s' % (v['name'], i, c == '_', bool(m2[i]))
            if c != '_' and abs(float(Fraction(c)) - d2[i]) > 1e-9 * max(1.0, abs(d2[i])):
                return 'variable %s cell %d = %s, numpy gives %r' % (v['name'], i, c, d2[i])
    return None


def classify(case, failure, model_out):
    return None


def nontrivial(case, res):
    named = {k for k, fn in case['fns']}
    has = [bool(set(v['dims']) & named) for v in case['spec']['vars']]
    return (any(has) and not all(has)) or len(named) >= 2


def distribution(recs):
    d = {}
    for r in recs:
        for k, fn in r['case']['fns']:
            d[fn] = d.get(fn, 0) + 1
        if 'err' in r['impl']:
            d['err_' + r['impl']['err']] = d.get('err_' + r['impl']['err'], 0) + 1
    return d
