"""C05 — isolation: inputs never modified, results never alias, closing is local"""
import gc
import json
import os

import numpy as np

from .. import lib, pfile
from . import c01, c10, c15

ID = 'C05'
LEAN_MODULE = 'PncProofs.C05'
LEAN_FILE = 'PncProofs/C05.lean'
NAMESPACE = 'Props.C05'
LEAN_CONE = ['PncModel.Handles', 'PncModel.Generated.CloseGuard', 'PncProofs.C05']
LEMMA_FILES = []
REQUIRED_THEOREMS = ['live_init', 'live_step', 'live_run', 'open_objects_readable', 'unguarded_counterexample',
                     'lowestFree_not_mem']
RULE = ('kind hist: histories of 2-9 events (open one of 3 netCDF files, close, close again, drop the last reference '
        'with gc) run in a freshly forked process; after EVERY event every object created so far is read and '
        'compared with the Lean handle-table model; kind pure: every operation/query of the C01 stream plus '
        'getTimes, val2idx (all methods), time2idx, date2num, repr, save and the legacy helpers slice_dim / '
        'getvarpnc / pncrename on random files, and every IOAPI operation of the C10 stream on IOAPI files: deep snapshot of the inputs before vs after, numpy.shares_memory '
        'between every output and input variable, then writes into every output variable and a second snapshot '
        'comparison; non-trivial = a history that closes or drops an object while another is open / an operation '
        'that returns at least one variable; time variables with hour-only reference times; receivers that are results of an earlier eval / assignment (chained eval)')
ASSUMPTIONS = ['the CPython finaliser runs when the last reference is dropped (driven explicitly, followed by gc.collect())',
               'netCDF-C hands out the lowest free id (observed, modelled)',
               'that the real operations allocate fresh memory is observed with numpy.shares_memory, not proved']
MIN_NONTRIVIAL = {'quick': 40, 'thorough': 400}
NPROC = {'quick': 4, 'thorough': 12}
KEY_EVAL = 'C05/eval/bare-name-aliases-input'


def _hist(rng):
    evs = []
    nobj = 0
    for _ in range(rng.randint(2, 9)):
        k = rng.random()
        if nobj == 0 or k < 0.4:
            # O: the file opened as a plain netCDF4.Dataset by the caller (the library accepts such objects as input)
            evs.append([rng.choice(['o', 'o', 'O']), rng.randrange(3)])
            nobj += 1
        elif k < 0.65:
            evs.append(['c', rng.randrange(nobj)])
        elif k < 0.8:
            # w: the object is handed to the writer (save / pncwrite) - a query, it stays open and readable
            evs.append(['w', rng.randrange(nobj)])
        else:
            evs.append(['d', rng.randrange(nobj)])
    return dict(kind='hist', evs=evs)


TIMEQ = ['getTimes', 'getTimes_bounds', 'getTimes_tb', 'getTimes_tflag', 'getTimes_tflag0', 'getTimes_tau0', 'getTimes_dt64', 'getTimes_noleap',
         'time2t_nearest', 'time2t_bounds', 'time2t_bounds_close']
QUERIES = TIMEQ + ['val2idx_nearest', 'val2idx_bounds', 'val2idx_exact', 'repr', 'save', 'slice_dim', 'getvarpnc',
           'pncrename', 'eval_bare', 'eval_expr', 'eval_chain', 'eval_chain_assign',
           # results that could be views: an index / asarray of an input, a scalar variable, a variable only the left
           # operand of an operator has; an argument file whose coordinate variable is the target of an interpolation
           'eval_view', 'eval_asarray', 'eval_scalar', 'binop_leftonly', 'interp_other',
           # statements that write into a variable ('A += 1', 'A[...] = 5') with inplace=False; the expression front end
           # pncexpr (bare name, view, augmented assignment; closing its result is not closing the input); a data dump of a
           # masked-type variable that holds NaN / inf next to no missing cell; time flags of time-independent data (0, 0)
           'eval_aug', 'eval_setitem', 'pncexpr_bare', 'pncexpr_view', 'pncexpr_aug', 'pncexpr_close', 'dump_nan',
           'getTimes_tflag0',
           # the functional helpers behind pncgen's options: a range through slice_dim (a view unless copied), the weights
           # form of interpolation (dimension objects and untouched variables), point extraction (variables without
           # latitude / longitude); assignments to several targets at once and into an array-valued global attribute with
           # inplace=False; deleting / renaming in the wrapper pncexpr returns
           'slice_dim_range', 'interpvars', 'extract_lonlat', 'eval_tuple', 'pncexpr_tuple', 'eval_attrarr', 'pncexpr_attrarr',
           'pncexpr_del', 'pncexpr_rename',
           # a variable reached through the file object in an expression (the only way to name a key that is no identifier);
           # index arrays with missing entries (what an exact lookup returns) handed to a pointwise selection
           'eval_selfvar', 'pncexpr_ifilevar', 'slice_maskedidx',
           # unary operations on masked variables (numpy hands the operand's mask on to the result); merge of several files;
           # a window of an IOAPI file whose grid origin is held as arrays
           'eval_unary_mask', 'pncexpr_unary_mask', 'merge_views', 'ioapi_origarr', 'slice_dim_full', 'getTimes_noleap', 'reduce_len1']


def _pure(rng):
    spec = pfile.gen_file(rng, maxlen=3, coord_prob=0.6)
    for v in spec['vars']:
        if v['dtype'] == 'f':
            v['dtype'] = 'd'
    st = dict(dims={d[0]: d[1] for d in spec['dims']}, vars={v['name']: v['dims'] for v in spec['vars']},
              dtype={v['name']: v['dtype'] for v in spec['vars']})
    if rng.random() < 0.6:
        op = c01._op(rng, st)
        if op[0] == 'eval':
            op = ['copy']       # the sequences of C01 evaluate in place: that is allowed to modify the receiver
    else:
        op = ['query', rng.choice(QUERIES)]
    # reference times written with the hour only are units the library reads (06Z, 06 UTC, T06)
    if rng.random() < 0.06:
        # a rename that maps every name onto itself is still an operation: its result is a new file
        ns = rng.sample(sorted(st['dims']), rng.randint(1, len(st['dims'])))
        op = ['renamedims', [[n, n] for n in ns]] if rng.random() < 0.6 else ['renamedim', ns[0], ns[0]]
    tunits = rng.choice(['hours since 2001-02-03 00:00:00+0000', 'hours since 2001-02-03 00:00:00+0000',
                         'hours since 2001-02-03 06Z', 'hours since 2001-02-03 06 UTC', 'hours since 2001-02-03T06'])
    # a receiver that was opened from a netCDF file on disk (its variables are the library's handles on the file)
    disk = (op[0] in ('copy', 'slice', 'apply', 'subset', 'maskgt') or op in (['query', 'save'], ['query', 'repr'], ['query', 'eval_expr'],
                                                                          ['query', 'getvarpnc'])) and rng.random() < 0.25
    return dict(kind='pure', spec=spec, op=op, tunits=tunits, disk=disk)


def _iopure(rng):
    src = c10._src(rng)
    src['kind'] = rng.choice(['arrays', 'arrays_bnd', 'arrays_extra'])
    rec = c10._recipe(rng)
    if rec[0] == 'eval':
        rec[3] = 1          # never inplace: an inplace eval is allowed to modify its receiver
    return dict(kind='iopure', src=src, recipe=rec)


def gen(rng, tier):
    n = 200 if tier == 'quick' else 5000
    out = []
    for i in range(n):
        out.append(_hist(rng) if i % 3 == 0 else (_iopure(rng) if i % 3 == 1 and i % 2 == 0 else _pure(rng)))
    # queries on receivers opened from disk whose variables have missing values (save, repr, variable extraction, eval)
    for q in (['query', 'save'], ['query', 'save'], ['query', 'repr'], ['query', 'getvarpnc'], ['query', 'eval_expr'], ['copy'],
              ['query', 'pncexpr_close'], ['query', 'pncexpr_close'], ['query', 'pncexpr_bare']):
        spec = pfile.gen_file(rng, maxlen=3, masked_prob=0.8, scalar_prob=0.0)
        for v in spec['vars']:
            if v['dtype'] == 'f':
                v['dtype'] = 'd'
        out.append(dict(kind='pure', spec=spec, op=q, tunits='hours since 2001-02-03 00:00:00+0000', disk=True))
    # the functional helpers and the statements that write, on every run, on files that have coordinate variables
    for q in ('slice_dim', 'slice_dim_range', 'getvarpnc', 'pncrename', 'interpvars', 'extract_lonlat', 'eval_tuple', 'pncexpr_tuple',
              'eval_attrarr', 'pncexpr_attrarr', 'pncexpr_del', 'pncexpr_rename', 'eval_aug', 'pncexpr_aug', 'eval_selfvar',
              'pncexpr_ifilevar', 'slice_maskedidx', 'eval_unary_mask', 'pncexpr_unary_mask', 'merge_views', 'ioapi_origarr', 'slice_dim_full',
              'getTimes_noleap', 'getTimes_noleap', 'reduce_len1'):
        spec = pfile.gen_file(rng, maxlen=3, coord_prob=1.0, scalar_prob=0.0)
        for v in spec['vars']:
            if v['dtype'] == 'f':
                v['dtype'] = 'd'
        out.append(dict(kind='pure', spec=spec, op=['query', q], tunits='hours since 2001-02-03 00:00:00+0000', disk=False))
    # on every run: a file stacked with itself along a dimension that a masked variable with missing cells does not have
    # (a static field next to the time series): the result has its own copy of it
    for _ in range(200):
        spec = pfile.gen_file(rng, maxlen=3, masked_prob=0.7, scalar_prob=0.0)
        for v in spec['vars']:
            if v['dtype'] == 'f':
                v['dtype'] = 'd'
        cand = [(v, d[0]) for v in spec['vars'] for d in spec['dims']
                if v['masked'] and any(x is None for x in v['data']) and d[0] not in v['dims'] and d[1] >= 1]
        if cand:
            out.append(dict(kind='pure', spec=spec, op=['stackself', cand[0][1]], tunits='hours since 2001-02-03 00:00:00+0000', disk=False))
            break
    # the history that used to break another file (double close through the finaliser)
    out.append(dict(kind='hist', evs=[['o', 0], ['c', 0], ['o', 1], ['d', 0]]))
    out.append(dict(kind='hist', evs=[['o', 0], ['o', 1], ['c', 0], ['c', 0], ['o', 2], ['c', 0], ['d', 0]]))
    return out


def _run_hist(evs):
    import netCDF4
    import tempfile
    import shutil
    import PseudoNetCDF as pnc
    d = tempfile.mkdtemp(prefix='pncverif_c05_')
    try:
        paths = []
        for i in range(3):
            p = os.path.join(d, 'h%d.nc' % i)
            nc = netCDF4.Dataset(p, 'w')
            nc.createDimension('x', 2)
            v = nc.createVariable('v', 'i', ('x',))
            v[:] = [i + 10, i + 20]
            nc.close()
            paths.append(p)
        objs = []
        files = []
        out = []
        for k, a in evs:
            if k == 'o':
                objs.append(pnc.pncopen(paths[a], format='netcdf'))
                files.append(a)
            elif k == 'O':
                objs.append(netCDF4.Dataset(paths[a]))
                files.append(a)
            elif k == 'w':
                if objs[a] is not None and objs[a].isopen():
                    from PseudoNetCDF.pncgen import pncgen
                    outp = os.path.join(d, 'w%d.nc' % len(out))
                    try:
                        o2 = pncgen(objs[a], outp, format='NETCDF4_CLASSIC', verbose=0)
                        o2.close()
                    except Exception:
                        pass
            elif k == 'c':
                if objs[a] is not None:
                    # closing twice is the library's business for its own objects; a plain netCDF4.Dataset is the caller's
                    # (netCDF4 itself does not guard a second close)
                    if not isinstance(objs[a], pnc.PseudoNetCDFFile) and not objs[a].isopen():
                        pass
                    else:
                        objs[a].close()
            else:
                objs[a] = None
                gc.collect()
            flags = ''
            for o, fidx in zip(objs, files):
                ok = '0'
                if o is not None and o.isopen():   # a closed handle is not read: its id may name another file now
                    try:
                        vals = o.variables['v'][:]
                        if list(vals) == [fidx + 10, fidx + 20]:
                            ok = '1'
                        else:
                            ok = 'X'
                    except Exception:
                        ok = '0'
                flags += ok
            out.append(flags)
        return out
    finally:
        shutil.rmtree(d, True)


def _snap(f):
    """deep snapshot of a file: dims, attrs, data bytes, masks, variable attrs"""
    s = {'dims': {k: (len(d), bool(d.isunlimited())) for k, d in f.dimensions.items()},
         'attrs': {k: repr(getattr(f, k)) for k in f.ncattrs()}, 'vars': {}}
    for k in f.variables:
        v = f.variables[k]
        arr = v[...]
        s['vars'][k] = (tuple(v.dimensions), np.ma.getdata(arr).tobytes(), np.ma.getmaskarray(arr).tobytes(),
                        {a: repr(getattr(v, a)) for a in v.ncattrs()})
    return s


def _diffsnap(a, b):
    if a['dims'] != b['dims']:
        return 'dimensions %s -> %s' % (a['dims'], b['dims'])
    if a['attrs'] != b['attrs']:
        return 'global attributes changed'
    if sorted(a['vars']) != sorted(b['vars']):
        return 'variables %s -> %s' % (sorted(a['vars']), sorted(b['vars']))
    for k in a['vars']:
        if a['vars'][k] != b['vars'][k]:
            what = [n for n, x, y in zip(('dimensions', 'data', 'mask', 'attributes'), a['vars'][k], b['vars'][k]) if x != y]
            return 'variable %s: %s changed' % (k, ','.join(what))
    return None


def _query(f, q, spec):
    import PseudoNetCDF as pnc
    from PseudoNetCDF.core import _functions as F
    coords = [v['name'] for v in spec['vars'] if v['dims'] == [v['name']]]
    if q in TIMEQ:
        import datetime
        if q == 'getTimes_dt64':
            f.getTimes(datetype='datetime64[s]')
            return None
        if q == 'getTimes_noleap':
            # a calendar of fixed-length years (the values it decodes are C12's recorded finding; here: the receiver stays)
            for b_ in (False, True):
                try:
                    f.getTimes(bounds=b_)
                except Exception:
                    pass
            return None
        if q == 'getTimes_tflag0':
            for b_ in (False, True):
                try:
                    f.getTimes(bounds=b_)       # a year-0 date may well be refused; the flags are not the place to repair it
                except Exception:
                    pass
            return None
        ts = f.getTimes()
        if q in ('getTimes_bounds', 'getTimes_tb', 'getTimes_tflag', 'getTimes_tau0'):
            f.getTimes(bounds=True)
            f.getTimes(bounds=True)
        if q.startswith('time2t'):
            f.time2t([ts[0], ts[-1] + datetime.timedelta(hours=3)], ttype=q[7:], index=True)
            f.time2t([ts[0]], ttype=q[7:], index=False)
        if 'time' in f.variables:
            f.time2idx([ts[0], ts[-1] + datetime.timedelta(hours=3)], dim='time')
            f.date2num([ts[0], ts[-1]], timekey='time')
        return None
    if q.startswith('val2idx'):
        if not coords:
            return None
        c = coords[0]
        vals = np.asarray(f.variables[c][:], dtype='d')
        f.val2idx(c, np.append(vals, [vals[0] + 0.25, vals[-1] + 5]), method=q.split('_')[1], bounds='ignore')
        return None
    if q == 'repr':
        repr(f)
        return None
    if q == 'save':
        import tempfile
        p = tempfile.mktemp(suffix='.nc', prefix='pncverif_c05s_')
        try:
            o = f.save(p, format=pfile.disk_format(spec), verbose=0)
            try:
                o.close()
            except Exception:
                pass
        finally:
            if os.path.exists(p):
                os.remove(p)
        return None
    if q == 'slice_dim':
        return F.slice_dim(f, '%s,0' % list(f.dimensions)[0])
    if q == 'getvarpnc':
        return F.getvarpnc(f, [k for k in f.variables if k not in coords][:1] or None)
    if q == 'pncrename':
        ks = [k for k in f.variables if k not in coords]
        if not ks:
            return None
        return F.pncrename(f, 'v,%s,%s' % (ks[0], 'RENAMED'))
    if q == 'eval_bare':
        ks = [k for k in f.variables if k not in coords and f.variables[k].ndim > 0]
        if not ks:
            return None
        return f.eval('NEWVAR = %s' % ks[0])
    if q.startswith('eval_chain'):
        if 'CHAIN' not in f.variables:
            return None
        return f.eval('NEWVAR = CHAIN', inplace=False, copyall=(len(f.variables) % 2 == 0))
    if q == 'eval_expr':
        ks = [k for k in f.variables if k not in coords and f.variables[k].ndim > 0]
        if not ks:
            return None
        return f.eval('NEWVAR = %s * 2' % ks[0])
    if q in ('eval_view', 'eval_asarray'):
        ks = [k for k in f.variables if k not in coords and f.variables[k].ndim > 0]
        if not ks:
            return None
        return f.eval('NEWVAR = %s' % ({'eval_view': '%s[:]', 'eval_asarray': 'np.asarray(%s)'}[q] % ks[0]))
    if q in ('eval_aug', 'eval_setitem', 'pncexpr_bare', 'pncexpr_view', 'pncexpr_aug', 'pncexpr_close'):
        ks = [k for k in f.variables if k not in coords and f.variables[k].ndim > 0 and k.isidentifier()]
        if not ks:
            return None
        k = ks[0]
        if q == 'eval_aug':
            return f.eval('%s += 1' % k)
        if q == 'eval_setitem':
            return f.eval('%s[...] = 5; NEWVAR = %s * 1' % (k, k))
        # the result of pncexpr is a wrapper around the input (its other variables ARE the input's): only what the
        # expression assigned is a result
        if q == 'pncexpr_bare':
            return F.pncexpr('NEWVAR = %s' % k, f), ['NEWVAR']
        if q == 'pncexpr_view':
            return F.pncexpr('NEWVAR = %s[:]' % k, f), ['NEWVAR']
        if q == 'pncexpr_aug':
            return F.pncexpr('%s += 1' % k, f), [k]
        g = F.pncexpr('NEWVAR = %s[:] * 2' % k, f)
        g.close()
        return None
    if q == 'slice_dim_range':
        return F.slice_dim(f, '%s,0,2' % list(f.dimensions)[-1])
    if q == 'slice_dim_full':
        # a window that happens to keep every element: still a new file
        d = list(f.dimensions)[-1]
        return F.slice_dim(f, '%s,0,%d' % (d, len(f.dimensions[d])))
    if q == 'interpvars':
        cs = [c for c in f.dimensions if len(f.dimensions[c]) >= 1 and len(f.dimensions[c]) != 2 and
              all(f.variables[k].dtype.kind in 'fiu' for k in f.variables if c in f.variables[k].dimensions)]
        if not cs:
            return None
        n = len(f.dimensions[cs[0]])
        return F.interpvars(f, np.ones((2, n), dtype='d') / n, cs[0])
    if q == 'extract_lonlat':
        # a file of its own (the helper wants latitude / longitude): variables with and without the horizontal dimensions
        h = pnc.PseudoNetCDFFile()
        h.createDimension('time', 2)
        h.createDimension('latitude', 2)
        h.createDimension('longitude', 3)
        for k, dims, vals in (('time', ('time',), [0., 1.]), ('latitude', ('latitude',), [10., 20.]),
                              ('longitude', ('longitude',), [100., 110., 120.]),
                              ('A', ('time', 'latitude', 'longitude'), np.arange(12.).reshape(2, 2, 3))):
            v = h.createVariable(k, 'd', dims)
            v[:] = vals
        before = _snap(h)
        g = F.extract_lonlat(h, '100,10/120,20')
        for k in g.variables:
            try:
                g.variables[k][...] = -5
            except Exception:
                pass
        d = _diffsnap(before, _snap(h))
        if d:
            raise lib.HarnessError('ARGCHANGED writing into the result of extract_lonlat changed the input: %s' % d)
        return None
    if q in ('eval_tuple', 'pncexpr_tuple'):
        ks = [k for k in f.variables if k not in coords and f.variables[k].ndim > 0 and k.isidentifier() and f.variables[k].shape[0] > 0]
        if not ks:
            return None
        a, b = ks[0], ks[-1]
        expr = '%s[0], %s[0] = 100, 200; NEWVAR = %s * 1' % (a, b, a)
        if q == 'eval_tuple':
            return f.eval(expr)
        return F.pncexpr(expr, f), ['NEWVAR']
    if q in ('eval_selfvar', 'pncexpr_ifilevar'):
        ks = [k for k in f.variables if k not in coords and f.variables[k].ndim > 0]
        if not ks:
            return None
        if q == 'eval_selfvar':
            return f.eval("NEWVAR = self.variables['%s'][:]" % ks[0])
        return F.pncexpr("NEWVAR = ifile.variables['%s'][:]" % ks[0], f), ['NEWVAR']
    if q in ('eval_unary_mask', 'pncexpr_unary_mask'):
        # a file of its own: a masked variable; the result of a unary operation gets a missing cell more and a value where the
        # input has none
        h = pnc.PseudoNetCDFFile()
        h.createDimension('t', 4)
        m = h.createVariable('M', 'd', ('t',), fill_value=-999.)
        m[:] = np.ma.masked_equal([3., -999., 2., 5.], -999.)
        before = _snap(h)
        for ex in ('NEWVAR = -M', 'NEWVAR = abs(M)', 'NEWVAR = np.ma.exp(M)'):
            g = h.eval(ex) if q == 'eval_unary_mask' else F.pncexpr(ex, h)
            g.variables['NEWVAR'][0] = np.ma.masked
            g.variables['NEWVAR'][1] = 7.
            d = _diffsnap(before, _snap(h))
            if d:
                raise lib.HarnessError('ARGCHANGED writing into the result of %s changed the input: %s' % (ex, d))
        return None
    if q == 'reduce_len1':
        # a file of its own with a single time step and a single layer: the reduction of one element is a new array all the same
        from PseudoNetCDF.core._functions import reduce_dim
        for fn in ('mean', 'sum', 'min', 'max'):
            h = pnc.PseudoNetCDFFile()
            h.createDimension('t', 1)
            h.createDimension('x', 3)
            a = h.createVariable('A', 'd', ('t', 'x'))
            a[:] = [[3., 1., 2.]]
            m = h.createVariable('M', 'd', ('t', 'x'), fill_value=-999.)
            m[:] = np.ma.masked_equal([[3., -999., 2.]], -999.)
            before = _snap(h)
            g = reduce_dim(h, 't,%s' % fn)
            for k in ('A', 'M'):
                g.variables[k][0, 0] = 100.
                g.variables[k][0, 2] = np.ma.masked if k == 'M' else -1.
            d = _diffsnap(before, _snap(h))
            if d:
                raise lib.HarnessError("ARGCHANGED writing into the result of reduce_dim(f, 't,%s') (one time step) changed the input: %s" % (fn, d))
        return None
    if q == 'merge_views':
        hs = []
        for name, masked in (('A', False), ('B', True), ('C', False)):
            h = pnc.PseudoNetCDFFile()
            h.createDimension('t', 3)
            v = h.createVariable(name, 'd', ('t',), **(dict(fill_value=-999.) if masked else {}))
            v[:] = np.ma.masked_equal([3., -999., 2.], -999.) if masked else [3., 1., 2.]
            v.units = 'm'
            hs.append(h)
        before = [_snap(h) for h in hs]
        g = F.merge(hs)
        for k in g.variables:
            g.variables[k][0] = 100.
            g.variables[k][2] = np.ma.masked if isinstance(g.variables[k], np.ma.MaskedArray) else -1.
        for b, h in zip(before, hs):
            d = _diffsnap(b, _snap(h))
            if d:
                raise lib.HarnessError('ARGCHANGED writing into the result of merge changed an input: %s' % d)
        return None
    if q == 'ioapi_origarr':
        h, _ = c10.build(dict(kind='arrays', lv=[64, 55, 22, 5], name16=False, nc=4, nl=2, nr=3, nt=2, nv=1, owntflag=False,
                              sdate=2019365, stime=220000, tstep=10000, withcf=False))
        h.XORIG = np.array(float(h.XORIG))
        h.YORIG = np.array([float(h.YORIG)])
        before = _snap(h)
        h.sliceDimensions(ROW=slice(1, 3), COL=slice(2, 4))
        d = _diffsnap(before, _snap(h))
        if d:
            raise lib.HarnessError('ARGCHANGED a window of an IOAPI file changed its receiver: %s' % d)
        return None
    if q == 'slice_maskedidx':
        # a file of its own: a masked variable with a missing cell, two coordinates; the second index array comes from an exact
        # lookup of values that are partly no coordinate values (a masked integer array)
        h = pnc.PseudoNetCDFFile()
        h.createDimension('t', 2)
        h.createDimension('y', 3)
        h.createDimension('x', 4)
        for k, dims, vals in (('y', ('y',), [1., 2., 3.]), ('x', ('x',), [10., 20., 30., 40.])):
            v = h.createVariable(k, 'd', dims)
            v[:] = vals
        m = h.createVariable('M', 'd', ('t', 'y', 'x'), fill_value=-999.)
        m[:] = np.ma.masked_equal(np.arange(24.).reshape(2, 3, 4), 5.)
        p = h.createVariable('P', 'd', ('t', 'y', 'x'))
        p[:] = np.arange(24.).reshape(2, 3, 4)
        before = _snap(h)
        i = h.val2idx('x', [20., 25., 40.], method='exact', bounds='ignore')
        try:
            h.sliceDimensions(y=[2, 0, 1], x=i)
        except Exception:
            pass            # refusing index arrays with missing entries is fine; the receiver stays as it is
        d = _diffsnap(before, _snap(h))
        if d:
            raise lib.HarnessError('ARGCHANGED a pointwise selection with a masked index array changed its receiver: %s' % d)
        return None
    if q in ('eval_attrarr', 'pncexpr_attrarr'):
        # an array-valued global attribute (level edges) written into by a statement of the expression
        h = pnc.PseudoNetCDFFile()
        h.createDimension('x', 3)
        v = h.createVariable('A', 'd', ('x',))
        v[:] = [1., 2., 3.]
        h.VG = np.array([1., 2., 3.])
        before = _snap(h)
        if q == 'eval_attrarr':
            h.eval('VG[0] = 99; C = A * 2')
        else:
            F.pncexpr('VG[0] = 99; C = A * 2', h)
        d = _diffsnap(before, _snap(h))
        if d:
            raise lib.HarnessError('ARGCHANGED %s with inplace=False wrote into an attribute of its input: %s' % (q, d))
        return None
    if q in ('pncexpr_del', 'pncexpr_rename'):
        ks = [k for k in f.variables if k not in coords and f.variables[k].ndim > 0 and k.isidentifier()]
        if not ks:
            return None
        r = F.pncexpr('NEWVAR = %s * 2' % ks[0], f)
        if q == 'pncexpr_del':
            del r.variables[ks[0]]
        else:
            r.renameVariables(inplace=True, **{ks[0]: 'RENAMED_IN_RESULT'})
        return None
    if q == 'dump_nan':
        import io
        from PseudoNetCDF.pncdump import pncdump
        try:
            pncdump(f, outfile=io.StringIO())
        except SystemExit:
            pass        # the dump helper leaves through exit() when a write fails
        return None
    if q == 'eval_scalar':
        ks = [k for k in f.variables if f.variables[k].ndim == 0]
        if not ks:
            return None
        return f.eval('NEWVAR = %s' % ks[0])
    if q == 'binop_leftonly':
        ks = [k for k in f.variables if k not in coords]
        if len(ks) < 2:
            return None
        h = f.copy()
        del h.variables[ks[-1]]
        return f + h
    if q == 'interp_other':
        # the new coordinate is a float64 variable of ANOTHER file (values outside the receiver's range included)
        cs = [c for c in coords if f.variables[c].ndim == 1 and len(f.dimensions[c]) >= 2]
        if not cs:
            return None
        c = cs[0]
        old = np.asarray(f.variables[c][:], dtype='d')
        h = pnc.PseudoNetCDFFile()
        tgt = np.concatenate([[old.min() - 2.5], (old[:-1] + old[1:]) / 2., [old.max() + 1.5]])
        h.createDimension('n', len(tgt))
        tv = h.createVariable('target', 'd', ('n',))
        tv[:] = tgt
        before = np.array(tv[:])
        g = f.interpDimension(c, h.variables['target'])
        if not np.array_equal(before, np.asarray(h.variables['target'][:])):
            raise lib.HarnessError('ARGCHANGED interpDimension changed the coordinate variable of the file it was given as target: %s -> %s' % (
                before.tolist(), np.asarray(h.variables['target'][:]).tolist()))
        return g
    raise ValueError(q)


def impl(case):
    """a netCDF handle of the harness itself (or of another object) that stops working in the middle of a case was
    closed by a finaliser that did not own it: that is an observation about the library, not a harness failure"""
    try:
        return _impl(case)
    except (RuntimeError, lib.HarnessError) as e:
        if 'Not a valid ID' in str(e):
            return dict(foreign='%s: %s' % (type(e).__name__, str(e)[-160:].replace('\n', ' ')))
        if 'ARGCHANGED' in str(e):
            return dict(argchanged=str(e).split('ARGCHANGED', 1)[1].strip()[:300])
        raise


def _impl(case):
    if case['kind'] == 'hist':
        return dict(flags=c15._in_child(_run_hist, case['evs']))
    if case['kind'] == 'iopure':
        return _impl_iopure(case)
    spec = case['spec']
    f = pfile.build(spec)
    f.setCoords([v['name'] for v in spec['vars'] if v['dims'] == [v['name']]])
    if case['op'][0] == 'query' and case['op'][1] in TIMEQ:
        q = case['op'][1]
        d0, n0 = spec['dims'][0][0], spec['dims'][0][1]
        if q in ('getTimes_tflag0',):
            f.createDimension('VAR', 2)
            f.createDimension('DATE-TIME', 2)
            tv = f.createVariable('TFLAG', 'i', (d0, 'VAR', 'DATE-TIME'))
            tv[:] = 0
            f.TSTEP = 0
        elif q == 'getTimes_tflag':
            f.createDimension('VAR', 1)
            f.createDimension('DATE-TIME', 2)
            tv = f.createVariable('TFLAG', 'i', (d0, 'VAR', 'DATE-TIME'))
            tv[:, 0, 0] = 2019365
            tv[:, 0, 1] = np.arange(n0) * 10000
            f.TSTEP = 10000
        elif q == 'getTimes_tau0':
            tv = f.createVariable('tau0', 'd', (d0,))
            tv.units = 'hours since 1985-01-01 00:00:00 UTC'
            tv[:] = np.arange(n0) * 6.
            tv = f.createVariable('tau1', 'd', (d0,))
            tv.units = 'hours since 1985-01-01 00:00:00 UTC'
            tv[:] = np.arange(n0) * 6. + 6
        else:
            tv = f.createVariable('time', 'd', (d0,))
            tv.units = case.get('tunits', 'hours since 2001-02-03 00:00:00+0000')
            tv[:] = np.arange(n0) * 6.
            if q == 'getTimes_noleap':
                tv.units = 'days since 2001-02-03 00:00:00'
                tv.calendar = ['noleap', '365_day', 'all_leap', '366_day'][n0 % 4]
            if q == 'getTimes_tb':
                f.createDimension('nv', 2)
                tb = f.createVariable('time_bounds', 'd', (d0, 'nv'))
                tb.units = tv.units
                tb[:, 0] = tv[:] - 3
                tb[:, 1] = tv[:] + 3
    if case['op'][0] == 'query' and case['op'][1] == 'dump_nan':
        d0, n0 = spec['dims'][0][0], spec['dims'][0][1]
        if 'nn' not in f.dimensions:
            f.createDimension('nn', 3)
        nv = f.createVariable('NANV', 'd', (d0, 'nn'), fill_value=-999.)
        vals = np.arange(n0 * 3, dtype='d').reshape(n0, 3)
        if n0:
            vals[0, 1] = np.nan
            vals[-1, 2] = np.inf
        nv[...] = np.ma.masked_array(vals, mask=False)
    dpath = None
    if case.get('disk'):
        import tempfile
        import PseudoNetCDF as pnc
        dpath = tempfile.mktemp(suffix='.nc', prefix='pncverif_c05d_')
        with lib.pnc_warnings():
            f.save(dpath, format=pfile.disk_format(spec), verbose=0).close()
            f = pnc.pncopen(dpath, format='netcdf')
    try:
        return _impl_pure(case, spec, f)
    finally:
        if dpath:
            try:
                f.close()
            except Exception:
                pass
            if os.path.exists(dpath):
                os.remove(dpath)


def _after(before, f):
    """what changed in the receiver; a receiver that can no longer be read at all (its handle was closed by someone else's
    finaliser, its arrays were released) has changed too"""
    try:
        return _diffsnap(before, _snap(f))
    except lib.HarnessError:
        raise
    except Exception as e:
        return 'the receiver can no longer be read: %s %s' % (type(e).__name__, str(e)[:80])


def _impl_pure(case, spec, f):
    if case['op'][0] == 'query' and case['op'][1].startswith('eval_chain'):
        # the receiver is itself the result of an earlier step: a derived variable stored under another key
        ks = [v['name'] for v in spec['vars'] if v['dims'] and v['dims'] != [v['name']]]
        if ks:
            with lib.pnc_warnings():
                if case['op'][1] == 'eval_chain':
                    f = f.eval('CHAIN = %s * 2' % ks[0], inplace=False, copyall=True)
                else:
                    f.variables['CHAIN'] = f.variables[ks[0]] * 2
    before = _snap(f)
    res = dict()
    with lib.pnc_warnings():
        try:
            with np.errstate(all='ignore'):
                only = None
                if case['op'][0] == 'query':
                    g = _query(f, case['op'][1], spec)
                    if isinstance(g, tuple):
                        g, only = g
                else:
                    g = c01._apply(f, case['op'])
        except lib.HarnessError:
            raise
        except Exception as e:
            res['err'] = type(e).__name__
            g = None
    res['changed'] = _after(before, f)
    res['alias'] = []
    if g is f and (case['op'][0] != 'query' or case['op'][1] in ('slice_dim', 'slice_dim_range', 'slice_dim_full')):
        # (a window through the string front end is a new file, also when it keeps every element)
        res['same_object'] = True
    if g is not None and g is not f:
        res['nvars'] = len(g.variables)
        gkeys = [k for k in g.variables if only is None or k in only]
        for k in gkeys:
            for k2 in f.variables:
                try:
                    if np.shares_memory(np.ma.getdata(g.variables[k][...]), np.ma.getdata(f.variables[k2][...])):
                        res['alias'].append([k, k2])
                except Exception:
                    pass
        # write into every output variable, then look at the input again
        for k in gkeys:
            v = g.variables[k]
            try:
                if v.ndim == 0:
                    v[...] = 123
                else:
                    v[...] = np.zeros(v.shape, dtype=v.dtype) + 77
            except Exception:
                pass
        # ... and into its dimensions (marking a record dimension before saving)
        for dk in (list(g.dimensions) if only is None else []):
            try:
                dd = g.dimensions[dk]
                dd.setunlimited(not dd.isunlimited())
            except Exception:
                pass
        res['changed_after_write'] = _after(before, f)
    return res


def _impl_iopure(case):
    with lib.pnc_warnings():
        f, _ = c10.build(case['src'])
        op = c10.resolve(case['recipe'], f)
        before = _snap(f)
        res = dict(op=op)
        try:
            with np.errstate(all='ignore'):
                g = c10.apply_op(f, op)
        except Exception as e:
            res['err'] = type(e).__name__
            g = None
        res['changed'] = _diffsnap(before, _snap(f))
        res['alias'] = []
        if g is not None and g is not f:
            res['nvars'] = len(g.variables)
            for k in g.variables:
                for k2 in f.variables:
                    try:
                        if np.shares_memory(np.ma.getdata(g.variables[k][...]), np.ma.getdata(f.variables[k2][...])):
                            res['alias'].append([k, k2])
                    except Exception:
                        pass
            for k in g.variables:
                v = g.variables[k]
                try:
                    v[...] = np.zeros(v.shape, dtype=v.dtype) + 77
                except Exception:
                    pass
            for a in ('NVARS', 'SDATE', 'XORIG', 'NLAYS'):
                try:
                    setattr(g, a, getattr(g, a) + 1)
                except Exception:
                    pass
            res['changed_after_write'] = _diffsnap(before, _snap(f))
        return res


def to_line(case, res):
    if case['kind'] == 'hist':
        return 'c05h hist %s' % ','.join('%s:%d' % (k.lower(), a) for k, a in case['evs'] if k != 'w')
    return 'c05h hist o:0'      # purity/aliasing: the model has nothing to add (functional model), see DESIGN


def agree(case, out, res):
    if case['kind'] != 'hist' or 'foreign' in res or 'argchanged' in res:
        return None
    if not out.startswith('ok '):
        return 'model ' + out[:60]
    m = out[3:].split(',')
    # a save is no event of the model: readability after it is that before it
    mm, j = [], 0
    for k, a in case['evs']:
        if k == 'w':
            mm.append(mm[-1] if mm else '')
        else:
            mm.append(m[j] if j < len(m) else '?')
            j += 1
    if mm != res['flags']:
        for i, (a, b) in enumerate(zip(mm, res['flags'])):
            if a != b:
                return 'after event %d (%s): model readability %s, impl %s' % (i, case['evs'][i], a, b)
        return 'model %s impl %s' % (mm, res['flags'])
    return None


def oracle(case, res):
    if 'foreign' in res:
        return 'a netCDF handle that was open and in use stopped working (closed by a finaliser that did not own it): ' + res['foreign']
    if 'argchanged' in res:
        return res['argchanged']
    if case['kind'] == 'hist':
        closed = set()
        n = 0
        for i, ((k, a), flags) in enumerate(zip(case['evs'], res['flags'])):
            if k in ('o', 'O'):
                n += 1
            elif k != 'w':
                closed.add(a)
            for j in range(n):
                if j not in closed and flags[j] != '1':
                    return 'after event %d (%s) the still-open object %d is no longer readable (%s)' % (i, [k, a], j, flags)
        return None
    op = case.get('op') or res.get('op')
    if res.get('changed'):
        return 'operation %s modified its input: %s' % (op, res['changed'])
    if res.get('same_object'):
        return 'the result of %s is the receiver itself, not a new file' % (op,)
    if res.get('alias'):
        return 'aliasing: result of %s shares memory with the input: %s' % (op, res['alias'][:3])
    if res.get('changed_after_write'):
        return 'writing into the result of %s changed the input: %s' % (op, res['changed_after_write'])
    return None


def classify(case, failure, model_out):
    return None


def nontrivial(case, res):
    if case['kind'] == 'hist':
        ks = [k for k, a in case['evs']]
        return ks.count('o') + ks.count('O') >= 2 and ('c' in ks or 'd' in ks)
    return res.get('nvars', 0) >= 1


def witnesses():
    return []


def distribution(recs):
    d = {}
    for r in recs:
        c = r['case']
        if c['kind'] == 'iopure':
            k = 'ioapi:' + c['recipe'][0]
        else:
            k = c['kind'] if c['kind'] == 'hist' else ('op:' + (c['op'][1] if c['op'][0] == 'query' else c['op'][0]))
        d[k] = d.get(k, 0) + 1
    return d
