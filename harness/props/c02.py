"""C02 — sliceDimensions (core/_files.py) against lean/PncModel/File.lean sliceFile"""
import itertools

import numpy as np

from .. import lib, pfile

ID = 'C02'
LEAN_MODULE = 'PncProofs.C02'
LEAN_FILE = 'PncProofs/C02.lean'
NAMESPACE = 'Props.C02'
LEAN_CONE = ['PncModel.Arr', 'PncModel.File', 'PncProofs.ArrLemmas', 'PncProofs.C02']
LEMMA_FILES = ['PncProofs/ArrLemmas.lean']
REQUIRED_THEOREMS = ['orth_get', 'orth_shape', 'orth_full_id', 'normInt_lt', 'sliceIndices_lt', 'indices_lt',
                     'int_keeps_unit_axis']
RULE = ('random files (1-5 dimensions incl. length-1 and unlimited, 1-6 variables of rank 0-4 over different '
        'dimension subsets and orders, coordinate variables, masked and unmasked, int/float dtypes, distinct '
        'integer tokens in every cell) x selectors over a random subset of dimensions in random keyword '
        'order: positive/negative ints, slices with None/negative/out-of-range bounds and steps +-1,+-2,3 '
        '(empty and reversed included), index lists with repeats and negatives, 2-3 equal-length lists (zipped), '
        'plus a malformed stream (unknown dimension, index out of range, unequal list lengths, zero step); '
        'non-trivial = some variable has a selected dimension and another does not, or lists are zipped')
ASSUMPTIONS = ['numpy basic/advanced indexing and masked-array assignment behave as the orthogonal model says '
               '(exercised, not proved)']
MIN_NONTRIVIAL = {'quick': 100, 'thorough': 1000}


def _sel(rng, n, kind=None):
    kind = kind or rng.choice(['int', 'int', 'slice', 'slice', 'slice', 'list'])
    if kind == 'int':
        return ['i', rng.randint(-n, n - 1) if n else 0]
    if kind == 'slice':
        def b():
            return rng.choice([None, None, rng.randint(-n - 2, n + 2)])
        return ['s', b(), b(), rng.choice([1, 1, 1, -1, 2, -2, 3])]
    ln = rng.randint(1, 4)
    return ['l', [rng.randint(-n, n - 1) if n else 0 for _ in range(ln)]]


def _case(rng, malformed=False):
    spec = pfile.gen_file(rng)
    dl = {d[0]: d[1] for d in spec['dims']}
    names = list(dl)
    k = rng.randint(1, min(3, len(names)))
    chosen = rng.sample(names, k)
    sels = []
    mode = rng.random()
    if mode < 0.3 and len(names) >= 2:
        # zipped: 2..3 lists of equal length
        zk = rng.sample(names, rng.randint(2, min(3, len(names))))
        ln = rng.randint(1, 4)
        for n in zk:
            sels.append([n, ['l', [rng.randint(-dl[n], dl[n] - 1) for _ in range(ln)]]])
        for n in chosen:
            if n not in zk:
                sels.append([n, _sel(rng, dl[n], rng.choice(['int', 'slice']))])
    else:
        nl = 0
        for n in chosen:
            s = _sel(rng, dl[n])
            if s[0] == 'l':
                nl += 1
                if nl > 1:
                    s = _sel(rng, dl[n], 'slice')
            sels.append([n, s])
    rng.shuffle(sels)
    if malformed:
        m = rng.choice(['key', 'index', 'lens', 'step'])
        if m == 'key':
            sels.append(['nosuchdim', ['i', 0]])
        elif m == 'index':
            n = rng.choice(names)
            sels = [s for s in sels if s[0] != n] + [[n, ['i', dl[n] + rng.randint(0, 2)]]]
        elif m == 'lens' and len(names) >= 2:
            a, b = rng.sample(names, 2)
            sels = [s for s in sels if s[0] not in (a, b)] + [[a, ['l', [0]]], [b, ['l', [0, 0]]]]
        else:
            n = rng.choice(names)
            sels = [s for s in sels if s[0] != n] + [[n, ['s', None, None, 0]]]
    return dict(spec=spec, sels=sels)


def gen(rng, tier):
    n = 400 if tier == 'quick' else 12000
    return [_case(rng, malformed=(i % 10 == 9)) for i in range(n)]


def _py(sel):
    if sel[0] == 'i':
        return sel[1]
    if sel[0] == 's':
        return slice(sel[1], sel[2], sel[3])
    return list(sel[1])


def impl(case):
    f = pfile.build(case['spec'])
    kw = {k: _py(s) for k, s in case['sels']}
    try:
        with lib.pnc_warnings():
            o = f.sliceDimensions(newdims=('POINTS',), **kw)
        return dict(obs=pfile.observe(o))
    except Exception as e:
        return dict(err=type(e).__name__, msg=str(e)[:100])


def _tok(sel):
    if sel[0] == 'i':
        return 'i%d' % sel[1]
    if sel[0] == 's':
        f = lambda v: '_' if v is None else str(v)
        return 's%s:%s:%d' % (f(sel[1]), f(sel[2]), sel[3])
    return 'l' + lib.show_list(sel[1])


def to_line(case, res):
    d, v, a = pfile.encode(case['spec'])
    sels = ';'.join('%s=%s' % (k, _tok(s)) for k, s in case['sels']) or '-'
    return 'c02 slice %s %s %s %s POINTS' % (d, v, a, sels)


def agree(case, out, res):
    if 'err' in res:
        return None if out.startswith('err') else 'impl raised %s (%s), model %s' % (res['err'], res.get('msg'), out[:80])
    if not out.startswith('ok '):
        return 'model %s, impl returned' % out[:80]
    return pfile.diff_obs(out[3:], res['obs'])


def oracle(case, res):
    """independent statement of the property with numpy.take per axis / explicit zipping"""
    spec = case['spec']
    dl = {d[0]: d[1] for d in spec['dims']}
    sels = dict((k, s) for k, s in case['sels'])
    bad = any(k not in dl for k in sels)
    lists = [k for k, s in sels.items() if s[0] == 'l']
    if not bad:
        for k, s in sels.items():
            n = dl[k]
            if s[0] == 'i' and not -n <= s[1] < n:
                bad = True
            if s[0] == 'l' and any(not -n <= i < n for i in s[1]):
                bad = True
            if s[0] == 's' and s[3] == 0:
                bad = True
        if len(lists) >= 2 and len({len(sels[k][1]) for k in lists}) > 1:
            bad = True
    if 'err' in res:
        return None if bad else 'in-domain selection raised %s %s' % (res['err'], res.get('msg'))
    if bad:
        return None     # outside the documented domain: any well-formed result is acceptable here (C01 checks it)
    got = pfile.parse_obs(res['obs'])
    zipped = len(lists) >= 2
    idx = {}
    for k, s in sels.items():
        n = dl[k]
        if s[0] == 'i':
            idx[k] = [s[1] % n]
        elif s[0] == 's':
            idx[k] = list(range(n))[slice(s[1], s[2], s[3])]
        else:
            idx[k] = [i % n for i in s[1]]
    for k, n in dl.items():
        want = len(idx[k]) if k in idx else n
        if got['dims'].get(k, (None,))[0] != want:
            return 'dimension %s has length %s, expected %d' % (k, got['dims'].get(k), want)
    for v in spec['vars']:
        shape = pfile.shape_of(spec, v)
        vals = np.array([-1 if x is None else x for x in v['data']], dtype=object).reshape(shape) if shape else \
            np.array(v['data'][0] if v['data'][0] is not None else -1, dtype=object)
        zl = [k for k in v['dims'] if zipped and k in lists]
        if len(zl) >= 2:
            L = len(sels[zl[0]][1])
            first = v['dims'].index(zl[0])
            pts = []
            for p in range(L):
                a = vals
                # take along every axis; zipped axes take the single p-th index
                for ax, k in enumerate(v['dims']):
                    if k in zl:
                        a = np.take(a, [idx[k][p]], axis=ax)
                    elif k in idx:
                        a = np.take(a, idx[k], axis=ax)
                # drop the zipped axes (all length 1), insert the point axis
                keep = [ax for ax, k in enumerate(v['dims']) if k not in zl]
                a = a.reshape([a.shape[ax] for ax in keep])
                pts.append(np.expand_dims(a, first - sum(1 for k in v['dims'][:first] if k in zl)))
            want = np.concatenate(pts, axis=first)
            wdims = [k for k in v['dims'] if k not in zl]
            wdims.insert(first, 'POINTS')
        else:
            a = vals
            for ax, k in enumerate(v['dims']):
                if k in idx:
                    a = np.take(a, idx[k], axis=ax)
            want = a
            wdims = list(v['dims'])
        g = got['vars'].get(v['name'])
        if g is None:
            return 'variable %s disappeared' % v['name']
        if g['dims'] != ('.'.join(wdims) or '-'):
            return 'variable %s has dimensions %s, expected %s' % (v['name'], g['dims'], wdims)
        wcells = lib.show_list(['_' if x == -1 else str(x) for x in np.asarray(want, dtype=object).ravel().tolist()])
        if g['cells'] != wcells:
            return 'variable %s holds %s, an orthogonal selection gives %s' % (v['name'], g['cells'][:120], wcells[:120])
        if g['attrs'] != ('.'.join(sorted(v['attrs'])) or '-'):
            return 'variable %s attributes %s, expected %s' % (v['name'], g['attrs'], sorted(v['attrs']))
    return None


def classify(case, failure, model_out):
    return None


def nontrivial(case, res):
    sel = {k for k, s in case['sels']}
    has = [bool(set(v['dims']) & sel) for v in case['spec']['vars']]
    lists = [k for k, s in case['sels'] if s[0] == 'l']
    return (any(has) and not all(has)) or len(lists) >= 2


def distribution(recs):
    d = {}
    for r in recs:
        for k, s in r['case']['sels']:
            d['sel_' + s[0]] = d.get('sel_' + s[0], 0) + 1
        if len([1 for k, s in r['case']['sels'] if s[0] == 'l']) >= 2:
            d['zipped'] = d.get('zipped', 0) + 1
        if 'err' in r['impl']:
            d['err_' + r['impl']['err']] = d.get('err_' + r['impl']['err'], 0) + 1
    return d
