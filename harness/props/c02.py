"""C02 — sliceDimensions (core/_files.py) against lean/PncModel/File.lean sliceFile"""
import itertools

import numpy as np

from .. import lib, pfile

ID = 'C02'
LEAN_MODULE = 'PncProofs.C02Files'     # imports PncProofs.C02 through PncProofs.C01Files
LEAN_FILE = 'PncProofs/C02.lean'
MORE_LEAN_FILES = ['PncProofs/C02Files.lean']
NAMESPACE = 'Props.C02'
LEAN_CONE = ['PncModel.Arr', 'PncModel.NsStep', 'PncModel.Generated.NamespaceOrder', 'PncModel.File', 'PncProofs.ArrLemmas', 'PncProofs.ZipLemmas', 'PncProofs.C02',
             'PncProofs.FiberLemmas', 'PncProofs.C03', 'PncProofs.C04', 'PncProofs.C01', 'PncProofs.StackLemmas', 'PncProofs.SliceLemmas', 'PncProofs.C01Files', 'PncProofs.C02Files']
LEMMA_FILES = ['PncProofs/ArrLemmas.lean', 'PncProofs/ZipLemmas.lean']
REQUIRED_THEOREMS = ['orth_get', 'orth_shape', 'orth_full_id', 'normInt_lt', 'sliceIndices_lt', 'indices_lt',
                     'int_keeps_unit_axis', 'zip_get', 'zip_shape', 'sliceVar_orth_get', 'sliceVar_zip_get', 'slice_orth_cells']
RULE = ('[integers given as python ints or numpy integers; a fixed-width string variable (S8 / U8) along one dimension in a quarter of the cases] ' +
        'random files (1-5 dimensions incl. length-1 and unlimited, 1-6 variables of rank 0-4 over different '
        'dimension subsets and orders, coordinate variables, masked and unmasked, int/float dtypes, distinct '
        'integer tokens in every cell) x selectors over a random subset of dimensions in random keyword '
        'order: positive/negative ints, slices with None/negative/out-of-range bounds and steps +-1,+-2,3 '
        '(empty and reversed included), index lists with repeats and negatives, 2-3 equal-length lists (zipped), '
        'plus a malformed stream (unknown dimension, index out of range, unequal list lengths, zero step); the string front end '
        'slice_dim (dim,i / dim,a,b / dim,a,b,stride incl. None, negative and reversed ranges) against the same model; IOAPI files '
        'through ioapi_base.sliceDimensions (windows, index list next to an integer, uneven index lists along TSTEP) against '
        'numpy.take on the source arrays, TFLAG included; '
        'non-trivial = some variable has a selected dimension and another does not, or lists are zipped; masked variables without a fill attribute and with fill value 0; IOAPI variables with descriptive attributes (every attribute compared after slicing)')
ASSUMPTIONS = ['numpy basic/advanced indexing and masked-array assignment behave as the orthogonal model says '
               '(exercised, not proved)']
MIN_NONTRIVIAL = {'quick': 100, 'thorough': 1000}


def _sel(rng, n, kind=None):
    kind = kind or rng.choice(['int', 'int', 'slice', 'slice', 'slice', 'list'])
    if kind == 'int':
        # a python int or a numpy integer (what argmax / where / searchsorted return)
        return ['i', rng.randint(-n, n - 1) if n else 0] + (['np'] if rng.random() < 0.35 else [])
    if kind == 'slice':
        def b():
            return rng.choice([None, None, rng.randint(-n - 2, n + 2)])
        return ['s', b(), b(), rng.choice([1, 1, 1, -1, 2, -2, 3])]
    ln = rng.randint(1, 4)
    return ['l', [rng.randint(-n, n - 1) if n else 0 for _ in range(ln)]]


def _case(rng, malformed=False):
    c = _case0(rng, malformed)
    if not malformed and rng.random() < 0.25:
        c['labels'] = [rng.choice([d[0] for d in c['spec']['dims']]), rng.choice(['S8', 'U8'])]
    lists = [k for k, s_ in c['sels'] if s_[0] == 'l']
    if not malformed and len(lists) >= 2 and rng.random() < 0.5:
        # a 64-bit integer variable (identifiers, nanosecond times: values a double cannot hold) on two of the listed
        # dimensions: the pointwise selection moves values, it does not compute with them (oracle only)
        c['bigint'] = lists[:2]
    return c


def _case0(rng, malformed=False):
    spec = pfile.drop_fill_attrs(rng, pfile.gen_file(rng))
    dl = {d[0]: d[1] for d in spec['dims']}
    names = list(dl)
    k = rng.randint(1, min(3, len(names)))
    chosen = rng.sample(names, k)
    sels = []
    mode = rng.random()
    if mode < 0.3 and len(names) >= 2:
        # zipped: 2..3 lists of equal length
        zk = rng.sample(names, rng.randint(2, min(3, len(names))))
        ln = rng.randint(1, 4)
        for n in zk:
            sels.append([n, ['l', [rng.randint(-dl[n], dl[n] - 1) for _ in range(ln)]]])
        for n in chosen:
            if n not in zk:
                sels.append([n, _sel(rng, dl[n], rng.choice(['int', 'slice']))])
        rest = [n for n in names if n not in zk and n not in chosen]
        if rest and rng.random() < 0.6:
            # an integer next to the index lists (variables that have only one of the listed dimensions see an
            # ordinary list + integer selection)
            n = rng.choice(rest)
            sels.append([n, _sel(rng, dl[n], 'int')])
    else:
        nl = 0
        for n in chosen:
            s = _sel(rng, dl[n])
            if s[0] == 'l':
                nl += 1
                if nl > 1:
                    s = _sel(rng, dl[n], 'slice')
            sels.append([n, s])
    rng.shuffle(sels)
    if malformed:
        m = rng.choice(['key', 'index', 'lens', 'step'])
        if m == 'key':
            sels.append(['nosuchdim', ['i', 0]])
        elif m == 'index':
            n = rng.choice(names)
            sels = [s for s in sels if s[0] != n] + [[n, ['i', dl[n] + rng.randint(0, 2)]]]
        elif m == 'lens' and len(names) >= 2:
            a, b = rng.sample(names, 2)
            sels = [s for s in sels if s[0] not in (a, b)] + [[a, ['l', [0]]], [b, ['l', [0, 0]]]]
        else:
            n = rng.choice(names)
            sels = [s for s in sels if s[0] != n] + [[n, ['s', None, None, 0]]]
    return dict(spec=spec, sels=sels)


def _mixed_case(rng):
    """pointwise lists plus an integer on a file where some variables have only ONE of the listed dimensions, the
    integer dimension and an untouched dimension in between (numpy would move the list axis to the front)"""
    names = ['t', 'z', 'y', 'x']
    dl = {n: rng.randint(2, 4) for n in names}
    dims = [[n, dl[n], n == 't' and rng.random() < 0.3] for n in names]
    shapes = [['t', 'z', 'y', 'x'], ['t', 'z', 'y'], ['t', 'z', 'x'], ['z', 't', 'x'], ['y', 'x'], ['t', 'y'], ['z']]
    rng.shuffle(shapes)
    vs = [pfile._mkvar(rng, 'V%d' % i, vd, dl, i, rng.random() < 0.3) for i, vd in enumerate(shapes[:rng.randint(3, 6)])]
    spec = dict(dims=dims, vars=vs, attrs=[])
    ln = rng.randint(1, 4)
    lists = rng.choice([['y', 'x'], ['y', 'x'], ['z', 'x'], ['t', 'y']])
    sels = [[n, ['l', [rng.randint(-dl[n], dl[n] - 1) for _ in range(ln)]]] for n in lists]
    others = [n for n in names if n not in lists]
    n1 = rng.choice(others)
    sels.append([n1, ['i', rng.randint(-dl[n1], dl[n1] - 1)]])
    if rng.random() < 0.3:
        n2 = [n for n in others if n != n1][0]
        sels.append([n2, _sel(rng, dl[n2], rng.choice(['int', 'slice']))])
    rng.shuffle(sels)
    return dict(spec=spec, sels=sels)


def _npint_case(rng):
    """ONE index list next to integers that are numpy integers (argmax / where results), on files whose variables carry
    the integer axis before and after the list axis (numpy's mixed advanced indexing would move the list axis)"""
    names = ['t', 'z', 'y', 'x']
    dl = {n: rng.randint(2, 4) for n in names}
    dims = [[n, dl[n], n == 't' and rng.random() < 0.3] for n in names]
    shapes = [['t', 'z', 'y', 'x'], ['z', 'y', 'x'], ['x', 'z'], ['t', 'x'], ['x', 't', 'y'], ['y', 'z']]
    rng.shuffle(shapes)
    vs = [pfile._mkvar(rng, 'V%d' % i, vd, dl, i, rng.random() < 0.3) for i, vd in enumerate(shapes[:rng.randint(3, 6)])]
    spec = dict(dims=dims, vars=vs, attrs=[])
    ln_ = rng.choice(names)
    sels = [[ln_, ['l', [rng.randint(-dl[ln_], dl[ln_] - 1) for _ in range(rng.randint(1, 4))]]]]
    for n in rng.sample([n for n in names if n != ln_], rng.randint(1, 2)):
        sels.append([n, ['i', rng.randint(-dl[n], dl[n] - 1), 'np']])
    rng.shuffle(sels)
    return dict(spec=spec, sels=sels)


def _bool_case(rng):
    """ONE index list given as a boolean mask over the dimension (lat=(f.variables['lat'][:] > 20)): numpy's meaning is the list
    of the True positions, the model is asked with that list"""
    while True:
        c = _case0(rng)
        lists = [(k, s_) for k, s_ in c['sels'] if s_[0] == 'l']
        if len(lists) == 1:
            break
    k, s_ = lists[0]
    n = {d[0]: d[1] for d in c['spec']['dims']}[k]
    s_[1] = sorted(set(i % n for i in s_[1])) if n else []
    c['asbool'] = [k]
    return c


def _disk_case(rng):
    """the same selection on the file saved to netCDF and opened again (its variables are handles on the disk file, read
    through netCDF4's own indexing): dimensions and every cell as for the file in memory (oracle only, differential)"""
    c = _case0(rng)
    # negative strides of every phase
    for k, s_ in c['sels']:
        if s_[0] == 's' and rng.random() < 0.6:
            s_[3] = rng.choice([-1, -2, -2, -3, 2])
            if rng.random() < 0.5:
                s_[1] = s_[2] = None
    # netCDF keeps no length for an unlimited dimension that no variable has
    used = set(k for v in c['spec']['vars'] for k in v['dims'])
    for d in c['spec']['dims']:
        if d[0] not in used:
            d[2] = False
    c['disk'] = True
    return c


def _legacy_case(rng):
    """the string front end slice_dim(f, 'dim,start[,stop[,stride]]')"""
    spec = pfile.gen_file(rng)
    dl = {d[0]: d[1] for d in spec['dims']}
    n = rng.choice(list(dl))
    if rng.random() < 0.25 and len(dl) >= 2:
        # a variable that has the selected dimension on two axes (a covariance matrix): both are cut
        o = rng.choice([k for k in dl if k != n])
        spec['vars'].append(pfile._mkvar(rng, 'COV', rng.choice([[n, n], [n, o, n], [o, n, n]]), dl, 7, rng.random() < 0.3))
    if rng.random() < 0.2 and len(dl) >= 2:
        # another dimension whose name merely begins with the selected name (west_east / west_east_stag): only numbered
        # companions (LAY, LAY1) are cut along
        o = rng.choice([k for k in dl if k != n])
        new = n + rng.choice(['_stag', 's', '_bnds'])
        for d in spec['dims']:
            if d[0] == o:
                d[0] = new
        for v in spec['vars']:
            v['dims'] = [new if k == o else k for k in v['dims']]
            if v['name'] == o:
                v['name'] = new
        dl = {d[0]: d[1] for d in spec['dims']}
    L = dl[n]
    form = rng.choice(['i', 'ab', 'abs', 'abs', 'abs'])
    if form == 'i':
        # one index, also counted from the end (-1 is the last element)
        a = rng.randint(-L, max(L - 1, 0)) if L else 0
        return dict(kind='legacy', spec=spec, text='%s,%d' % (n, a), sels=[[n, ['s', a, (a + 1) or None, 1]]])
    a = rng.choice([None, rng.randint(-L - 1, L + 1)])
    b = rng.choice([None, rng.randint(-L - 1, L + 1)])
    if form == 'ab':
        return dict(kind='legacy', spec=spec, text='%s,%s,%s' % (n, a, b), sels=[[n, ['s', a, b, 1]]])
    st = rng.choice([1, 2, -1, -2, 3])
    return dict(kind='legacy', spec=spec, text='%s,%s,%s,%d' % (n, a, b, st), sels=[[n, ['s', a, b, st]]])


def _twostep_case(rng):
    """a pointwise selection of a file that already has the dimension of an earlier pointwise selection: refused, or a
    well-formed file that holds the requested cells (oracle only)"""
    nt, nz, ny, nx = rng.randint(2, 3), rng.randint(2, 3), rng.randint(2, 4), rng.randint(2, 4)
    n1, n2 = rng.randint(1, 3), rng.randint(1, 3)
    return dict(kind='twostep', sels=[], shape=[nt, nz, ny, nx],
                first=[[rng.randrange(ny) for _ in range(n1)], [rng.randrange(nx) for _ in range(n1)]],
                second=[[rng.randrange(nt) for _ in range(n2)], [rng.randrange(nz) for _ in range(n2)]],
                named=rng.random() < 0.4)


def _ndpoints_case(rng):
    """the documented N-D form of the pointwise selection: index arrays of one 2-D shape and as many new dimension names:
    the result is numpy's A[:, :, iy, ix], the new dimensions have the lengths of the index arrays' axes (oracle only)"""
    nt, nz, ny, nx = rng.randint(1, 3), rng.randint(1, 2), rng.randint(2, 4), rng.randint(2, 5)
    p, q = rng.randint(1, 3), rng.randint(2, 3)
    return dict(kind='twostep', nd=True, sels=[], shape=[nt, nz, ny, nx], named=True, second=[[], []],
                first=[[[rng.randrange(ny) for _ in range(q)] for _ in range(p)], [[rng.randrange(nx) for _ in range(q)] for _ in range(p)]])


def _ioapi_case(rng):
    from . import c10
    return dict(kind='ioapi', sels=[], c10=dict(src=c10._src(rng), recipes=[
        [rng.choice(['slice', 'slice2', 'slicerc', 'slicet', 'slicet'])] + [rng.randrange(1 << 20) for _ in range(6)]]))


def _repeat_case(rng):
    """a variable that carries one dimension on two axes (a covariance or transition matrix), the dimension selected by an
    integer, a slice or ONE index list: the selection applies to each of the axes"""
    while True:
        spec = pfile.gen_file(rng, ndims=rng.randint(2, 3), minlen=2, len1_prob=0.0, scalar_prob=0.0)
        dl = {d[0]: d[1] for d in spec['dims']}
        names = list(dl)
        d = rng.choice(names)
        vd = rng.choice([[d, d], [d, rng.choice([n for n in names if n != d]), d], [rng.choice([n for n in names if n != d]), d, d]])
        spec['vars'].append(pfile._mkvar(rng, 'COV', vd, dl, 7, rng.random() < 0.3))
        sels = [[d, _sel(rng, dl[d], rng.choice(['list', 'list', 'slice', 'int']))]]
        other = [n for n in names if n != d]
        if other and rng.random() < 0.4:
            n = rng.choice(other)
            sels.append([n, _sel(rng, dl[n], rng.choice(['slice', 'int']))])
        return dict(spec=spec, sels=sels)


def gen(rng, tier):
    n = 400 if tier == 'quick' else 12000
    out = [_case(rng, malformed=(i % 10 == 9)) for i in range(n)]
    out += [_repeat_case(rng) for _ in range(n // 10)]
    out += [_mixed_case(rng) for _ in range(n // 8)]
    out += [_npint_case(rng) for _ in range(n // 10)]
    out += [_legacy_case(rng) for _ in range(n // 8)]
    out += [_twostep_case(rng) for _ in range(n // 40)]
    out += [_ndpoints_case(rng) for _ in range(max(2, n // 100))]
    out += [_ioapi_case(rng) for _ in range(n // 8)]
    out += [_bool_case(rng) for _ in range(n // 20)]
    out += [_disk_case(rng) for _ in range(n // 20)]
    # the string front end applied twice with one and the same definition (its own history text is on the file by then)
    for _ in range(n // 40):
        c = _legacy_case(rng)
        c['twice'] = True
        out.append(c)
    return out


def _py(sel):
    if sel[0] == 'b':
        # a boolean mask over the dimension (length sel[2]): numpy's meaning is the list of the True positions
        m = np.zeros(sel[2], dtype=bool)
        m[list(sel[1])] = True
        return m
    if sel[0] == 'i':
        return np.int64(sel[1]) if len(sel) > 2 else sel[1]
    if sel[0] == 's':
        return slice(sel[1], sel[2], sel[3])
    return list(sel[1])


def _impl_ioapi(case):
    """an IOAPI file sliced through ioapi_base.sliceDimensions: every variable against numpy.take per axis on the
    source arrays (TFLAG included: the selected rows are kept)"""
    import os
    from . import c10
    with lib.pnc_warnings():
        f, path = c10.build(case['c10']['src'])
        try:
            op = c10.resolve(case['c10']['recipes'][0], f)
            if op[0] != 'slice':
                return dict(skip=True, op=op)
            # descriptive attributes that differ from what the IOAPI conventions would regenerate from the key
            for k, v in f.variables.items():
                if k != 'TFLAG' and 'TSTEP' in v.dimensions and case['c10']['src']['kind'] != 'disk':
                    v.long_name = ('Descr ' + k)[:16].ljust(16)
                    v.note = 'kept with ' + k
            srcattrs = {k: {a: getattr(v, a) for a in v.ncattrs()} for k, v in f.variables.items()}
            try:
                with np.errstate(all='ignore'):
                    g = c10.apply_op(f, op)
            except Exception as e:
                return dict(err=type(e).__name__, msg=str(e)[:100], op=op)
            bad = None
            kw = {d: w for d, w in op[1]}
            for k, v in f.variables.items():
                a = np.asarray(v[...])
                for ax, d in enumerate(v.dimensions):
                    if d in kw:
                        w = kw[d]
                        n = a.shape[ax]
                        if w[0] == 'i':
                            ix = [w[1] % n]
                        elif w[0] == 'l':
                            ix = [i % n for i in w[1]]
                        elif w[0] == 's':
                            ix = list(range(n))[slice(w[1], w[2])]
                        else:
                            ix = list(range(n))[slice(w[1], w[2], w[3])]
                        a = np.take(a, ix, axis=ax)
                if k not in g.variables:
                    bad = 'variable %s disappeared' % k
                    break
                got = np.asarray(g.variables[k][...])
                if k == 'TFLAG' and got.shape[1:2] != a.shape[1:2]:
                    a = a[:, :got.shape[1]] if got.shape[1] <= a.shape[1] else a
                if got.shape != a.shape or not np.array_equal(got, a):
                    bad = 'variable %s after %s: shape %s, orthogonal selection gives shape %s%s' % (
                        k, op, got.shape, a.shape, '' if got.shape != a.shape else ' with other values')
                    break
                if k != 'TFLAG':
                    gv = g.variables[k]
                    for an, av in srcattrs[k].items():
                        if an not in gv.ncattrs() or str(getattr(gv, an)) != str(av):
                            bad = 'variable %s after %s: attribute %s was %r, is %r' % (
                                k, op, an, av, getattr(gv, an, None))
                            break
                    if bad:
                        break
            return dict(op=op, bad=bad)
        finally:
            if path and os.path.exists(path):
                os.remove(path)


def impl(case):
    if case.get('kind') == 'ioapi':
        return _impl_ioapi(case)
    if case.get('kind') == 'twostep':
        import PseudoNetCDF as pnc
        f = pnc.PseudoNetCDFFile()
        for k, n in zip('tzyx', case['shape']):
            f.createDimension(k, n)
        v = f.createVariable('A', 'd', tuple('tzyx'))
        v[:] = np.arange(int(np.prod(case['shape']))).reshape(case['shape'])
        try:
            with lib.pnc_warnings():
                if case.get('nd'):
                    h = f.sliceDimensions(newdims=('PA', 'PB'), y=np.array(case['first'][0]), x=np.array(case['first'][1]))
                else:
                    g = f.sliceDimensions(y=case['first'][0], x=case['first'][1])
                    kw = dict(newdims=('P2',)) if case['named'] else {}
                    h = g.sliceDimensions(t=case['second'][0], z=case['second'][1], **kw)
            a = h.variables['A']
            return dict(dims=list(a.dimensions), shape=list(a.shape), lens=[len(h.dimensions[d]) for d in a.dimensions],
                        vals=np.asarray(a[:], dtype='d').ravel().tolist())
        except Exception as e:
            return dict(err=type(e).__name__, msg=str(e)[:100])
    if case.get('kind') == 'legacy':
        from PseudoNetCDF.core._functions import slice_dim
        f = pfile.build(case['spec'])
        try:
            with lib.pnc_warnings():
                o = slice_dim(f, case['text'])
                extra = {}
                if case.get('twice'):
                    # again, with the same text; the method form twice is the reference
                    o2 = slice_dim(o, case['text'])
                    kw = {k: _py(s_) for k, s_ in case['sels']}
                    r2 = pfile.build(case['spec']).sliceDimensions(**kw).sliceDimensions(**kw)
                    extra['twice_diff'] = _vardiff(pfile.parse_obs(pfile.observe(r2, spec=case['spec'])),
                                                   pfile.parse_obs(pfile.observe(o2, spec=case['spec'])))
            return dict(obs=pfile.observe(o, spec=case['spec']), **extra)
        except Exception as e:
            return dict(err=type(e).__name__, msg=str(e)[:100])
    f = pfile.build(case['spec'])
    kw = {k: _py(s) for k, s in case['sels']}
    for k in case.get('asbool', []):
        n = {d[0]: d[1] for d in case['spec']['dims']}[k]
        m = np.zeros(n, dtype=bool)
        m[list(kw[k])] = True
        kw[k] = m
    lab = case.get('labels')
    if lab:
        # a variable of fixed-width strings (station names, labels) along one dimension: outside the numeric model,
        # judged by the oracle alone
        n = {d[0]: d[1] for d in case['spec']['dims']}[lab[0]]
        lv = f.createVariable('LABELS', lab[1], (lab[0],))
        lv[:] = np.array(_labels(n), dtype=lab[1])
    big = case.get('bigint')
    if big:
        dlb = {d[0]: d[1] for d in case['spec']['dims']}
        bv = f.createVariable('BIGID', 'q', tuple(big))
        bv[:] = (1700000019123456789 + 1001 * np.arange(dlb[big[0]] * dlb[big[1]], dtype='q')).reshape(dlb[big[0]], dlb[big[1]])
    try:
        with lib.pnc_warnings():
            o = f.sliceDimensions(newdims=('POINTS',), **kw)
        extra = {}
        if big:
            bo = o.variables.pop('BIGID')
            extra.update(big=[int(x) for x in np.asarray(bo[...]).ravel().tolist()], big_dims=list(bo.dimensions),
                         big_dtype=str(np.asarray(bo[...]).dtype))
        if lab:
            lo = o.variables.pop('LABELS')
            extra = dict(labels=[x.decode() if isinstance(x, bytes) else str(x) for x in np.asarray(lo[...]).ravel().tolist()],
                         labels_dims=list(lo.dimensions), labels_dtype=np.asarray(lo[...]).dtype.str[1:])
        if case.get('disk'):
            import os
            import PseudoNetCDF as pnc
            from .. import camx
            path = os.path.join(camx.tmpdir(), 'c02d_%d_%d.nc' % (os.getpid(), np.random.randint(1 << 30)))
            try:
                pfile.build(case['spec']).save(path, format=pfile.disk_format(case['spec']), verbose=0).close()
                fd = pnc.pncopen(path, format='netcdf')
                with lib.pnc_warnings():
                    od = fd.sliceDimensions(newdims=('POINTS',), **kw)
                extra['disk_diff'] = _vardiff(pfile.parse_obs(pfile.observe(o, spec=case['spec'])),
                                              pfile.parse_obs(pfile.observe(od, spec=case['spec'])))
            finally:
                if os.path.exists(path):
                    os.remove(path)
        return dict(obs=pfile.observe(o, spec=case['spec']), **extra)
    except Exception as e:
        return dict(err=type(e).__name__, msg=str(e)[:100])
    finally:
        pass


def _vardiff(a, b):
    """dimension lengths and every variable's dimensions, shape and cells of two observations (attributes aside; a dimension
    that no variable has is left out: netCDF keeps no length for an unlimited dimension without records)"""
    used = set(k for v in a['vars'].values() for k in v['dims'].split('.'))
    for k in a['dims']:
        if k in used and a['dims'][k][0] != b['dims'].get(k, (None,))[0]:
            return 'dimension %s: %s against %s' % (k, a['dims'][k], b['dims'].get(k))
    for k, v in a['vars'].items():
        w = b['vars'].get(k)
        if w is None or (v['dims'], v['shape'], v['cells']) != (w['dims'], w['shape'], w['cells']):
            return 'variable %s: %s against %s' % (k, (v['dims'], v['shape'], v['cells'][:80]), w and (w['dims'], w['shape'], w['cells'][:80]))
    return None


def _labels(n):
    return ['st%d_%s' % (i, 'abcdefgh'[i % 8] * 3) for i in range(n)]


def _tok(sel):
    if sel[0] == 'b':
        return 'l' + lib.show_list(sel[1])
    if sel[0] == 'i':
        return 'i%d' % sel[1]
    if sel[0] == 's':
        f = lambda v: '_' if v is None else str(v)
        return 's%s:%s:%d' % (f(sel[1]), f(sel[2]), sel[3])
    return 'l' + lib.show_list(sel[1])


def to_line(case, res):
    if case.get('kind') in ('ioapi', 'twostep'):
        return 'c02 slice x:1:f - - - POINTS'
    d, v, a = pfile.encode(case['spec'])
    sels = ';'.join('%s=%s' % (k, _tok(s)) for k, s in case['sels']) or '-'
    return 'c02 slice %s %s %s %s POINTS' % (d, v, a, sels)


def agree(case, out, res):
    if case.get('kind') in ('ioapi', 'twostep'):
        return None                 # the IOAPI metadata model is C10's; here the data are judged by the oracle
    if case.get('kind') == 'legacy' and 'obs' in res and out.startswith('ok '):
        # the string front end adds a history attribute and copies through another path: compare dimensions and variables
        a, b = pfile.parse_obs(out[3:]), pfile.parse_obs(res['obs'])
        for k in a['dims']:
            if a['dims'][k][0] != b['dims'].get(k, (None,))[0]:
                return 'slice_dim: dimension %s model=%s impl=%s' % (k, a['dims'][k], b['dims'].get(k))
        for k, v in a['vars'].items():
            w = b['vars'].get(k)
            if w is None or (v['dims'], v['shape'], v['cells']) != (w['dims'], w['shape'], w['cells']):
                return 'slice_dim: variable %s model=%s impl=%s' % (k, (v['dims'], v['shape'], v['cells'][:60]), w and (w['dims'], w['shape'], w['cells'][:60]))
        return None
    if 'err' in res:
        return None if out.startswith('err') else 'impl raised %s (%s), model %s' % (res['err'], res.get('msg'), out[:80])
    if not out.startswith('ok '):
        return 'model %s, impl returned' % out[:80]
    return pfile.diff_obs(out[3:], res['obs'])


def oracle(case, res):
    """independent statement of the property with numpy.take per axis / explicit zipping"""
    if case.get('kind') == 'twostep':
        if 'err' in res:
            if case.get('nd'):
                return 'a pointwise selection with 2-D index arrays and two new dimension names raised %s %s' % (res['err'], res.get('msg'))
            if case['named']:
                return 'a second pointwise selection with a new dimension name raised %s %s' % (res['err'], res.get('msg'))
            return None if res['err'] == 'ValueError' else 'a second pointwise selection raised %s %s' % (res['err'], res.get('msg'))
        src = np.arange(int(np.prod(case['shape']))).reshape(case['shape'])
        one = src[:, :, np.array(case['first'][0]), np.array(case['first'][1])]                # (t, z, POINTS) or (t, z, PA, PB)
        want = one if case.get('nd') else one[case['second'][0], case['second'][1], :]         # (second points, POINTS)
        if len(set(res['dims'])) != len(res['dims']) or res['shape'] != res['lens'] or res['shape'] != list(want.shape) or \
                res['vals'] != want.astype('d').ravel().tolist():
            return 'two pointwise selections in a row: dimensions %s shape %s (dimension lengths %s) values %s, the cells asked for are %s' % (
                res['dims'], res['shape'], res['lens'], res['vals'][:6], want.ravel().tolist()[:6])
        return None
    if case.get('kind') == 'ioapi':
        if res.get('skip'):
            return None
        if 'err' in res:
            return None             # windows outside the wrapper's domain (C10 compares raise / no raise with its model)
        return res.get('bad')
    if res.get('twice_diff'):
        return "slice_dim(f, '%s') applied twice differs from the method form applied twice: %s" % (case['text'], res['twice_diff'])
    if res.get('disk_diff'):
        return 'the selection on the file opened from netCDF differs from the same selection in memory: %s' % res['disk_diff']
    spec = case['spec']
    dl = {d[0]: d[1] for d in spec['dims']}
    sels = dict((k, s) for k, s in case['sels'])
    bad = any(k not in dl for k in sels)
    lists = [k for k, s in sels.items() if s[0] == 'l']
    if not bad:
        for k, s in sels.items():
            n = dl[k]
            if s[0] == 'i' and not -n <= s[1] < n:
                bad = True
            if s[0] == 'l' and any(not -n <= i < n for i in s[1]):
                bad = True
            if s[0] == 's' and s[3] == 0:
                bad = True
        if len(lists) >= 2 and len({len(sels[k][1]) for k in lists}) > 1:
            bad = True
    if 'err' in res:
        return None if bad else 'in-domain selection raised %s %s' % (res['err'], res.get('msg'))
    if bad:
        return None     # outside the documented domain: any well-formed result is acceptable here (C01 checks it)
    got = pfile.parse_obs(res['obs'])
    zipped = len(lists) >= 2
    idx = {}
    for k, s in sels.items():
        n = dl[k]
        if s[0] == 'i':
            idx[k] = [s[1] % n]
        elif s[0] == 's':
            idx[k] = list(range(n))[slice(s[1], s[2], s[3])]
        else:
            idx[k] = [i % n for i in s[1]]
    if case.get('bigint') and 'big' in res:
        b0, b1 = case['bigint']
        src = (1700000019123456789 + 1001 * np.arange(dl[b0] * dl[b1], dtype='q')).reshape(dl[b0], dl[b1])
        want = [int(src[i, j]) for i, j in zip(idx[b0], idx[b1])]
        if res['big'] != want or res['big_dims'] != ['POINTS'] or res['big_dtype'] != 'int64':
            return 'int64 variable BIGID(%s, %s) under the pointwise selection: %s %s %s, the selected cells are %s' % (
                b0, b1, res['big'][:3], res['big_dims'], res['big_dtype'], want[:3])
    lab = case.get('labels')
    if lab and 'labels' in res and not zipped:
        # the string variable: the same orthogonal selection, every character kept, the dtype unchanged
        full = _labels(dl[lab[0]])
        want = [full[i] for i in idx[lab[0]]] if lab[0] in idx else full
        if res['labels'] != want or res['labels_dims'] != [lab[0]] or res['labels_dtype'] != lab[1]:
            return 'string variable LABELS(%s) of type %s: %s %s %s, the selection gives %s' % (
                lab[0], lab[1], res['labels'], res['labels_dims'], res['labels_dtype'], want)
    for k, n in dl.items():
        want = len(idx[k]) if k in idx else n
        if got['dims'].get(k, (None,))[0] != want:
            return 'dimension %s has length %s, expected %d' % (k, got['dims'].get(k), want)
    for v in spec['vars']:
        shape = pfile.shape_of(spec, v)
        vals = np.array([-1 if x is None else x for x in v['data']], dtype=object).reshape(shape) if shape else \
            np.array(v['data'][0] if v['data'][0] is not None else -1, dtype=object)
        zl = [k for k in v['dims'] if zipped and k in lists]
        if len(zl) >= 2:
            L = len(sels[zl[0]][1])
            first = v['dims'].index(zl[0])
            pts = []
            for p in range(L):
                a = vals
                # take along every axis; zipped axes take the single p-th index
                for ax, k in enumerate(v['dims']):
                    if k in zl:
                        a = np.take(a, [idx[k][p]], axis=ax)
                    elif k in idx:
                        a = np.take(a, idx[k], axis=ax)
                # drop the zipped axes (all length 1), insert the point axis
                keep = [ax for ax, k in enumerate(v['dims']) if k not in zl]
                a = a.reshape([a.shape[ax] for ax in keep])
                pts.append(np.expand_dims(a, first - sum(1 for k in v['dims'][:first] if k in zl)))
            want = np.concatenate(pts, axis=first)
            wdims = [k for k in v['dims'] if k not in zl]
            wdims.insert(first, 'POINTS')
        else:
            a = vals
            for ax, k in enumerate(v['dims']):
                if k in idx:
                    a = np.take(a, idx[k], axis=ax)
            want = a
            wdims = list(v['dims'])
        g = got['vars'].get(v['name'])
        if g is None:
            return 'variable %s disappeared' % v['name']
        if g['dims'] != ('.'.join(wdims) or '-'):
            return 'variable %s has dimensions %s, expected %s' % (v['name'], g['dims'], wdims)
        wcells = lib.show_list(['_' if x == -1 else str(x) for x in np.asarray(want, dtype=object).ravel().tolist()])
        if g['cells'] != wcells:
            return 'variable %s holds %s, an orthogonal selection gives %s' % (v['name'], g['cells'][:120], wcells[:120])
        # (the string front end may add attributes of its own, e.g. the fill value of a masked variable; it drops none)
        if case.get('kind') != 'legacy' and g['attrs'] != ('.'.join(sorted(v['attrs'])) or '-'):
            return 'variable %s attributes %s, expected %s' % (v['name'], g['attrs'], sorted(v['attrs']))
        if case.get('kind') == 'legacy' and not set(v['attrs']) <= set(g['attrs'].split('.')):
            return 'slice_dim: variable %s attributes %s, the input has %s' % (v['name'], g['attrs'], sorted(v['attrs']))
    return None


def classify(case, failure, model_out):
    return None


def nontrivial(case, res):
    if case.get('kind') == 'ioapi':
        return 'bad' in res
    if case.get('kind') == 'twostep':
        return True
    sel = {k for k, s in case['sels']}
    has = [bool(set(v['dims']) & sel) for v in case['spec']['vars']]
    lists = [k for k, s in case['sels'] if s[0] == 'l']
    return (any(has) and not all(has)) or len(lists) >= 2


def distribution(recs):
    d = {}
    for r in recs:
        if r['case'].get('kind'):
            d[r['case']['kind']] = d.get(r['case']['kind'], 0) + 1
        for k, s in r['case']['sels']:
            d['sel_' + s[0]] = d.get('sel_' + s[0], 0) + 1
        if len([1 for k, s in r['case']['sels'] if s[0] == 'l']) >= 2:
            d['zipped'] = d.get('zipped', 0) + 1
        if 'err' in r['impl']:
            d['err_' + r['impl']['err']] = d.get('err_' + r['impl']['err'], 0) + 1
    return d
