"""C08 — CAMx binary write/read round trip and idempotent rewrite (uamiv family and slab formats)"""
import os

import numpy as np

from .. import camx, lib
from .. import landfmt as L
from .. import slabfmt as S

ID = 'C08'
LEAN_MODULE = 'PncProofs.C08'
LEAN_FILE = 'PncProofs/C08.lean'
NAMESPACE = 'Props.C08'
LEAN_CONE = ['PncModel.Words', 'PncModel.Camx.Landuse', 'PncModel.Camx.Uamiv', 'PncModel.Camx.Slab', 'PncProofs.WordsLemmas', 'PncProofs.LanduseLemmas', 'PncProofs.LanduseThms', 'PncProofs.UamivLemmas',
             'PncProofs.BridgeLemmas', 'PncProofs.SlabLemmas', 'PncModel.Camx.WindRead', 'PncModel.Camx.CloudRainRead', 'PncModel.Camx.BoundaryRead', 'PncProofs.WindLemmas', 'PncProofs.CloudRainLemmas', 'PncProofs.BoundaryLemmas', 'PncProofs.C09', 'PncProofs.C13', 'PncProofs.C08']
LEMMA_FILES = ['PncProofs/BridgeLemmas.lean']
REQUIRED_THEOREMS = ['roundtrip', 'readers_agree_on_encodings', 'date_roundtrip', 'hours_roundtrip',
                     'hour_bits_roundtrip', 'slab_roundtrip', 'landuse_roundtrip', 'wind_roundtrip', 'cloud_rain_roundtrip', 'boundary_roundtrip']
RULE = ('CAMx-convention files (all NAME variants, 1-3 species, nx, ny 1-4, nz 1-3, 1-3 whole-hour steps of 1 or '
        '3 hours starting at any date 1970-2068 and hour, with day/year/leap/century roll-overs over-sampled, any '
        'finite float32 payload incl. denormals and -0, with and without ETFLAG) written by the library (pncgen '
        'format=uamiv), read back (Memmap), re-written and compared byte for byte; the model predicts the bytes '
        'and the view; slab formats (one3d, humidity, vertical diffusivity, temperature, height/pressure; 2-4 steps incl. '
        'midnight and year-end starts): written by the library writer, read back with the Memmap reader, compared with what '
        'was written (model: Lean encoder + reader model) and re-written byte for byte; year ends incl. 2000 (century leap year) with end flags derived from TSTEP; cloud/rain, lateral boundary and wind files (both time-header variants, stagger flag 0 and 1): reference file read, written back byte for byte and read again, wind also written from an in-memory data set; landuse files (both styles, 0-2 optional fields, the fractions under either name, optional fields created in either order): written, read back, compared with the data set and the Lean writer/reader models, re-written byte for byte; '
        'non-trivial = two or more of nspec, cells, nz, nt > 1')
ASSUMPTIONS = ['float32 <-> bits and numpy tofile/memmap are trusted',
               'covers the uamiv family, the five slab formats, landuse, cloud_rain (3- and 5-variable files), lateral_boundary and wind (read, write back, same bytes, read again; wind also data set -> writer -> reader)']
MIN_NONTRIVIAL = {'quick': 30, 'thorough': 300}


def gen(rng, tier):
    n = 60 if tier == 'quick' else 2500
    out = [camx.gen_uamiv(rng) for _ in range(n)]
    for c in out:
        if len(c['species']) >= 2 and rng.random() < 0.4:
            # the variables of the data set were created in another order than VAR-LIST names them
            c['varorder'] = rng.sample(range(len(c['species'])), len(c['species']))
    for k_ in range(n // 2):
        c = S.gen(rng, longspan=[None, None, 24, None, 12][k_ % 5])
        c['family'] = 'slab'
        c['vdtype'] = rng.choice(['f', 'f', 'd'])
        out.append(c)
    for _ in range(n // 4):
        out.append(L.gen(rng))          # landuse: family 'land'
    # year ends, century leap year included: steps beginning in the last hours of 30/31 December, end flags derived
    # from the begin flags and TSTEP (no ETFLAG in the input) and taken from ETFLAG
    for y in (1999, 2000, 2000, 2004, 2023, 2068):
        last = 366 if (y % 4 == 0 and (y % 100 != 0 or y % 400 == 0)) else 365
        out.append(camx.gen_uamiv_at(rng, y, rng.choice([last, last - 1]), 23, with_etflag=rng.random() < 0.3))
    # cloud/rain (3- and 5-variable layouts) and lateral boundary files: reference file -> reader -> writer -> same bytes
    from . import c09
    for i in range(n // 6):
        c = c09._gen_cr(rng, 'cread')
        c['family'] = 'cr'
        out.append(c)
    for i in range(n // 8):
        c = S.gen_bnd(rng, under=(i % 2 == 0))     # every other file: species names with underscores, one the prefix of another
        c['family'] = 'bnd'
        c['kind'] = 'bnd'
        out.append(c)
    # on every run: a boundary file whose last step ends at midnight, stamped hour 24 of the day that ends
    c = S.gen_bnd(rng)
    u = camx.gen_uamiv_at(rng, 2003, 365, 22, with_etflag=True, tstep=1)
    while len(u['tflag']) < 2:
        u = camx.gen_uamiv_at(rng, 2003, 365, 22, with_etflag=True, tstep=1)
    camx.end_of_day(u)
    nt = len(u['tflag'])
    c.update(tflag=u['tflag'], etflag=u['etflag'], tstep=1, family='bnd', kind='bnd')
    c['bdata'] = [[[[camx.rand_f32_bits(rng) for _ in range((c['ny'] if e < 2 else c['nx']) * c['nz'])] for e in range(4)]
                   for _ in c['species']] for _ in range(nt)]
    out.append(c)
    # wind files (three-word time header with stagger flag 0 or 1, and the older two-word header): reference file ->
    # Memmap reader -> writer -> the same bytes, read again; and data set -> writer -> reader
    for i in range(n // 6):
        c = S.gen_wind(rng)
        c['family'] = 'wind'
        c['vdtype'] = rng.choice(['f', 'f', 'd'])
        out.append(c)
    return out


def _impl_wind(case):
    from PseudoNetCDF.pncgen import pncgen
    p1 = os.path.join(camx.tmpdir(), 'c08w_%d_%d.bin' % (os.getpid(), np.random.randint(1 << 30)))
    p2, p3 = p1 + '.again', p1 + '.built'
    res = {}
    try:
        with lib.pnc_warnings():
            b = S.wind_encode(case)
            res['hex'] = b.hex()
            open(p1, 'wb').write(b)
            with lib.time_limit(20):
                f = S.wind_open(case, p1, 'memmap')
                res['view'] = S.wind_view(f, case)
                pncgen(f, p2, format='camxfiles.wind', verbose=0)
                b2 = open(p2, 'rb').read()
                res['rewrite_same'] = (b == b2)
                res['diff_at'] = next((i for i, (x, y) in enumerate(zip(b, b2)) if x != y), min(len(b), len(b2)))
                res['reread'] = S.wind_view(S.wind_open(case, p2, 'memmap'), case)
                # a data set built in memory (float32 or float64 variables) through the writer and back
                pncgen(S.wind_build(case, case['vdtype']), p3, format='camxfiles.wind', verbose=0)
                res['built_hex'] = open(p3, 'rb').read().hex()
                res['built_view'] = S.wind_view(S.wind_open(case, p3, 'memmap'), case)
        return res
    except lib.HarnessError:
        raise
    except Exception as e:
        res['err'] = type(e).__name__
        res['msg'] = str(e)[:120]
        return res
    finally:
        for q in (p1, p2, p3):
            if os.path.exists(q):
                os.remove(q)


def _oracle_wind(case, res):
    if 'err' in res:
        return 'raised %s %s' % (res['err'], res.get('msg'))
    want = {k: [w for slabs in case['data'] for z in range(case['nz']) for w in slabs[2 * z + vi]]
            for vi, k in enumerate(('U', 'V'))}
    for nm in ('view', 'reread', 'built_view'):
        v = res[nm]
        if (v['nt'], v['nz']) != (float(len(case['flags'])), float(case['nz'])):
            return '%s: nt,nz = %s,%s, the file holds %d,%d' % (nm, v['nt'], v['nz'], len(case['flags']), case['nz'])
        if v['vars'] != want:
            return '%s: U/V data differ from the content of the file' % nm
    if res['reread'].get('tflag') != res['view'].get('tflag'):
        return 'time flags changed in the re-written file: %s -> %s' % (res['view'].get('tflag'), res['reread'].get('tflag'))
    if not res['rewrite_same']:
        return 're-writing the file that was read changed the bytes (first difference at byte %d)' % res['diff_at']
    if res['built_hex'] != res['hex']:
        return 'the file written from the in-memory data set differs from the reference encoding'
    return None


def _impl_slab(case):
    from PseudoNetCDF.pncgen import pncgen
    p1 = os.path.join(camx.tmpdir(), 'c08s_%d_%d.bin' % (os.getpid(), np.random.randint(1 << 30)))
    p2 = p1 + '.again'
    try:
        b1 = S.write_with_library(case, case['vdtype'])
        open(p1, 'wb').write(b1)
        with lib.pnc_warnings():
            f = S.open_reader(case, p1, 'memmap')
            v = S.view(f, case)
            pncgen(f, p2, format=S.FORMATS[case['fmt']][4], verbose=0)
        b2 = open(p2, 'rb').read()
        v['hex'] = b1.hex()
        v['rewrite_same'] = (b1 == b2)
        # a horizontal window of the file as read (the first column dropped, the last row dropped), written again: the
        # reference encoding of the windowed arrays
        nx, ny = case['nx'], case['ny']
        kw = {}
        if nx >= 2:
            kw['COL'] = slice(1, nx)
        if ny >= 2:
            kw['ROW'] = slice(0, ny - 1)
        if kw:
            p3 = p1 + '.window'
            try:
                with lib.pnc_warnings():
                    pncgen(f.sliceDimensions(**kw), p3, format=S.FORMATS[case['fmt']][4], verbose=0)
                d = np.array(case['data'], dtype='u8').reshape(len(case['flags']), -1, ny, nx)[
                    :, :, kw.get('ROW', slice(None)), kw.get('COL', slice(None))]
                wc = dict(case, nx=d.shape[3], ny=d.shape[2], data=d.reshape(d.shape[0], d.shape[1], -1).tolist())
                v['window_same'] = (open(p3, 'rb').read() == S.encode(wc))
            finally:
                if os.path.exists(p3):
                    os.remove(p3)
        return v
    except lib.HarnessError:
        raise
    except Exception as e:
        return dict(err=type(e).__name__, msg=str(e)[:120])
    finally:
        for q in (p1, p2):
            if os.path.exists(q):
                os.remove(q)


def _impl_cr(case):
    """reference-encoded cloud/rain file -> Memmap reader -> writer: the same bytes; and the content read back"""
    from PseudoNetCDF.pncgen import pncgen
    from PseudoNetCDF.camxfiles.cloud_rain.Memmap import cloud_rain
    from . import c09
    p1 = os.path.join(camx.tmpdir(), 'c08c_%d_%d.bin' % (os.getpid(), np.random.randint(1 << 30)))
    p2 = p1 + '.again'
    try:
        with lib.pnc_warnings():
            b = c09._cr_encode(case)
            open(p1, 'wb').write(b)
            f = cloud_rain(p1)
            names = [k for k in f.variables if k not in ('TFLAG', 'ETFLAG')]
            pncgen(f, p2, format='camxfiles.cloud_rain', verbose=0)
            b2 = open(p2, 'rb').read()
            g = cloud_rain(p2)
            same = all(np.array_equal(np.asarray(f.variables[k][:]), np.asarray(g.variables[k][:])) for k in names)
            return dict(hex=b.hex(), names=names, rewrite_same=(b == b2), reread_same=bool(same),
                        diff_at=next((i for i, (x, y) in enumerate(zip(b, b2)) if x != y), min(len(b), len(b2))))
    except lib.HarnessError:
        raise
    except Exception as e:
        return dict(err=type(e).__name__, msg=str(e)[:120])
    finally:
        for q in (p1, p2):
            if os.path.exists(q):
                os.remove(q)


def impl(case):
    if case.get('family') == 'wind':
        return _impl_wind(case)
    if case.get('family') == 'cr':
        return _impl_cr(case)
    if case.get('family') == 'bnd':
        from . import c09
        return c09._impl_bnd(case)
    if case.get('family') == 'land':
        return L.impl(case)
    if case.get('family') == 'slab':
        return _impl_slab(case)
    from PseudoNetCDF.pncgen import pncgen
    from PseudoNetCDF.camxfiles.uamiv.Memmap import uamiv
    try:
        b1 = camx.write_with_library(case)
        p1 = os.path.join(camx.tmpdir(), 'c08_%d.uamiv' % os.getpid())
        p2 = p1 + '.again'
        with open(p1, 'wb') as fh:
            fh.write(b1)
        with lib.pnc_warnings():
            f = uamiv(p1)
            view = camx.view_of_reader(f)
            if os.path.exists(p2):
                os.remove(p2)
            pncgen(f, p2, format='uamiv', verbose=0)
            # a copy of the file as read has no end flags of its own: the writer derives them from the begin flags and the
            # TSTEP attribute the reader set
            p3 = p1 + '.copy'
            try:
                pncgen(f.copy(), p3, format='uamiv', verbose=0)
                b3 = open(p3, 'rb').read()
            finally:
                if os.path.exists(p3):
                    os.remove(p3)
        b2 = open(p2, 'rb').read()
        del f
        os.remove(p1)
        os.remove(p2)
        view['hex'] = b1.hex()
        view['rewrite_same'] = (b1 == b2)
        view['copy_same'] = (b1 == b3)
        if b1 != b2:
            view['rewrite_diff_at'] = next((i for i, (x, y) in enumerate(zip(b1, b2)) if x != y), min(len(b1), len(b2)))
        return view
    except lib.HarnessError:
        raise
    except Exception as e:
        return dict(err=type(e).__name__, msg=str(e)[:120])


def to_line(case, res):
    if case.get('family') == 'wind':
        return S.wind_line(case)
    if case.get('family') == 'cr':
        from . import c09
        return c09._cr_line(case)
    if case.get('family') == 'bnd':
        return S.bnd_line(case)
    if case.get('family') == 'land':
        return L.to_line(case, res)
    if case.get('family') == 'slab':
        enc = lib.run_model(['bin slab-enc ' + S.lean_steps(case)])[0]
        return 'bin slab-mm %s %d %s' % (S.FORMATS[case['fmt']][0], case['nx'] * case['ny'], enc[3:] if enc.startswith('ok ') else '-')
    # the model reads the bytes its own writer model produces
    out = lib.run_model([camx.uamiv_write_line(case)])[0]
    if not out.startswith('ok '):
        return 'bin uamiv-read - 0'
    return 'bin uamiv-read %s 0' % out[3:]


def agree(case, out, res):
    if case.get('family') == 'wind':
        if out != 'ok ' + res['hex']:
            return 'the python reference encoder and the Lean wind encoder differ'
        # the reader on the reference file against the Lean reader model
        return S.wind_model_diff(case, res['hex'], res['view']) if 'view' in res else None
    if case.get('family') in ('cr', 'bnd'):
        if 'err' in res:
            return None
        if case.get('family') == 'cr' and len(case['desc']) % 4:
            return None         # the layout model works in words: descriptions of other lengths are judged by the oracle alone
        return None if out == 'ok ' + res['hex'] else 'the python reference encoder and the Lean encoder differ'
    if case.get('family') == 'land':
        return L.agree(case, out, res)
    if case.get('family') == 'slab':
        if 'err' in res:
            return 'impl raised %s (%s)' % (res['err'], res.get('msg'))
        enc = lib.run_model(['bin slab-enc ' + S.lean_steps(case)])[0]
        if enc != 'ok ' + res['hex']:
            return 'writer bytes differ from the Lean encoder'
        if not out.startswith('ok '):
            return 'model ' + out[:40]
        _, kv = lib.parse_kv('x ' + out[3:])
        for k in ('nt', 'nz'):
            if float(kv[k]) != float(res[k]):
                return '%s model=%s impl=%s' % (k, kv[k], res[k])
        if kv['vars'] != res['vars'] or kv['tflag'] != res.get('tflag'):
            return 'read-back view differs from the model'
        return None
    if 'err' in res:
        return None if out.startswith('err') else 'impl raised %s (%s), model %s' % (res['err'], res.get('msg'), out[:60])
    if not out.startswith('ok '):
        return 'model %s, impl returned' % out[:60]
    # bytes: writer model vs library writer
    w = lib.run_model([camx.uamiv_write_line(case)])[0]
    if w[3:] != res['hex']:
        return 'writer bytes differ from the model'
    return camx.diff_view(out, res)


def _oracle_slab(case, res):
    if 'err' in res:
        return 'raised %s %s' % (res['err'], res.get('msg'))
    if (float(res['nt']), float(res['nz'])) != (float(len(case['flags'])), float(case['nz'])):
        return 'read back nt,nz = %s,%s, written %d,%d' % (res['nt'], res['nz'], len(case['flags']), case['nz'])
    kind = S.FORMATS[case['fmt']][0]
    nz = case['nz']
    got = dict(x.split('~') for x in res['vars'].split(';'))
    want = {}
    if kind == 'one3d':
        want['UNKNOWN'] = [w for slabs in case['data'] for sl in slabs for w in sl]
    elif kind == 'temperature':
        want['SURFTEMP'] = [w for slabs in case['data'] for w in slabs[0]]
        want['AIRTEMP'] = [w for slabs in case['data'] for sl in slabs[1:] for w in sl]
    else:
        want['HGHT'] = [w for slabs in case['data'] for z in range(nz) for w in slabs[2 * z]]
        want['PRES'] = [w for slabs in case['data'] for z in range(nz) for w in slabs[2 * z + 1]]
    for k, ws in want.items():
        if got.get(k) != (camx.hexwords(ws) or '-'):
            return 'float32 data of %s differ after write/read' % k
    conv = ['%d:%d' % (d + (2000000 if d < 70000 else 1900000), h * 100) for d, h in case['flags']]
    if any(h for d, h in case['flags']) and res.get('tflag') != ','.join(conv):
        return 'time flags %s read back, written %s' % (res.get('tflag'), ','.join(conv))
    if not res['rewrite_same']:
        return 're-writing the re-read file changed the bytes'
    if res.get('window_same') is False:
        return 'a horizontal window of the file as read (first column / last row dropped), written: not the encoding of the windowed arrays'
    return None


def oracle(case, res):
    if case.get('family') == 'wind':
        return _oracle_wind(case, res)
    if case.get('family') == 'cr':
        from . import c09
        if c09._cr_ambiguous(case):
            return None
        if 'err' in res:
            return 'raised %s %s' % (res['err'], res.get('msg'))
        if sorted(res['names']) != sorted(case['names']):
            return 'the reader presents variables %s, the file holds %s' % (res['names'], case['names'])
        if not res['rewrite_same']:
            return 're-writing the file that was read changed the bytes (first difference at byte %d)' % res['diff_at']
        if not res['reread_same']:
            return 'the re-written file reads back with other values'
        return None
    if case.get('family') == 'bnd':
        from . import c09
        return c09._oracle_bnd(case, res)
    if case.get('family') == 'land':
        return L.oracle_roundtrip(case, res)
    if case.get('family') == 'slab':
        return _oracle_slab(case, res)
    if 'err' in res:
        return 'raised %s %s' % (res['err'], res.get('msg'))
    nspec, nx, ny, nz, nt = len(case['species']), case['nx'], case['ny'], case['nz'], len(case['tflag'])
    if (res['nspec'], res['nx'], res['ny'], res['nz'], res['nt']) != (nspec, nx, ny, nz, nt):
        return 'read back dimensions %s, written %s' % ((res['nspec'], res['nx'], res['ny'], res['nz'], res['nt']),
                                                       (nspec, nx, ny, nz, nt))
    if res['species'] != ';'.join(lib.show_list(camx.codes(s, 10)) for s in case['species']):
        return 'species order/names changed'
    want = '|'.join(camx.hexwords([w for spc in step for lay in spc for w in lay]) for step in case['data'])
    if res['data'] != want:
        return 'float32 data differ after write/read'
    wt = lib.show_list(['%d:%d' % (a, b) for a, b in case['tflag']])
    if res['tflag'] != wt:
        return 'begin flags %s read back as %s' % (wt, res['tflag'])
    we = lib.show_list(['%d:%d' % (a, b) for a, b in case['etflag']])
    if res['etflag'] != we:
        return 'end flags %s read back as %s' % (we, res['etflag'])
    gw = camx.grid_words(case)
    for i, w in enumerate(res['grid']):
        if w is not None and w != gw[i]:
            return 'grid header word %d changed' % i
    if not res['rewrite_same']:
        return 're-writing the re-read file changed the bytes (first difference at byte %d)' % res['rewrite_diff_at']
    if res.get('copy_same') is False and len(set((b[0] - a[0], b[1] - a[1]) for a, b in zip(case['tflag'], case['etflag']))) == 1 and \
            all(e[1] != 240000 for e in case['etflag']):      # (hour 24 of the day that ends is a labelling only ETFLAG carries)
        return 'writing a copy of the re-read file (no end flags of its own: they follow from the begin flags and TSTEP) changed the bytes'
    return None


def classify(case, failure, model_out):
    return None


def nontrivial(case, res):
    if case.get('family') == 'wind':
        return 'err' not in res
    if case.get('family') in ('cr', 'bnd'):
        return 'err' not in res
    if case.get('family') == 'land':
        return L.nontrivial(case, res)
    if case.get('family') == 'slab':
        return len({case['nz'], case['nx'] * case['ny'], len(case['flags'])} - {1}) >= 2
    dims = [len(case['species']), case['nx'] * case['ny'], case['nz'], len(case['tflag'])]
    return sum(1 for d in dims if d > 1) >= 2


def distribution(recs):
    d = {}
    for r in recs:
        c = r['case']
        if c.get('family') == 'wind':
            k = 'wind_stag_%s' % c['stag']
            d[k] = d.get(k, 0) + 1
            continue
        if c.get('family') in ('cr', 'bnd'):
            d[c['family']] = d.get(c['family'], 0) + 1
            continue
        if c.get('family') == 'land':
            k = 'land_%s_%dopt' % ('new' if c['new'] else 'old', len(c['opts']))
            d[k] = d.get(k, 0) + 1
            continue
        if c.get('family') == 'slab':
            d['slab_' + c['fmt']] = d.get('slab_' + c['fmt'], 0) + 1
            continue
        d['name_' + c['name']] = d.get('name_' + c['name'], 0) + 1
        d['etflag' if c['with_etflag'] else 'tstep'] = d.get('etflag' if c['with_etflag'] else 'tstep', 0) + 1
        ys = {x[0] // 1000 for x in c['tflag']} | {x[0] // 1000 for x in c['etflag']}
        if len(ys) > 1:
            d['year_rollover'] = d.get('year_rollover', 0) + 1
        if 'err' in r['impl']:
            d['err_' + r['impl']['err']] = d.get('err_' + r['impl']['err'], 0) + 1
    return d
