"""C04 — stack (core/_files.py) against lean/PncModel/File.lean stackFiles"""
import copy

import sys

import numpy as np

from .. import lib, pfile

ID = 'C04'
LEAN_MODULE = 'PncProofs.C04SliceStack'     # imports PncProofs.C04Files (and PncProofs.C04 through PncProofs.C01Files) and PncProofs.C01Seq
LEAN_FILE = 'PncProofs/C04.lean'
MORE_LEAN_FILES = ['PncProofs/C04Files.lean', 'PncProofs/C04Split.lean', 'PncProofs/C04SplitN.lean', 'PncProofs/C04SliceStack.lean']
NAMESPACE = 'Props.C04'
LEAN_CONE = ['PncModel.Arr', 'PncModel.NsStep', 'PncModel.Generated.NamespaceOrder', 'PncModel.File', 'PncProofs.ArrLemmas', 'PncProofs.C04',
             'PncProofs.FiberLemmas', 'PncProofs.C03', 'PncProofs.C02', 'PncProofs.ZipLemmas', 'PncProofs.C01', 'PncProofs.StackLemmas',
             'PncProofs.SliceLemmas', 'PncProofs.C01Files', 'PncProofs.C04Files', 'PncProofs.NamesLemmas', 'PncProofs.C06', 'PncProofs.C01Seq',
             'PncProofs.C04Split', 'PncProofs.C04SplitN', 'PncProofs.C04SliceStack']
LEMMA_FILES = ['PncProofs/StackLemmas.lean']
REQUIRED_THEOREMS = ['concat_take_drop', 'concat_split_all', 'take_concat', 'drop_concat', 'concat_shape',
                     'concatAll_eq', 'stackVar_data', 'orth_window', 'concat_atAxis', 'concat_windows', 'sliceFile_cut', 'stackVar_pieces',
                     'pieces_vars', 'stack_split', 'stack_of_slices', 'stack_pieces_ok', 'split_then_stack',
                     'concat_partition', 'stackVar_partition', 'stackFiles_cuts', 'stack_partition', 'pieces_are_slices', 'split_partition_then_stack',
                     'compat_of_shapes', 'window_concat_left', 'window_concat_right', 'slice_of_stackVar', 'slice_of_stack', 'window_of_concatAll']
RULE = ('kind split: a random file is cut along a random dimension into 1..4 consecutive pieces (cut points '
        'anywhere incl. empty-free partitions), pieces are built independently and stacked; kind indep: 2..4 '
        'files sharing all other dimensions, with their own data and stack-dimension lengths, variables '
        'without the stack dimension, masked variables, non-leading stack axes; malformed: a file lacking a '
        'variable / the stack dimension / with a differing shared dimension; non-trivial = at least two '
        'pieces and a variable whose stack axis is not the first; the multi-file front ends pncmfopen and open_mfdataset (with and without stackdim) open the same '
        'pieces from paths whose argument order is not the sorted order, also with repeated paths, and must give the model\'s stack of that sequence; '
        'later files may carry extra global attributes (the result has the first file\'s); IOAPI files are cut along TSTEP or LAY, the pieces '
        'saved and stacked again (method and pncmfopen): data, TFLAG, SDATE/STIME/TSTEP, VGLVLS/NLAYS must equal the original; IOAPI pieces also stacked out of order or with one left out (every variable with the stack dimension, TFLAG included, equals the concatenation of the arguments); fill value 0; present cells holding the value of the fill marker; a fixed-width string variable along the stack dimension; the legacy front end on variables in the non-native byte order')
ASSUMPTIONS = ['numpy.ma.concatenate behaves as list concatenation along the axis']
MIN_NONTRIVIAL = {'quick': 60, 'thorough': 600}


def _slice_spec(spec, dim, a, b):
    """the piece [a,b) along dim, computed on the spec (independent of the library)"""
    out = copy.deepcopy(spec)
    for d in out['dims']:
        if d[0] == dim:
            d[1] = b - a
    for v, v0 in zip(out['vars'], spec['vars']):
        if dim in v0['dims']:
            shape = pfile.shape_of(spec, v0)
            arr = np.array(v0['data'], dtype=object).reshape(shape)
            ax = v0['dims'].index(dim)
            v['data'] = np.take(arr, range(a, b), axis=ax).ravel().tolist()
    return out


def _inject_marker(rng, spec, prob=0.3):
    """a PRESENT cell that holds the value of the variable's fill marker (a real -999 next to fill_value -999, a count of 0
    next to fill_value 0): it is data, not a missing cell"""
    for v in spec['vars']:
        if v['masked'] and v['data'] and rng.random() < prob:
            present = [j for j, x in enumerate(v['data']) if x is not None]
            if present:
                v['data'][rng.choice(present)] = 0 if v.get('fill0') else -999


def _case(rng):
    c = _case0(rng)
    if c['kind'] != 'bad':
        c['labels'] = rng.random() < 0.25
        c['bigendian'] = rng.random() < 0.3
    return c


def _case0(rng):
    kind = rng.choice(['split', 'split', 'indep', 'indep', 'bad'])
    spec = pfile.gen_file(rng, maxlen=5, minlen=1, scalar_prob=0.05)
    if rng.random() < 0.3:
        pfile.drop_fill_attrs(rng, spec)        # masked variables that declare no fill value (built from masked values)
    _inject_marker(rng, spec)
    names = [d[0] for d in spec['dims']]
    dim = rng.choice(names)
    if len(names) >= 2 and rng.random() < 0.2:
        # the record dimension is not the time-named one (t is declared first and fixed, e.g. hour-of-day bins next to an
        # unlimited list of observations): the default stack dimension is the unlimited one
        for d in spec['dims']:
            d[2] = False
        j = rng.randrange(1, len(names))
        spec['dims'][j][2] = True
        dim = names[j]
    n = {d[0]: d[1] for d in spec['dims']}[dim]
    falling = rng.random() < 0.35       # a coordinate of the stack dimension that decreases (latitude north to south, pressure)
    if falling:
        for v in spec['vars']:
            if v['name'] == dim and v['dims'] == [dim]:
                v['data'] = [-x for x in v['data']]
    if kind == 'split':
        k = rng.randint(1, min(4, n))
        cuts = sorted(rng.sample(range(1, n), k - 1)) if k > 1 else []
        edges = [0] + cuts + [n]
        pieces = [_slice_spec(spec, dim, a, b) for a, b in zip(edges[:-1], edges[1:])]
        return dict(kind=kind, dim=dim, files=pieces, orig=spec, edges=edges)
    # independent files
    k = rng.randint(2, 4)
    files = []
    unlim = {d[0]: d[2] for d in spec['dims']}[dim]
    empty_first = unlim and rng.random() < 0.2      # a header / template file: no record yet on the unlimited stack dimension
    late_mask = rng.random() < 0.25                 # nothing is missing in the first file, later files have missing cells
    for i in range(k):
        s2 = copy.deepcopy(spec)
        ln = rng.randint(1, 4)
        if i == 0 and empty_first:
            ln = 0
        for d in s2['dims']:
            if d[0] == dim:
                d[1] = ln
        dl = {d[0]: d[1] for d in s2['dims']}
        for vi, v in enumerate(s2['vars']):
            size = int(np.prod([dl[x] for x in v['dims']])) if v['dims'] else 1
            if dim in v['dims'] or i == 0:
                data = [10000 * (i + 1) + 100 * vi + t for t in range(size)]
                if v['masked'] and size:
                    for t in rng.sample(range(size), rng.randint(0, max(1, size // 3))):
                        data[t] = None
                v['data'] = data
            elif rng.random() < 0.3:
                # a different value in a later file for a variable without the stack dimension
                v['data'] = [77000 + t if x is not None else None for t, x in enumerate(v['data'])]
        if i == 0 and late_mask:
            for v in s2['vars']:
                if v['masked'] and dim in v['dims'] and v['name'] != dim:
                    v['masked'] = False
                    v['data'] = [5550 + t if x is None else x for t, x in enumerate(v['data'])]
                    v['attrs'] = [a for a in v['attrs'] if a != 'fill_value']
                    v.pop('fill0', None)
                    v['latemask'] = True
        _inject_marker(rng, s2, 0.2)
        if i > 0 and rng.random() < 0.5:
            s2['attrs'] = list(s2['attrs']) + ['later%d' % i]      # global attributes come from the first file
        files.append(s2)
    if falling:
        for s2 in files:
            for v in s2['vars']:
                if v['name'] == dim and v['dims'] == [dim] and all(x is not None and x > 0 for x in v['data']):
                    v['data'] = [-x for x in v['data']]
    if kind == 'bad':
        m = rng.choice(['novar', 'nodim', 'shared'])
        j = rng.randrange(1, k)
        if m == 'novar' and files[j]['vars']:
            files[j]['vars'].pop(rng.randrange(len(files[j]['vars'])))
        elif m == 'nodim' and len(names) > 1:
            files[j]['dims'] = [d for d in files[j]['dims'] if d[0] != dim]
            files[j]['vars'] = [v for v in files[j]['vars'] if dim not in v['dims']]
        else:
            others = [d for d in files[j]['dims'] if d[0] != dim]
            if others:
                d = rng.choice(others)
                d[1] += 1
                dl = {x[0]: x[1] for x in files[j]['dims']}
                for vi, v in enumerate(files[j]['vars']):
                    size = int(np.prod([dl[x] for x in v['dims']])) if v['dims'] else 1
                    v['data'] = [90000 + 100 * vi + t for t in range(size)]
    order = list(range(k))
    if kind == 'indep' and rng.random() < 0.4:
        # the multi-file front ends are also given repeated paths and paths in any order
        order = [rng.randrange(k) for _ in range(rng.randint(2, 4))]
    return dict(kind=kind, dim=dim, files=files, mf_order=order)


def _ioapi_case(rng):
    """an IOAPI file cut along TSTEP or LAY into pieces that are saved and stacked again (method and pncmfopen)"""
    from . import c10
    src = c10._src(rng)
    src.update(kind='arrays', nt=rng.randint(2, 5), nl=rng.randint(2, 3), withcf=False)
    dim = rng.choice(['TSTEP', 'LAY'])
    n = src['nt'] if dim == 'TSTEP' else src['nl']
    k = rng.randint(2, min(3, n))
    cuts = sorted(rng.sample(range(1, n), k - 1))
    case = dict(kind='ioapi', dim=dim, src=src, edges=[0] + cuts + [n], files=[])
    if rng.random() < 0.4:
        # the pieces in another order or with one left out (a gap): every variable with the stack dimension, the time
        # flags included, must be the concatenation of the arguments in their order
        order = list(range(k))
        if k >= 3 and rng.random() < 0.5:
            order.pop(rng.randrange(1, k - 1) if k > 2 else 0)
        else:
            while order == list(range(k)):
                rng.shuffle(order)
        case['order'] = order
    return case


def _cli_case(rng):
    """pieces of differing lengths stacked (a) through the command-line / PNC front end, alone and together with a window on
    the stacked or on another dimension (the window is taken OF THE STACKED FILE), (b) after each piece went through
    operations that leave a variable's own name different from its key (an in-place eval, an assigned expression), (c) with
    a dimension of length 0 that is not the stacked one (method and legacy form keep its flag).  Oracle only."""
    return dict(kind='cli', files=[], dim='t', lens=[rng.randint(1, 4) for _ in range(rng.randint(2, 4))], nx=rng.randint(2, 4),
                nstation=rng.choice([0, 0, 1, 2]))


def gen(rng, tier):
    n = 300 if tier == 'quick' else 8000
    out = [_case(rng) for _ in range(n)]
    out += [_ioapi_case(rng) for _ in range(n // 12)]
    out += [_cli_case(rng) for _ in range(max(4, n // 50))]
    return out


def _impl_cli(case):
    import PseudoNetCDF as pnc
    from PseudoNetCDF.pncparse import pncparse
    from PseudoNetCDF.core._functions import stack_files
    lens, nx, ns = case['lens'], case['nx'], case['nstation']

    def mk():
        files, start = [], 0
        for i, n in enumerate(lens):
            f = pnc.PseudoNetCDFFile()
            f.createDimension('t', n).setunlimited(True)
            f.createDimension('x', nx)
            f.createDimension('s', ns)
            v = f.createVariable('A', 'd', ('t', 'x'))
            v.units = 'm'
            v[:] = np.arange(n * nx, dtype='d').reshape(n, nx) + 100. * (i + 1)
            tv = f.createVariable('t', 'd', ('t',))
            tv[:] = np.arange(start, start + n)
            sv = f.createVariable('S', 'd', ('t', 's'))
            sv[:] = 1.
            start += n
            files.append(f)
        return files
    res = dict(runs={})
    try:
        with lib.pnc_warnings():
            def run(extra):
                fs, _ = pncparse(has_ofile=False, args=['--stack=t'] + extra, ifiles=mk())
                o = fs[0]
                return dict(A=np.asarray(o.variables['A'][:]).tolist(), t=np.asarray(o.variables['t'][:]).tolist(), nt=len(o.dimensions['t']))
            res['runs']['plain'] = run([])
            res['runs']['x'] = run(['--slice=x,1,%d' % nx])
            edges = np.cumsum([0] + lens).tolist()
            for i in range(len(lens)):
                res['runs']['piece%d' % i] = run(['--slice=t,%d,%d' % (edges[i], edges[i + 1])])
            # (b) names that differ from keys
            fs = mk()
            for f in fs:
                f.eval('B = A * 2 + 1', inplace=True)
                f.variables['C'] = f.variables['A'] - 1000
            o = fs[0].stack(fs[1:], 't')
            res['derived'] = {k: np.asarray(o.variables[k][:]).tolist() if k in o.variables else None for k in ('A', 'B', 'C')}
            # (c) the flags of the dimensions, both forms
            fs = mk()
            res['flags'] = dict(method={k: bool(d.isunlimited()) for k, d in fs[0].stack(fs[1:], 't').dimensions.items()},
                                legacy={k: bool(d.isunlimited()) for k, d in stack_files(mk(), 't').dimensions.items()})
    except lib.HarnessError:
        raise
    except Exception as e:
        return dict(err=type(e).__name__, msg=str(e)[:100])
    return res


def _oracle_cli(case, res):
    if 'err' in res:
        return 'stacking pieces through the front end raised %s %s' % (res['err'], res.get('msg'))
    lens, nx = case['lens'], case['nx']
    pieces = [np.arange(n * nx, dtype='d').reshape(n, nx) + 100. * (i + 1) for i, n in enumerate(lens)]
    whole = np.concatenate(pieces, axis=0)
    edges = np.cumsum([0] + lens).tolist()
    want = dict(plain=whole, x=whole[:, 1:nx])
    for i in range(len(lens)):
        want['piece%d' % i] = pieces[i]
    for k, w in want.items():
        r = res['runs'][k]
        if r['A'] != w.tolist() or r['nt'] != w.shape[0]:
            return '--stack=t %s: A %s (t = %d), the stacked file%s has %s' % (
                '' if k == 'plain' else ('--slice=x,1,%d' % nx if k == 'x' else '--slice=t,%d,%d' % (edges[int(k[5:])], edges[int(k[5:]) + 1])),
                str(r['A'])[:80], r['nt'], '' if k == 'plain' else ' cut at that window', str(w.tolist())[:80])
    for k, fn in (('A', lambda a: a), ('B', lambda a: a * 2 + 1), ('C', lambda a: a - 1000)):
        if res['derived'][k] != fn(whole).tolist():
            return 'stack of files whose variable %s was made by an expression: %s, the concatenation is %s' % (
                k, str(res['derived'][k])[:80], str(fn(whole).tolist())[:80])
    for form, fl in res['flags'].items():
        if fl != dict(t=True, x=False, s=False):
            return 'stack (%s form) of pieces with a dimension s of length %d: unlimited flags %s, the pieces have t only' % (
                form, case['nstation'], fl)
    return None


def _impl_ioapi(case):
    import os
    import shutil
    import tempfile
    import PseudoNetCDF as pnc
    from . import c10
    d = tempfile.mkdtemp(prefix='pncverif_c04i_')
    try:
        with lib.pnc_warnings():
            f, _ = c10.build(case['src'])
            dim = case['dim']
            res = dict(orig=c10.obs(f), data={k: np.asarray(v[...]).tolist() for k, v in f.variables.items()})
            pieces, paths = [], []
            for i, (a, b) in enumerate(zip(case['edges'][:-1], case['edges'][1:])):
                pc = f.sliceDimensions(**{dim: slice(a, b)})
                pieces.append(pc)
                p = os.path.join(d, 'piece_%d.nc' % (9 - i))
                pc.save(p, format='NETCDF3_CLASSIC', verbose=0).close()
                paths.append(p)
            outs = {}
            if case.get('order'):
                pieces = [pieces[i] for i in case['order']]
                paths = [paths[i] for i in case['order']]
                res['pieces'] = [{k: (list(v.dimensions), np.asarray(v[...]).tolist()) for k, v in pc.variables.items()} for pc in pieces]
            o = pieces[0].stack(pieces[1:], dim)
            outs['stack'] = o
            outs['pncmfopen'] = pnc.pncmfopen(paths, format='ioapi', stackdim=dim)
            # the other files given as a generator; one other file, opened from disk, given as it is (not in a list)
            outs['stack(generator)'] = pieces[0].stack((pc for pc in pieces[1:]), dim)
            if len(paths) == 2:
                outs['stack(one file from disk)'] = pnc.pncopen(paths[0], format='ioapi').stack(pnc.pncopen(paths[1], format='ioapi'), dim)
            res['names'] = list(outs)
            for nm, g in outs.items():
                res[nm] = dict(st=c10.obs(g), bad=c10.coherent(g),
                               data={k: np.asarray(v[...]).tolist() for k, v in g.variables.items()})
            return res
    except lib.HarnessError:
        raise
    except Exception as e:
        return dict(err=type(e).__name__, msg=str(e)[:100])
    finally:
        shutil.rmtree(d, True)


def _oracle_ioapi(case, res):
    if 'err' in res:
        return 'splitting and stacking an IOAPI file raised %s %s' % (res['err'], res.get('msg'))
    o = res['orig']
    if case.get('order'):
        for nm in res.get('names', ('stack', 'pncmfopen')):
            g = res[nm]
            for k, (dims, first) in res['pieces'][0].items():
                if case['dim'] in dims:
                    want = np.concatenate([np.asarray(pc[k][1]) for pc in res['pieces']], axis=dims.index(case['dim'])).tolist()
                else:
                    want = first
                if g['data'].get(k) != want:
                    return '%s of pieces %s along %s: %s is not the concatenation of the arguments in their order' % (
                        nm, case['order'], case['dim'], k)
        return None
    for nm in res.get('names', ('stack', 'pncmfopen')):
        g = res[nm]
        if g['bad']:
            return '%s of the pieces along %s: %s' % (nm, case['dim'], '; '.join(g['bad']))
        for k in ('nT', 'nL', 'nR', 'nC', 'vglvls', 'sdate', 'stime', 'tstep', 'tflag', 'nvars', 'varlist', 'nlays', 'nrows', 'ncols'):
            if str(g['st'][k]) != str(o[k]):
                return '%s of the pieces along %s: %s is %s, the original file has %s' % (nm, case['dim'], k, g['st'][k], o[k])
        for k, v in res['data'].items():
            if g['data'].get(k) != v:
                return '%s of the pieces along %s: data of %s differ from the original' % (nm, case['dim'], k)
    return None


def _piece_labels(case, i):
    n = {d[0]: d[1] for d in case['files'][i]['dims']}.get(case['dim'], 0)
    return ['f%d_%d_%s' % (i, j, 'stuvwxyz'[(i + j) % 8] * 2) for j in range(n)]


def _add_labels(case, fs):
    """a variable of fixed-width strings (station names) along the stack dimension in every file: outside the numeric
    model, judged by the oracle alone"""
    for i, f in enumerate(fs):
        if case['dim'] in f.dimensions:
            lv = f.createVariable('LABELS', 'S8', (case['dim'],))
            lv[:] = np.array(_piece_labels(case, i), dtype='S8')


def _hidden(case):
    return [v['name'] for v in _hide(case)['vars']]


def _hide(case):
    """pseudo spec for pfile.observe: variables whose fill_value attribute, if an operation adds one, only restates the mask
    (built from masked values without a fill attribute; unmasked in the first file and masked later)"""
    names = {v['name'] for s_ in case.get('files', []) for v in s_['vars'] if v.get('nofill') or v.get('latemask')}
    return dict(vars=[dict(name=n, nofill=True) for n in sorted(names)])


def _pop_labels(o):
    lo = o.variables.pop('LABELS', None)
    if lo is None:
        return None
    return [x.decode() if isinstance(x, bytes) else str(x) for x in np.asarray(lo[...]).ravel().tolist()]


def impl(case):
    if case['kind'] == 'ioapi':
        return _impl_ioapi(case)
    if case['kind'] == 'cli':
        return _impl_cli(case)
    fs = [pfile.build(s) for s in case['files']]
    if case.get('labels'):
        _add_labels(case, fs)
    res = {}
    try:
        with lib.pnc_warnings():
            o = fs[0].stack(fs[1:], case['dim'])
        if case.get('labels'):
            res['labels'] = _pop_labels(o)
        res['obs'] = pfile.observe(o, spec=_hide(case))
        if case['kind'] == 'split':
            # slicing the stacked file at each piece's extent gives the piece back
            back = []
            for a, b in zip(case['edges'][:-1], case['edges'][1:]):
                back.append(pfile.observe(o.sliceDimensions(**{case['dim']: slice(a, b)}), spec=_hide(case)))
            res['back'] = back
    except Exception as e:
        return dict(err=type(e).__name__, msg=str(e)[:100])
    if case['kind'] != 'bad':
        try:
            res.update(_multifile(case))
        except Exception as e:
            res['mf_err'] = '%s: %s' % (type(e).__name__, str(e)[:80])
    # the legacy functional front-end must agree with the method (it has no error handling: conforming input only)
    if case['kind'] != 'bad':
        try:
            from PseudoNetCDF.core._functions import stack_files
            fs2 = [pfile.build(s) for s in case['files']]
            if case.get('bigendian'):
                # variables in the other byte order, as the readers of Fortran binary files present them
                for f2 in fs2:
                    for vk in list(f2.variables):
                        v2 = f2.variables[vk]
                        if v2.dtype.kind in 'fi' and v2.dtype.itemsize > 1:
                            f2.variables[vk] = v2.astype(v2.dtype.newbyteorder('>' if sys.byteorder == 'little' else '<'))
            dimnames = {d[0] for d in case['files'][0]['dims']}
            for f2, s2 in zip(fs2, case['files']):
                # coordinate variables are declared as such (they are exempt from the duplicate warning)
                f2.setCoords([v['name'] for v in s2['vars'] if v['name'] in dimnames])
            with lib.pnc_warnings():
                o2 = stack_files(fs2, case['dim'])
            res['legacy'] = pfile.observe(o2, with_unlim=True, spec=_hide(case))
        except Exception as e:
            res['legacy_err'] = '%s: %s' % (type(e).__name__, str(e)[:80])
    return res


_SPECFILE = None


def _specfile_class():
    """a reader whose files are JSON specs (the multi-file front ends open paths)"""
    global _SPECFILE
    if _SPECFILE is None:
        import json
        import PseudoNetCDF as pnc

        def init(self, path, *a, **k):
            f = pfile.build(json.load(open(path)))
            for dk, dv in f.dimensions.items():
                self.copyDimension(dv, key=dk)
            for vk, vv in f.variables.items():
                self.copyVariable(vv, key=vk)
            for ak in f.ncattrs():
                setattr(self, ak, getattr(f, ak))
        _SPECFILE = type('specjson', (pnc.PseudoNetCDFFile,), dict(__module__='harness.readers', __qualname__='specjson',
                                                                  __init__=init))
    return _SPECFILE


def _multifile(case):
    """pncmfopen and open_mfdataset on paths given in an order that is not lexicographic, possibly with repeats"""
    import json
    import os
    import shutil
    import tempfile
    import PseudoNetCDF as pnc
    cls = _specfile_class()
    d = tempfile.mkdtemp(prefix='pncverif_c04_')
    try:
        paths = []
        for i, sp in enumerate(case['files']):
            p = os.path.join(d, 'part_%d.specjson' % (12 - 3 * i))      # 12, 9, 6, 3: argument order is not sorted order
            json.dump(sp, open(p, 'w'))
            paths.append(p)
        order = case.get('mf_order') or list(range(len(paths)))
        args = [paths[i] for i in order]
        out = {}
        with lib.pnc_warnings():
            o1 = pnc.pncmfopen(args, format='specjson', stackdim=case['dim'])
            out['mf1'] = pfile.observe(o1, spec=_hide(case))
            o2 = cls.open_mfdataset(*args, stackdim=case['dim'])
            out['mf2'] = pfile.observe(o2, spec=_hide(case))
            # default stack dimension: the unlimited one, else a time-like name
            f0 = case['files'][order[0]]
            auto = [dm[0] for dm in f0['dims'] if dm[2]] or [dm[0] for dm in f0['dims'] if dm[0] in ('TSTEP', 'time', 'Time', 't')]
            if auto and auto[0] == case['dim']:
                o3 = cls.open_mfdataset(*args)
                out['mf3'] = pfile.observe(o3, spec=_hide(case))
        return out
    finally:
        shutil.rmtree(d, True)


def to_line(case, res):
    if case['kind'] in ('ioapi', 'cli'):
        return 'c04 stack 0 x'          # no model question: judged against the original file
    toks = []
    for s in case['files']:
        toks += list(pfile.encode(s))
    return 'c04 stack %d %s %s' % (len(case['files']), ' '.join(toks), case['dim'])


def agree(case, out, res):
    if case['kind'] in ('ioapi', 'cli'):
        return None
    if 'err' in res:
        return None if out.startswith('err') else 'impl raised %s (%s), model %s' % (res['err'], res.get('msg'), out[:80])
    if not out.startswith('ok '):
        return 'model %s, impl returned' % out[:80]
    d = pfile.diff_obs(out[3:], res['obs'], hide=_hidden(case))
    if d:
        return d
    if 'legacy' in res:
        kind, d = _legacy_diff(out[3:], res['legacy'], case)
        if kind == 'other':
            return 'stack_files (legacy front-end): ' + d
    elif 'legacy_err' in res:
        return 'stack_files (legacy front-end) raised %s' % res['legacy_err']
    if 'mf_err' in res:
        return 'multi-file front end raised %s' % res['mf_err']
    if 'mf1' in res:
        order = case.get('mf_order') or list(range(len(case['files'])))
        ref = out
        if order != list(range(len(case['files']))):
            toks = []
            for i in order:
                toks += list(pfile.encode(case['files'][i]))
            ref = lib.run_model(['c04 stack %d %s %s' % (len(order), ' '.join(toks), case['dim'])])[0]
        if not ref.startswith('ok '):
            return 'model %s for the multi-file order %s' % (ref[:60], order)
        for k, nm in (('mf1', 'pncmfopen'), ('mf2', 'open_mfdataset'), ('mf3', 'open_mfdataset without stackdim')):
            if k in res:
                d = pfile.diff_obs(ref[3:], res[k], hide=_hidden(case))
                if d:
                    return '%s(paths in order %s): %s' % (nm, order, d)
    return None


def _legacy_diff(ref, legacy, case):
    """(None|'maskloss'|'other', message): stack_files vs the reference observation; 'maskloss' = the only
    differences are masked cells of variables WITHOUT the stack dimension that come back as the fill value"""
    a, b = pfile.parse_obs(ref), pfile.parse_obs(legacy)
    if a['dims'] != b['dims']:           # lengths and unlimited flags
        return 'other', 'dimensions %s vs %s' % (a['dims'], b['dims'])
    if sorted(a['vars']) != sorted(b['vars']):
        return 'other', 'variables %s vs %s' % (sorted(a['vars']), sorted(b['vars']))
    loss = None
    for k in a['vars']:
        va, vb = a['vars'][k], b['vars'][k]
        if va['dims'] != vb['dims'] or va['shape'] != vb['shape'] or va['attrs'] != vb['attrs']:
            return 'other', 'variable %s structure differs' % k
        if va['cells'] == vb['cells']:
            continue
        ca, cb = va['cells'].split(','), vb['cells'].split(',')
        if case['dim'] not in va['dims'].split('.') and len(ca) == len(cb) and \
                all(x == y or (x == '_' and y == '-999') for x, y in zip(ca, cb)):
            loss = 'variable %s (without the stack dimension) lost its mask: %s' % (k, vb['cells'][:80])
            continue
        return 'other', 'variable %s cells %s vs %s' % (k, va['cells'][:100], vb['cells'][:100])
    if a['attrs'] != b['attrs']:
        return 'other', 'file attributes differ'
    return ('maskloss', loss) if loss else (None, None)


def _expected_text(spec):
    """canonical text of a spec (what a faithful file with this content looks like)"""
    import io
    ds = ['%s:%d:%s' % (n, ln, 'u' if un else 'f') for n, ln, un in sorted(spec['dims'])]
    vs = []
    for v in sorted(spec['vars'], key=lambda x: x['name']):
        shape = pfile.shape_of(spec, v)
        cells = ['_' if x is None else str(x) for x in v['data']]
        vs.append('%s|%s|%s|%s|%s|%s' % (v['name'], '.'.join(v['dims']) or '-', 'm' if None in v['data'] else 'p',
                                        '.'.join(sorted(v['attrs'])) or '-', 'x'.join(map(str, shape)) or '-',
                                        lib.show_list(cells)))
    return 'dims=%s vars=%s attrs=%s' % (lib.show_list(ds), ';'.join(vs) or '-', '.'.join(sorted(spec['attrs'])) or '-')


def oracle(case, res):
    if case['kind'] == 'ioapi':
        return _oracle_ioapi(case, res)
    if case['kind'] == 'cli':
        return _oracle_cli(case, res)
    if case['kind'] == 'bad':
        return None
    if 'err' in res:
        return 'stacking conforming files raised %s %s' % (res['err'], res.get('msg'))
    if 'legacy' in res:
        kind, d = _legacy_diff(res['obs'], res['legacy'], case)
        if kind == 'other':
            return 'stack_files differs from PseudoNetCDFFile.stack: ' + d
        if kind == 'maskloss':
            first = _core_oracle(case, res)
            return first or ('stack_files mask loss: ' + d)
    if 'mf_err' in res:
        return 'multi-file front end raised %s' % res['mf_err']
    if case.get('labels') and 'labels' in res:
        want = [x for i in range(len(case['files'])) for x in _piece_labels(case, i)]
        if res['labels'] != want:
            return 'string variable LABELS(%s) of type S8: stacked to %s, the concatenation is %s' % (case['dim'], res['labels'], want)
    return _core_oracle(case, res) or _mf_oracle(case, res)


def _mf_oracle(case, res):
    """the multi-file front ends: concatenation in ARGUMENT order of exactly the paths given (repeats included)"""
    order = case.get('mf_order') or list(range(len(case['files'])))
    c2 = dict(kind='indep', dim=case['dim'], files=[case['files'][i] for i in order])
    for k, nm in (('mf1', 'pncmfopen'), ('mf2', 'open_mfdataset'), ('mf3', 'open_mfdataset without stackdim')):
        if k in res:
            d = _core_oracle(c2, dict(obs=res[k]))
            if d:
                return '%s(paths in order %s): %s' % (nm, order, d)
    return None


def _core_oracle(case, res):
    if case['kind'] == 'split':
        d = pfile.diff_obs(_expected_text(case['orig']), res['obs'], hide=_hidden(case))
        if d:
            return 'stack(split(f)) differs from f: ' + d
        for i, (piece, back) in enumerate(zip(case['files'], res['back'])):
            d = pfile.diff_obs(_expected_text(piece), back, hide=_hidden(case))
            if d:
                return 'slicing the stacked file at piece %d does not give the piece back: %s' % (i, d)
        return None
    # independent: concatenation in argument order; variables without the dimension from the first file
    got = pfile.parse_obs(res['obs'])
    dim = case['dim']
    total = sum({d[0]: d[1] for d in s['dims']}[dim] for s in case['files'])
    if got['dims'].get(dim, (None,))[0] != total:
        return 'stacked dimension has length %s, sum of inputs %d' % (got['dims'].get(dim), total)
    first = case['files'][0]
    for v in first['vars']:
        g = got['vars'].get(v['name'])
        if g is None:
            return 'variable %s disappeared' % v['name']
        if dim in v['dims']:
            ax = v['dims'].index(dim)
            parts = []
            for s in case['files']:
                w = [x for x in s['vars'] if x['name'] == v['name']][0]
                parts.append(np.array(w['data'], dtype=object).reshape(pfile.shape_of(s, w)))
            want = np.concatenate(parts, axis=ax).ravel().tolist()
        else:
            want = v['data']
        cells = lib.show_list(['_' if x is None else str(x) for x in want])
        if g['cells'] != cells:
            return 'variable %s holds %s, concatenation in argument order gives %s' % (v['name'], g['cells'][:100], cells[:100])
    return None


KEY_LEGACY = 'C04/stack_files/masked-variable-without-stack-dimension'


def classify(case, failure, model_out):
    return None


def witnesses():
    return []


def nontrivial(case, res):
    if case['kind'] == 'ioapi':
        return 'stack' in res
    if case['kind'] == 'cli':
        return 'runs' in res
    if len(case['files']) < 2:
        return False
    return any(case['dim'] in v['dims'] and v['dims'].index(case['dim']) > 0 for v in case['files'][0]['vars'])


def distribution(recs):
    d = {}
    for r in recs:
        k = r['case']['kind']
        d[k] = d.get(k, 0) + 1
        d['nfiles_%d' % len(r['case']['files'])] = d.get('nfiles_%d' % len(r['case']['files']), 0) + 1
        if 'err' in r['impl']:
            d['err_' + r['impl']['err']] = d.get('err_' + r['impl']['err'], 0) + 1
    return d
