"""C11 — IOAPI subsetting preserves geo- and time-referencing (windows vs the Lean Ioapi model + independent oracle)"""
import datetime as dt
from fractions import Fraction

import numpy as np

from .. import lib
from . import c10

ID = 'C11'
LEAN_MODULE = 'PncProofs.C11'
LEAN_FILE = 'PncProofs/C11.lean'
NAMESPACE = 'Props.C11'
LEAN_CONE = ['PncModel.Cal', 'PncModel.TimeDec', 'PncModel.Arr', 'PncModel.Ioapi', 'PncProofs.IoapiLemmas', 'PncProofs.C10',
             'PncProofs.C11']
LEMMA_FILES = ['PncProofs/IoapiLemmas.lean', 'PncProofs/C10.lean']
REQUIRED_THEOREMS = ['window_contiguous', 'origin_x', 'origin_y', 'origin_unchanged', 'levels_window',
                     'start_is_first_selected', 'time_window_partial', 'slice_keeps_varlist', 'time_window']
RULE = ('gridded IOAPI files (1-5 steps, 1-4 layers/rows/columns; start times just before midnight, 28/29 Feb, '
        '31 Dec of leap and common years; steps of 30 min to 120 h) x windows on 1-3 of TSTEP/LAY/ROW/COL given as '
        'positive or negative integers or unit-stride slices with None / negative / explicit bounds, incl. windows '
        'touching either edge, integers given as python ints or numpy integers: the complete metadata state after sliceDimensions is compared with the Lean model, '
        'and an independent oracle recomputes from the SOURCE file the origin (first index x cell), the level edges '
        '(sub-range, one more than layers), the decoded times (sub-range of getTimes()) and SDATE/STIME/TSTEP; '
        'non-trivial = a window that does not start at index 0 on at least one dimension; level edges decreasing (sigma) or increasing (heights)')
ASSUMPTIONS = c10.ASSUMPTIONS + ['dyadic cell sizes and level edges, so float32/float64 arithmetic of the code is exact',
                                 'time_window (full) assumes AllListed: every standard-dimension variable with a name of at most 16 characters is listed and names are distinct, which updatemeta establishes for the files the library builds; time_window_partial states the same under the bare side condition, which the harness also checks on every case']
MIN_NONTRIVIAL = {'quick': 120, 'thorough': 2000}
NPROC = {'quick': 4, 'thorough': 12}

STARTS = [(2019365, 220000), (2020059, 230000), (2019059, 233000), (2001001, 0), (2020366, 180000), (2019120, 120000),
          (1999365, 230000), (2000060, 233000),
          # the end of century years that are no leap years
          (2100365, 180000), (1900364, 120000)]


def _win(rng, L):
    k = rng.random()
    if k < 0.3:
        return ['i', rng.randrange(-L, L)] + (['np'] if rng.random() < 0.4 else [])     # python int or numpy integer
    a = rng.randrange(0, L)
    b = rng.randrange(a + 1, L + 1)
    if k < 0.5:
        return ['s', a, b]
    if k < 0.6:
        return ['s', a - L, b if b < L else None]
    if k < 0.7:
        return ['s', None, b]
    if k < 0.8:
        return ['s', a, None]
    if k < 0.9:
        return ['s', a, b - L if b < L else None]
    return ['s', a, b + rng.randint(0, 3)]          # stop beyond the end is clamped


def gen(rng, tier):
    n = 300 if tier == 'quick' else 6000
    out = []
    for _ in range(n):
        sd, st = rng.choice(STARTS)
        src = dict(kind='arrays', nt=rng.randint(1, 5), nl=rng.randint(1, 4), nr=rng.randint(1, 4), nc=rng.randint(1, 4),
                   nv=rng.randint(1, 2), sdate=sd, stime=st,
                   # steps with a seconds component too (7 min 30 s, 30 s, 1 h 20 s)
                   tstep=rng.choice([10000, 3000, 240000, 20000, 1200000, 60000, 730, 30, 10020]),
                   lv=sorted(rng.sample(range(0, 65), 5), reverse=rng.random() < 0.7), withcf=False)  # sigma-like or height-like edges
        dl = dict(TSTEP=src['nt'], LAY=src['nl'], ROW=src['nr'], COL=src['nc'])
        ds = rng.sample(sorted(dl), rng.randint(1, 3))
        src['notflag'] = rng.random() < 0.2      # the time axis lives in SDATE / STIME / TSTEP only: no TFLAG variable yet
        if rng.random() < 0.25:
            src['latlon'] = rng.choice([175., 177.5, 0., 180.])     # degrees east of the first column's western edge
            if src['latlon'] == 0.:
                src['nc'] = 4
        if not src['notflag'] and rng.random() < 0.3:
            src['tflagfirst'] = True            # TFLAG is the first variable (the layout of IOAPI files on disk)
            src['nv'] = 2
        out.append(dict(src=src, recipes=[], ops=[['slice', [[d, _win(rng, dl[d])] for d in ds]]],
                        redate=(rng.choice([7, 30, 366]) if (not src['notflag'] and rng.random() < 0.25) else 0)))
        if not src['notflag'] and src['nv'] == 2 and rng.random() < 0.25:
            # a variable was added in place since the flags were written (TFLAG still has the old VAR length); judged by the
            # independent oracle, the model is not asked
            out[-1]['precreate'] = True
    # on every run: a file described by its header only (the window's flags are generated) that runs over the end of 2100 / 1900
    for sd, ts in ((2100364, 240000), (1900365, 60000)):
        src = dict(kind='arrays', nt=5, nl=rng.randint(1, 2), nr=rng.randint(1, 2), nc=rng.randint(1, 2), nv=1, sdate=sd, stime=0,
                   tstep=ts, lv=sorted(rng.sample(range(0, 65), 5), reverse=True), withcf=False, notflag=True)
        out.append(dict(src=src, recipes=[], ops=[['slice', [['TSTEP', ['s', 1, None]]]]], redate=0))
    # on every run: files that run backward in time (negative TSTEP), with flags and described by the header only; windows of
    # two and more records
    for ts, notflag in ((-10000, False), (-13000, True), (-240000, False), (-3000, True)):
        sd, st = rng.choice(STARTS)
        src = dict(kind='arrays', nt=rng.randint(3, 5), nl=1, nr=rng.randint(1, 2), nc=rng.randint(1, 2), nv=1, sdate=sd, stime=st, tstep=ts,
                   lv=sorted(rng.sample(range(0, 65), 5), reverse=True), withcf=False, notflag=notflag)
        a = rng.randint(0, 1)
        out.append(dict(src=src, recipes=[], ops=[['slice', [['TSTEP', ['s', a, a + rng.randint(2, 3)]]]]]))
    # on every run: a combined window of a large grid (more than 2**22 cells in a variable: code paths that save memory)
    sd, st = rng.choice(STARTS)
    src = dict(kind='arrays', nt=1, nl=1, nr=2050, nc=2050, nv=1, sdate=sd, stime=st, tstep=10000,
               lv=sorted(rng.sample(range(0, 65), 5), reverse=True), withcf=False)
    out.append(dict(src=src, recipes=[], ops=[['slice', [['ROW', ['s', rng.randint(1, 9), 40]], ['COL', ['s', rng.randint(1, 9), 60]]]]]))
    # on every run: the origin held as arrays, a window that does not start at the first row / column
    for _ in range(4):
        sd, st = rng.choice(STARTS)
        src = dict(kind='arrays', nt=rng.randint(1, 3), nl=rng.randint(1, 2), nr=rng.randint(3, 4), nc=rng.randint(3, 4), nv=1, sdate=sd,
                   stime=st, tstep=10000, lv=sorted(rng.sample(range(0, 65), 5), reverse=True), withcf=False)
        out.append(dict(src=src, recipes=[], origarr=True,
                        ops=[['slice', [['ROW', ['s', rng.randint(1, 2), None]], ['COL', ['s', rng.randint(1, 2), None]]]]]))
    # the corners of the integer selectors, in every run: the last record counted from the end (the window [-1:0] is
    # empty, [-1:] is not), the first counted from the end, and numpy integers on both horizontal axes at once
    for j in range(12):
        sd, st = rng.choice(STARTS)
        src = dict(kind='arrays', nt=rng.randint(2, 5), nl=rng.randint(1, 3), nr=rng.randint(2, 4), nc=rng.randint(2, 4),
                   nv=rng.randint(1, 2), sdate=sd, stime=st, tstep=rng.choice([10000, 3000, 240000, 60000]),
                   lv=sorted(rng.sample(range(0, 65), 5), reverse=rng.random() < 0.7), withcf=False)
        np_ = ['np'] if j % 2 else []
        if j < 4:
            kw = [['TSTEP', ['i', [-1, -src['nt']][j // 2]] + np_]]
        elif j < 8:
            kw = [['ROW', ['i', rng.randrange(-src['nr'], src['nr']), 'np']], ['COL', ['i', rng.randrange(-src['nc'], src['nc']), 'np']]]
        else:
            kw = [['TSTEP', ['i', -1] + np_], [['LAY', 'ROW', 'COL'][j % 3], ['i', -1] + np_]]
        out.append(dict(src=src, recipes=[], ops=[['slice', kw]]))
    return out


def _sc(x):
    """a scalar attribute, or the element of a 0-d / one-element array"""
    return float(np.asarray(x).ravel()[0])


def impl(case):
    with lib.pnc_warnings():
        f, _ = c10.build(case['src'])
        if case.get('redate') and 'TFLAG' in f.variables:
            # the file is re-dated in place after its times were decoded once: every flag rewritten through the variable,
            # SDATE / STIME with them (a fully consistent file; what the object may remember of the old dates must not matter)
            T2 = [t + dt.timedelta(days=case['redate']) for t in f.getTimes()]
            tf = f.variables['TFLAG']
            for i, t in enumerate(T2):
                tf[i, :, 0] = int(t.strftime('%Y%j'))
                tf[i, :, 1] = int(t.strftime('%H%M%S'))
            f.SDATE, f.STIME = int(T2[0].strftime('%Y%j')), int(T2[0].strftime('%H%M%S'))
        if case['src'].get('tflagfirst') and 'TFLAG' in f.variables and hasattr(f.variables, 'move_to_end'):
            f.variables.move_to_end('TFLAG', last=False)
        if case.get('precreate'):
            nv_ = f.createVariable('NEWV', 'f', ('TSTEP', 'LAY', 'ROW', 'COL'))
            nv_.units = 'ppm'.ljust(16)
            nv_.long_name = 'NEWV'.ljust(16)
            nv_.var_desc = 'NEWV'.ljust(80)
        if case.get('origarr'):
            # the grid origin held as arrays (a 0-d and a one-element array): what `f.XORIG = np.array(...)` or a reader that
            # keeps attribute arrays leaves; the window must not shift the SOURCE's origin
            f.XORIG = np.array(_sc(f.XORIG))
            f.YORIG = np.array([_sc(f.YORIG)])
        res = dict(init=c10.obs(f), init_bad=c10.coherent(f), ops=list(case['ops']), states=[])
        T = f.getTimes()
        res['src_times'] = [int(t.strftime('%Y%j%H%M%S')) for t in T]
        res['src_geo'] = [_sc(f.XORIG), _sc(f.YORIG), _sc(f.XCELL), _sc(f.YCELL)]
        res['src_vg'] = [float(x) for x in f.VGLVLS]
        res['src_step'] = int(f.TSTEP)
        try:
            with np.errstate(all='ignore'):
                g = c10.apply_op(f, case['ops'][0])
        except Exception as e:
            res['states'].append(dict(err=type(e).__name__, msg=str(e)[:100]))
            return res
        try:
            res['states'].append(dict(st=c10.obs(g), bad=c10.coherent(g)))
        except lib.HarnessError as e:
            if 'TFLAG columns differ' not in str(e):
                raise
            # the time flags of the RESULT differ between variables: an observation about the result, not a limit of the check
            res['states'].append(dict(st=None, bad=['the time flags of the window differ from variable to variable']))
            return res
        res['out_times'] = [int(t.strftime('%Y%j%H%M%S')) for t in g.getTimes()]
        res['out_geo'] = [_sc(g.XORIG), _sc(g.YORIG), _sc(g.XCELL), _sc(g.YCELL)]
        res['src_geo_after'] = [_sc(f.XORIG), _sc(f.YORIG), _sc(f.XCELL), _sc(f.YCELL)]
        res['out_vg'] = [float(x) for x in np.atleast_1d(g.VGLVLS)]
        res['out_attr'] = [int(g.SDATE), int(g.STIME), int(g.TSTEP)]
        res['out_dims'] = {k: (len(g.dimensions[k]) if k in g.dimensions else -1) for k in ('TSTEP', 'LAY', 'ROW', 'COL')}
        res['nvars'] = [int(f.NVARS), int(g.NVARS)]
        return res


to_line = c10.to_line


def agree(case, out, res):
    if case.get('precreate') or (res['states'] and res['states'][0].get('st', 1) is None):
        return None
    return c10.agree(case, out, res)


def _idx(n, w):
    return list(range(n))[w[1]:w[1] + 1 or None] if w[0] == 'i' else list(range(n))[slice(w[1], w[2])]


def oracle(case, res):
    """recomputed from the source file only (python list slicing as the window semantics)"""
    st = res['states'][0]
    if 'err' in st:
        return 'an in-domain window raised %s %s' % (st['err'], st.get('msg'))
    if st['bad']:
        return 'metadata incoherent after the window: ' + '; '.join(st['bad'])
    src = case['src']
    n = dict(TSTEP=src['nt'], LAY=src['nl'], ROW=src['nr'], COL=src['nc'])
    kw = dict((d, w) for d, w in case['ops'][0][1])
    idx = {d: (_idx(n[d], kw[d]) if d in kw else list(range(n[d]))) for d in n}
    for d in n:
        if res['out_dims'][d] != len(idx[d]):
            return 'dimension %s has length %d, the window selects %d' % (d, res['out_dims'][d], len(idx[d]))
    if res.get('src_geo_after', res['src_geo']) != res['src_geo']:
        return 'the window moved the origin of the SOURCE file: %s -> %s' % (res['src_geo'], res['src_geo_after'])
    xo, yo, xc, yc = res['src_geo']
    want = [xo + idx['COL'][0] * xc, yo + idx['ROW'][0] * yc, xc, yc]
    if res['out_geo'] != want:
        return 'origin/cell %s, the retained cells need %s (first column %d, first row %d)' % (
            res['out_geo'], want, idx['COL'][0], idx['ROW'][0])
    wl = res['src_vg'][idx['LAY'][0]:idx['LAY'][-1] + 2]
    if res['out_vg'] != wl:
        return 'level edges %s, the retained layers have %s' % (res['out_vg'], wl)
    wt = [res['src_times'][i] for i in idx['TSTEP']]
    if res['out_times'] != wt:
        return 'decoded times %s, source times of the window %s' % (res['out_times'], wt)
    if [res['out_attr'][0] * 1000000 + res['out_attr'][1]] != wt[:1]:
        return 'SDATE/STIME %s do not equal the first retained time %s' % (res['out_attr'][:2], wt[0])
    if len(wt) > 1 and res['out_attr'][2] != res['src_step']:
        return 'TSTEP %d, source step %d' % (res['out_attr'][2], res['src_step'])
    if res['nvars'][0] != res['nvars'][1]:
        return 'the number of listed variables changed (%d -> %d): side condition of time_window_partial' % tuple(res['nvars'])
    return None


def classify(case, failure, model_out):
    return None


def nontrivial(case, res):
    if 'err' in res['states'][0]:
        return False
    src = case['src']
    n = dict(TSTEP=src['nt'], LAY=src['nl'], ROW=src['nr'], COL=src['nc'])
    return any(_idx(n[d], w)[0] != 0 for d, w in case['ops'][0][1])


def distribution(recs):
    d = {}
    for r in recs:
        for dm, w in r['case']['ops'][0][1]:
            k = '%s:%s' % (dm, 'int' if w[0] == 'i' else 'slice')
            d[k] = d.get(k, 0) + 1
        d['ndims=%d' % len(r['case']['ops'][0][1])] = d.get('ndims=%d' % len(r['case']['ops'][0][1]), 0) + 1
    return d
