"""C17 — interpolation weights (coordutil.getinterpweights) and mass-conserving sigma regridding
(coordutil.sigma2coeff, ioapi interpSigma, interpDimension) against lean/PncModel/Interp.lean"""
from fractions import Fraction

import numpy as np

from .. import lib

ID = 'C17'
LEAN_MODULE = 'PncProofs.C17'
LEAN_FILE = 'PncProofs/C17.lean'
NAMESPACE = 'Props.C17'
LEAN_CONE = ['PncModel.Interp', 'PncProofs.InterpLemmas', 'PncProofs.SigmaLemmas', 'PncProofs.C17']
LEMMA_FILES = ['PncProofs/InterpLemmas.lean', 'PncProofs/SigmaLemmas.lean']
REQUIRED_THEOREMS = ['one_level', 'one_level_apply', 'sum_one', 'nonneg', 'linear_exact', 'linear_exact_inside', 'identity',
                     'sum_one_any', 'nonneg_any', 'cover', 'thickness', 'flux', 'mass', 'const', 'apply_linear', 'apply_const', 'reduced_sum_one', 'reduced_rows_counterexample']
RULE = ('weights: strictly monotonic sources (ascending and descending, 2..7 nodes, spacings powers of two '
        'so scipy/numpy float arithmetic is exact), dyadic targets at nodes, between nodes and outside both '
        'ends, extrapolate on/off; sigma: descending edge lists from 1 to 0 with power-of-two thicknesses, '
        'dyadic target edges sharing or not sharing top/bottom, coincident and interleaved; apply: IOAPI interpSigma '
        '(conserve and linear, with and without a change of the model top vgtop, target edges naming the source pressures '
        'or not) on token data; interpdim: interpDimension with a 1-D coordinate and with an N-D coordinate variable (one '
        'weight matrix per column, identical or different source columns, different targets per column), every column '
        'against the Lean weights, numpy.interp and a linear profile; bpchsigma: GEOS-Chem interpSigma on generated 47-level '
        'files incl. thin surface layers outside the source midpoints; non-trivial = at least one '
        'target strictly between two nodes (weights) / at least one target layer overlapping two source '
        'layers (sigma); 1-D coordinates of magnitude 2^17..2^30 with a target of the same length shifted by half a step; the weights applied through interpvars along the first / second dimension of a 4-D variable; interpSigma targets that are a subset of the source edges (layers of unequal thickness merged); a numeric fill_value passed on (targets inside the source range); interpDimension with coordkey= naming another 1-D variable next to a variable named like the dimension; GEOS-Chem interpSigma on files with a reduced and a full layer dimension, target layers beyond the reduced levels')
ASSUMPTIONS = ['scipy.interpolate.interp1d linear evaluation and numpy.interp are exact on the generated '
               'dyadic grids (power-of-two source spacings)',
               'theorems are over Q; IEEE rounding on non-dyadic grids is outside the proof']
MIN_NONTRIVIAL = {'quick': 50, 'thorough': 500}


def _src(rng, n):
    x = Fraction(rng.randint(-8, 8))
    xs = [x]
    for _ in range(n - 1):
        x += Fraction(2) ** rng.randint(-3, 3)
        xs.append(x)
    return xs


def _onelevel_case(rng):
    """one source level (a surface-only file): the only line through one point is the constant, every target takes it"""
    x = Fraction(rng.randint(-20, 20), 4)
    targets = [x] if rng.random() < 0.4 else [x + Fraction(rng.randint(-8, 8), 4) for _ in range(rng.randint(1, 4))]
    return dict(kind='weights', extrapolate=rng.random() < 0.3, xs=[lib.show_rat(x)], nxs=[lib.show_rat(v) for v in targets],
                a=0, b=rng.randint(-5, 5), fillv=None)


def _weights_case(rng):
    if rng.random() < 0.06:
        return _onelevel_case(rng)
    n = rng.randint(2, 7)
    xs = _src(rng, n)
    targets = []
    for _ in range(rng.randint(1, 8)):
        k = rng.random()
        if k < 0.25:
            targets.append(rng.choice(xs))
        elif k < 0.75:
            i = rng.randrange(n - 1)
            f = Fraction(rng.randint(0, 8), 8)
            targets.append(xs[i] + (xs[i + 1] - xs[i]) * f)
        elif k < 0.87:
            targets.append(xs[0] - Fraction(rng.randint(1, 24), 8))
        else:
            targets.append(xs[-1] + Fraction(rng.randint(1, 24), 8))
    if rng.random() < 0.15:
        targets = list(xs)
    if rng.random() < 0.4:
        xs = xs[::-1]
    a, b = rng.randint(-5, 5), rng.randint(-5, 5)
    # fillv: a numeric fill_value is passed on (it may only matter for targets outside the source range: those columns
    # are then left out of the comparison)
    fillv = rng.choice([None, None, None, 'nan', '0'])
    return dict(kind='weights', extrapolate=(rng.random() < 0.35) and not fillv, xs=[lib.show_rat(v) for v in xs],
                nxs=[lib.show_rat(v) for v in targets], a=a, b=b, fillv=fillv)


def _sigma_edges(rng, n):
    """descending from 1 to 0, thicknesses powers of two"""
    # split [0,1] dyadically n-1 times
    edges = [Fraction(0), Fraction(1)]
    while len(edges) < n + 1:
        i = rng.randrange(len(edges) - 1)
        lo, hi = sorted(edges)[i], sorted(edges)[i + 1]
        if hi - lo < Fraction(1, 64):
            continue
        edges.append((lo + hi) / 2)
    # thicknesses are powers of two by construction (binary splitting)
    return sorted(edges, reverse=True)


def _sigma_case(rng, kind='sigma'):
    n = rng.randint(1, 6)
    src = _sigma_edges(rng, n)
    m = rng.randint(1, 6)
    k = rng.random()
    inner = sorted({Fraction(rng.randint(1, 63), 64) for _ in range(m - 1)}, reverse=True)
    if k < 0.25:
        inner = sorted(set(inner) | set(rng.sample(src[1:-1], min(len(src) - 2, 2))), reverse=True)
    dst = [Fraction(1)] + inner + [Fraction(0)]
    if k > 0.85:
        dst = dst[1:] if len(dst) > 2 else dst       # does not share the bottom
    elif k > 0.75:
        dst = dst[:-1] if len(dst) > 2 else dst      # does not share the top
    if rng.random() < 0.1:
        dst = list(src)
    elif rng.random() < (0.4 if kind == 'apply' else 0.15) and len(src) > 3:
        # pure collapsing: the target edges are some of the source edges (layers of unequal thickness are merged)
        keep = sorted(rng.sample(range(1, len(src) - 1), rng.randint(0, len(src) - 3)))
        dst = [src[0]] + [src[i] for i in keep] + [src[-1]]
    if rng.random() < 0.25 and len(src) > 2:
        # a target edge next to, but not on, an edge of the file (1/4096 away): it is the requested edge that counts
        e = rng.choice(src[1:-1]) + rng.choice([1, -1]) * Fraction(1, 4096)
        inner2 = sorted((set(dst[1:-1]) | {e}) - set(src[1:-1]) | {e}, reverse=True)
        dst = [dst[0]] + [x for x in inner2 if dst[-1] < x < dst[0]] + [dst[-1]]
    c = dict(kind=kind, src=[lib.show_rat(v) for v in src], dst=[lib.show_rat(v) for v in dst])
    c['data'] = [str(rng.randint(-9, 9)) for _ in range(len(src) - 1)]
    return c


def _interpdim_case(rng):
    """interpDimension along a named dimension: a 1-D coordinate with a 1-D target, or an N-D coordinate variable
    (z, x) with a target variable of the same dimensions — one weight matrix per column"""
    nz, ncol = rng.randint(2, 5), rng.randint(1, 3)
    nd = rng.random() < 0.6
    samesrc = rng.random() < 0.5          # the source columns are identical (levels broadcast over the grid)
    base = _src(rng, nz)
    srcs = [base if (samesrc or not nd) else _src(rng, nz) for _ in range(ncol)]
    if rng.random() < 0.3:
        srcs = [c[::-1] for c in srcs]
    nt = rng.randint(1, 4)
    tg = []
    for k in range(ncol if nd else 1):
        xs = srcs[k]
        lo, hi = min(xs), max(xs)
        col = []
        for _ in range(nt):
            r = rng.random()
            if r < 0.2:
                col.append(rng.choice(xs))
            elif r < 0.8:
                col.append(lo + (hi - lo) * Fraction(rng.randint(0, 16), 16))
            else:
                col.append(rng.choice([lo - Fraction(rng.randint(1, 8), 4), hi + Fraction(rng.randint(1, 8), 4)]))
        tg.append(sorted(col, reverse=xs[0] > xs[-1]))
    if not nd and rng.random() < 0.25:
        # large coordinate values (seconds since 1970, pressures in Pa) and a target of the same length shifted by half a
        # step: nowhere near "the same coordinate"
        off = Fraction(rng.choice([2 ** 30, 2 ** 17, 3 * 2 ** 28]))
        asc = srcs[0][0] < srcs[0][-1]
        st_ = rng.choice([1, 2, 4])
        base2 = [off + Fraction(i if asc else nz - 1 - i) * st_ for i in range(nz)]
        srcs = [list(base2) for _ in range(ncol)]
        sh = Fraction(1, 2) * (1 if rng.random() < 0.5 else -1)
        tg = [[v + sh for v in base2]]
    a, b = rng.randint(-4, 4), rng.randint(-5, 5)
    allin = all(min(srcs[k if nd else 0]) <= v <= max(srcs[k if nd else 0]) for k in range(len(tg)) for v in tg[k])
    # ckey: the coordinate is named with coordkey= and a variable called like the dimension (a level number) exists too
    ckey = (not nd) and rng.random() < 0.35
    fillv = rng.choice([None, 'nan', '0']) if allin else None
    return dict(kind='interpdim', nd=nd, extrapolate=(rng.random() < 0.3) and not fillv, cube=rng.choice([None, 'square', 'other']),
                ckey=ckey, fillv=fillv,
                srcs=[[lib.show_rat(v) for v in c] for c in srcs], tgts=[[lib.show_rat(v) for v in c] for c in tg],
                a=a, b=b, data=[[rng.randint(-9, 9) for _ in range(nz)] for _ in range(ncol)])


def _bpchsigma_case(rng):
    """GEOS-Chem interpSigma (linear, default arguments): a tracer with 2 or 3 layers on the 47-level grid, target
    edges inside those layers, half of the time with a thin surface layer whose midpoint lies outside the source
    midpoints (edge value, never extrapolation)"""
    return dict(kind='bpchsigma', nz=rng.choice([2, 3]), nlay=rng.randint(1, 3), thin=rng.random() < 0.6,
                # full: a second tracer on all 47 levels (linear in sigma) and one more target layer whose midpoint lies
                # between the top reduced level and the next one
                full=rng.random() < 0.6, fa=rng.randint(1, 9), fb=rng.randint(-5, 5),
                frac=[rng.randint(1, 15) for _ in range(3)], vgtop=rng.choice([5000., 10000., 1.]),
                data=[rng.randint(-9, 9) for _ in range(3)], seed=rng.randrange(1 << 30), warm=rng.random() < 0.5)


def gen(rng, tier):
    n = 300 if tier == 'quick' else 12000
    out = []
    for i in range(n):
        r = i % 8
        if r in (0, 1):
            out.append(_weights_case(rng))
        elif r in (2, 3):
            out.append(_sigma_case(rng))
        elif r == 4:
            c = _sigma_case(rng, 'apply')
            # interpSigma of IOAPI files: conserve or linear, with or without a change of the model top
            c['itype'] = rng.choice(['conserve', 'conserve', 'linear'])
            c['vgtop'] = rng.choice([None, None, 5000, 10000, 2500])
            c['same'] = rng.random() < 0.5       # target edges name the same pressures as the source edges
            out.append(c)
        elif r in (5, 6):
            out.append(_interpdim_case(rng))
        else:
            out.append(_bpchsigma_case(rng) if i % 16 == 7 else _interpdim_case(rng))
    # on every run: GEOS-Chem tracers saved on ten to nineteen levels (their dimension is named layer10 .. layer19)
    for nz in (rng.randint(10, 13), rng.randint(14, 19)):
        c = _bpchsigma_case(rng)
        c.update(nz=nz, data=[rng.randint(-9, 9) for _ in range(nz)], full=False)
        out.append(c)
    # on every run: IOAPI interpSigma with a requested edge 1/4096 away from an edge of the file, both kinds, same top
    found = 0
    for _ in range(3000):
        c = _sigma_case(rng, 'apply')
        if any(Fraction(x).denominator == 4096 for x in c['dst']) and len(c['src']) >= 4:
            c['itype'] = ['conserve', 'linear', 'conserve'][found]
            c['vgtop'] = None
            c['same'] = False
            out.append(c)
            found += 1
            if found == 3:
                break
    return out


P0 = Fraction(101325)


def _resigma(src, vgtop_old, vgtop_new):
    """the source sigma edges expressed with another model top (exact)"""
    dp0, dp1 = P0 - vgtop_old, P0 - vgtop_new
    return [(s * dp0 + vgtop_old - vgtop_new) / dp1 for s in src]


def _apply_grids(case):
    """(source edges as the library sees them after the vgtop conversion, target edges), exact"""
    src, dst = _f(case['src']), _f(case['dst'])
    vt = case.get('vgtop')
    if vt is not None and vt != 5000:
        src2 = _resigma(src, Fraction(5000), Fraction(vt))
        if case.get('same'):
            dst = list(src2)
        return src2, dst
    if case.get('same'):
        dst = list(src)
    return src, dst


def _f(xs):
    return [Fraction(v) for v in xs]


def impl(case):
    from PseudoNetCDF.coordutil import getinterpweights, sigma2coeff
    try:
        if case['kind'] == 'weights':
            xs = np.array([float(v) for v in _f(case['xs'])])
            nxs = np.array([float(v) for v in _f(case['nxs'])])
            if all(Fraction(v).denominator == 1 for v in case['xs']) and len(case['xs']) % 2 == 0:
                xs = xs.astype('i')       # level numbers, hPa levels, heights stored as integers; the targets stay fractional
            if case.get('fillv'):
                w = getinterpweights(xs, nxs, extrapolate=case['extrapolate'], fill_value=float(case['fillv']))
                inside = (nxs >= xs.min()) & (nxs <= xs.max())
                if not np.isfinite(w[:, inside]).all():
                    return dict(err='weights of targets inside the source range are not finite with fill_value=%s' % case['fillv'])
                w = np.where(inside[None, :], w, 0.)         # columns outside: not compared (see agree / oracle)
                w[0, ~inside] = 1.
            else:
                w = getinterpweights(xs, nxs, extrapolate=case['extrapolate'])
            # the same weights applied with interpvars along the first or the second dimension of a 4-D variable (two or
            # three axes behind the interpolated one; square and non-square horizontal grids), against a plain contraction
            res = dict(cols=[[lib.show_rat(v) for v in w[:, j]] for j in range(w.shape[1])])
            try:
                import PseudoNetCDF as pnc
                from PseudoNetCDF.core._functions import interpvars
                n, m = w.shape
                ax = (n + m) % 2
                other = 2 if n != 2 else 3              # keep the other dimensions' lengths different from the old one
                shape = [other, other, 2, 2 + (n + m) % 3 % 2]
                shape[ax] = n
                f = pnc.PseudoNetCDFFile()
                for dk, ln in zip('tzyx', shape):
                    f.createDimension(dk, ln)
                v = f.createVariable('V', 'd', tuple('tzyx'))
                idx = np.indices(shape)
                lin = case['a'] * xs + case['b']
                vals = np.take(lin, idx[ax]) + sum(10. ** (k + 1) * idx[k] for k in range(4) if k != ax)
                v[:] = vals
                # (as many new levels as old ones included: the weights are dim(new, old))
                if len({ln for k, ln in enumerate(shape) if k != ax} & {n}) == 0:
                    o = interpvars(f, w.T.copy(), 'tzyx'[ax])
                    got = np.asarray(o.variables['V'][:])
                    want = np.moveaxis(np.tensordot(vals, w, axes=(ax, 0)), -1, ax)
                    if got.shape != want.shape or not np.allclose(got, want, rtol=0, atol=1e-6):
                        res['ivbad'] = 'interpvars along dimension %d of a variable of shape %s: %s' % (
                            ax, shape, 'shape %s, expected %s' % (got.shape, want.shape) if got.shape != want.shape else 'values differ from the contraction with the weights')
            except Exception as e:
                res['ivbad'] = 'interpvars raised %s %s' % (type(e).__name__, str(e)[:80])
            return res
        if case['kind'] == 'interpdim':
            r = _interpdim(case)
            for k in ('A', 'LIN', 'coord', 'levelno'):
                if k in r and not np.isfinite(np.asarray(r[k], dtype='d')).all():
                    return dict(err='interpDimension gives non-finite values in %s: %s' % (k, r[k]))
            return r
        if case['kind'] == 'bpchsigma':
            return _bpchsigma(case)
        src = np.array([float(v) for v in _f(case['src'])], dtype='f')
        dst = np.array([float(v) for v in _f(case['dst'])], dtype='f')
        if case['kind'] == 'sigma':
            c = sigma2coeff(src, dst)
            res = dict(cols=[[lib.show_rat(v) for v in c[:, j]] for j in range(c.shape[1])])
            # the mass-conserving weights (several source layers per target layer) applied with interpvars along a dimension
            # of a 3-D variable, against the plain contraction
            try:
                import PseudoNetCDF as pnc
                from PseudoNetCDF.core._functions import interpvars
                dp, ndp = -np.diff(src.astype('d')), -np.diff(dst.astype('d'))
                n, m = c.shape
                if n != m and n > 2 and (ndp > 0).all() and n not in (2 + n % 2, 3):
                    W = (c * dp[:, None] / ndp[None, :]).T          # (new, old)
                    f = pnc.PseudoNetCDFFile()
                    shape = [2 + n % 2, n, 3]
                    for dk, ln in zip('tzx', shape):
                        f.createDimension(dk, ln)
                    v = f.createVariable('V', 'd', tuple('tzx'))
                    idx = np.indices(shape)
                    vals = 2.5 + idx[1] * (idx[1] + 1.) + 10. * idx[0] + 100. * idx[2]
                    v[:] = vals
                    # an integer-typed variable next to it (counts, class codes): the weighted sum of its values, cut to an
                    # integer only when it is stored
                    vi = f.createVariable('N', 'i', tuple('tzx'))
                    ivals = (vals * 4).astype('i')
                    vi[:] = ivals
                    of = interpvars(f, W.copy(), 'z')
                    got = np.asarray(of.variables['V'][:])
                    want = np.moveaxis(np.tensordot(vals, W.T, axes=(1, 0)), -1, 1)
                    goti = np.asarray(of.variables['N'][:], dtype='d')
                    wanti = np.moveaxis(np.tensordot(ivals.astype('d'), W.T, axes=(1, 0)), -1, 1)
                    if goti.shape == wanti.shape and np.abs(goti - wanti).max() > 1.0 + 1e-6:
                        res['ivbad'] = 'interpvars on an int32 variable (%d -> %d layers): %s, the weighted sums are %s' % (
                            n, m, goti.ravel()[:4].tolist(), wanti.ravel()[:4].tolist())
                    if got.shape != want.shape or not np.allclose(got, want, rtol=0, atol=1e-6):
                        res['ivbad'] = 'interpvars with mass-conserving weights (%d -> %d layers): %s' % (
                            n, m, 'shape %s, expected %s' % (got.shape, want.shape) if got.shape != want.shape
                            else 'values differ from the contraction with the weights')
            except lib.HarnessError:
                raise
            except Exception as e:
                res['ivbad'] = 'interpvars with mass-conserving weights raised %s %s' % (type(e).__name__, str(e)[:80])
            return res
        # apply: interpSigma(conserve) on a small IOAPI file; values are float so compare approximately
        return _apply(case, src, dst)
    except Exception as e:
        return dict(err=type(e).__name__ + ':' + str(e)[:100])


def _apply(case, src, dst):
    import PseudoNetCDF as pnc
    from PseudoNetCDF.cmaqfiles import ioapi_base
    nl = len(src) - 1
    f = ioapi_base()
    f.createDimension('TSTEP', 1).setunlimited(True)
    f.createDimension('LAY', nl)
    f.createDimension('ROW', 1)
    f.createDimension('COL', 2)
    f.createDimension('VAR', 1)
    f.createDimension('DATE-TIME', 2)
    data = np.array([float(v) for v in case['data']], dtype='f')
    v = f.createVariable('O3', 'f', ('TSTEP', 'LAY', 'ROW', 'COL'))
    v.units = 'ppm'.ljust(16)
    v.long_name = 'O3'.ljust(16)
    v.var_desc = 'O3'.ljust(80)
    v[0, :, 0, 0] = data
    v[0, :, 0, 1] = 3.0
    f.VGLVLS = src
    f.VGTOP = np.float32(5000)
    f.NLAYS = nl
    f.SDATE = 2019001
    f.STIME = 0
    f.TSTEP = 10000
    f.NVARS = 1
    setattr(f, 'VAR-LIST', 'O3'.ljust(16))
    f.updatemeta()
    vg0 = np.array(f.VGLVLS, dtype='d').copy()
    if case.get('itype'):
        dst = np.array([float(v) for v in _apply_grids(case)[1]], dtype='d')
        f.interpSigma(dst, vgtop=case.get('vgtop'), interptype=case['itype'])     # the same object was regridded before
        o = f.interpSigma(dst, vgtop=case.get('vgtop'), interptype=case['itype'])
    else:
        f.interpSigma(dst, interptype='conserve')
        o = f.interpSigma(dst, interptype='conserve')
    nv = o.variables['O3']
    return dict(vals=[float(x) for x in nv[0, :, 0, 0]], const=[float(x) for x in nv[0, :, 0, 1]],
                nlay=len(o.dimensions['LAY']), vglvls=[lib.show_rat(x) for x in o.VGLVLS],
                srcchanged=(None if np.array_equal(vg0, np.array(f.VGLVLS, dtype='d')) else
                            'VGLVLS of the source file changed from %s to %s' % (vg0.tolist(), np.array(f.VGLVLS, dtype='d').tolist())))


def _levelno(xs):
    """the values of a variable named like the dimension that is not the coordinate (an altitude next to the pressure
    that is interpolated on): linear in the coordinate, so that it has to come out linear in the targets"""
    return [3 * Fraction(x) + 7 for x in xs]


def _interpdim(case):
    import PseudoNetCDF as pnc
    srcs = [[float(Fraction(v)) for v in c] for c in case['srcs']]
    tgts = [[float(Fraction(v)) for v in c] for c in case['tgts']]
    nz, ncol, nt = len(srcs[0]), len(srcs), len(tgts[0])
    f = pnc.PseudoNetCDFFile()
    f.createDimension('z', nz)
    f.createDimension('x', ncol)
    data = np.array(case['data'], dtype='d').T                  # (z, x)
    kwf = dict(fill_value=float(case['fillv'])) if case.get('fillv') else {}
    lin = np.array([[case['a'] * float(Fraction(v)) + case['b'] for v in c] for c in case['srcs']], dtype='d').T
    if case['nd']:
        zc = f.createVariable('ZH', 'd', ('z', 'x'))
        zc[:] = np.array(srcs).T
        for k, arr in (('A', data), ('LIN', lin)):
            v = f.createVariable(k, 'd', ('z', 'x'))
            v[:] = arr
        w = f.createVariable('W', 'd', ('x',))
        w[:] = np.arange(ncol)
        g = pnc.PseudoNetCDFFile()
        g.createDimension('z', nt)
        g.createDimension('x', ncol)
        tv = g.createVariable('ZH', 'd', ('z', 'x'))
        tv[:] = np.array(tgts).T
        o = f.interpDimension('z', tv, coordkey='ZH', extrapolate=case['extrapolate'], **kwf)
    else:
        intc = all(Fraction(v).denominator == 1 for v in case['srcs'][0]) and len(case['data'][0]) % 2 == 0
        zc = f.createVariable('P' if case.get('ckey') else 'z', 'i' if intc else 'd', ('z',))
        zc[:] = srcs[0]
        if case.get('ckey'):
            lv = f.createVariable('z', 'd', ('z',))
            lv[:] = [float(x) for x in _levelno(case['srcs'][0])]
            kwf['coordkey'] = 'P'
        for k, arr in (('A', data), ('LIN', lin)):
            v = f.createVariable(k, 'd', ('z', 'x'))
            v[:] = arr
        w = f.createVariable('W', 'd', ('x',))
        w[:] = np.arange(ncol)
        ny = None
        if case.get('cube'):
            # a variable with two axes behind the interpolated one (a square or a non-square horizontal grid)
            ny = ncol if case['cube'] == 'square' else ncol + 1
            f.createDimension('y', ny)
            b3 = f.createVariable('B3', 'd', ('z', 'x', 'y'))
            b3[:] = lin[:, :, None] + 100. * np.arange(ny)[None, None, :] + 1000. * np.arange(ncol)[None, :, None]
        o = f.interpDimension('z', np.array(tgts[0]), extrapolate=case['extrapolate'], **kwf)
        ck = 'P' if case.get('ckey') else 'z'
        extra = dict(levelno=np.asarray(o.variables['z'][:]).tolist()) if case.get('ckey') else {}
        if ny:
            got3 = np.asarray(o.variables['B3'][:])
            lin_out = np.asarray(o.variables['LIN'][:])
            want3 = lin_out[:, :, None] + 100. * np.arange(ny)[None, None, :] + 1000. * np.arange(ncol)[None, :, None]
            b3bad = None if (got3.shape == want3.shape and np.allclose(got3, want3, rtol=0, atol=1e-6)) else \
                'shape %s, expected %s%s' % (got3.shape, want3.shape, '' if got3.shape != want3.shape else ' (values differ)')
            return dict(A=np.asarray(o.variables['A'][:]).T.tolist(), LIN=lin_out.T.tolist(), coord=np.asarray(o.variables[ck][:]).T.tolist(),
                        W=np.asarray(o.variables['W'][:]).tolist(), nz=len(o.dimensions['z']), b3bad=b3bad, **extra)
        return dict(A=np.asarray(o.variables['A'][:]).T.tolist(), LIN=np.asarray(o.variables['LIN'][:]).T.tolist(),
                    coord=np.asarray(o.variables[ck][:]).T.tolist(),
                    W=np.asarray(o.variables['W'][:]).tolist(), nz=len(o.dimensions['z']), **extra)
    return dict(A=np.asarray(o.variables['A'][:]).T.tolist(), LIN=np.asarray(o.variables['LIN'][:]).T.tolist(),
                coord=np.asarray(o.variables['ZH'][:]).T.tolist(),
                W=np.asarray(o.variables['W'][:]).tolist(), nz=len(o.dimensions['z']))


def _bpchsigma(case):
    import contextlib
    import io
    import os
    import random
    import shutil
    import tempfile
    from .. import bpchfmt as B
    from .. import camx
    from PseudoNetCDF.geoschemfiles._bpch import bpch1
    rng = random.Random(case['seed'])
    c = B.gen(rng, maxt=1)
    blk = dict(cat='IJ-AVG-$', off=0, nz=case['nz'], start=[1, 1, 1])
    blk.update(dict(zip(('tid', 'name', 'scale', 'unit', 'carbon'), B.TRACERS[0][0])))
    c.update(nt=1, nx=1, ny=1, blocks=[blk], start=[1, 1, 1], tperm=[0], modelname='GEOS5_47L', unit_in_file=True,
             data=[[[camx.f32bits(float(x)) for x in case['data'][:case['nz']]]]])
    d = tempfile.mkdtemp(prefix='c17b_', dir=camx.tmpdir())
    try:
        with lib.pnc_warnings(), contextlib.redirect_stdout(io.StringIO()):
            p = os.path.join(d, 'a.bpch')
            open(p, 'wb').write(B.encode(c))
            B.tables(c, d)
            f = bpch1(p, noscale=True)
            etai = np.asarray(f.variables['etai_pressure'][:], dtype='d') * 100
            my = (etai - case['vgtop']) / (etai[0] - case['vgtop'])
            zs = (my[:-1] + my[1:]) / 2.
            nz = case['nz']
            if case.get('full'):
                # the same file again with a second tracer on every level, linear in the layer midpoints
                blk2 = dict(cat='IJ-AVG-$', off=0, nz=len(zs), start=[1, 1, 1])
                blk2.update(dict(zip(('tid', 'name', 'scale', 'unit', 'carbon'), B.TRACERS[0][1])))
                fdata = [float(np.float32(case['fa'] * z + case['fb'])) for z in zs]
                c.update(blocks=[blk, blk2], data=[[c['data'][0][0], [camx.f32bits(x) for x in fdata]]])
                del f
                p = os.path.join(d, 'b.bpch')
                open(p, 'wb').write(B.encode(c))
                f = bpch1(p, noscale=True)
            # target edges between sigma = 1 and the midpoint of source layer nz
            span = 1.0 - zs[nz - 1]
            us = sorted({x / 16.0 for x in case['frac'][:case['nlay']]})
            edges = [1.0] + ([1.0 - (1.0 - zs[0]) / 4.0] if case['thin'] else []) + [1.0 - u * span for u in us]
            edges = sorted(set(edges), reverse=True)
            if len(edges) < 2:
                edges = [1.0, 1.0 - span]
            if case.get('full'):
                edges.append(zs[nz - 1] + zs[nz] - edges[-1])
            vg = np.array(edges, dtype='d')
            if case.get('warm'):
                # the same object was interpolated before, to another grid with the same number of layers
                f.interpSigma(1.0 - (1.0 - vg) * 0.75, vgtop=case['vgtop'])
            o = f.interpSigma(vg, vgtop=case['vgtop'])
            key = 'IJ-AVG-$_' + blk['name']
            got = np.asarray(o.variables[key][0, :, 0, 0], dtype='d').tolist()
            nzs = ((vg[:-1] + vg[1:]) / 2.).tolist()
            if case.get('full'):
                # both tracers on every target layer: the reduced one keeps its top value above its top
                gotf = np.asarray(o.variables['IJ-AVG-$_' + blk2['name']][0, :, 0, 0], dtype='d').tolist()
                return dict(got=got, zs=zs[:nz].tolist(), nzs=nzs, data=[float(x) for x in case['data'][:nz]],
                            full=gotf, fzs=zs.tolist(), fnzs=nzs, fdata=fdata)
            return dict(got=got, zs=zs[:nz].tolist(), nzs=nzs, data=[float(x) for x in case['data'][:nz]])
    finally:
        shutil.rmtree(d, True)


def to_line(case, res):
    if case['kind'] == 'interpdim':
        k = 0
        return 'c17 linear %d %s %s %s' % (1 if case['extrapolate'] else 0, lib.show_list(case['srcs'][k]),
                                           lib.show_list(case['tgts'][0]), lib.show_list([str(x) for x in case['data'][k]]))
    if case['kind'] == 'bpchsigma':
        if 'zs' not in res:
            return 'c17 linear 0 0,1 0 0,0'
        return 'c17 linear 0 %s %s %s' % (lib.show_list([lib.show_rat(Fraction(x)) for x in res['zs']]),
                                          lib.show_list([lib.show_rat(Fraction(x)) for x in res['nzs']]),
                                          lib.show_list([lib.show_rat(Fraction(x)) for x in res['data']]))
    if case['kind'] == 'apply' and case.get('itype'):
        src, dst = _apply_grids(case)
        if case['itype'] == 'linear':
            zs = [(src[i] + src[i + 1]) / 2 for i in range(len(src) - 1)]
            nzs = [(dst[i] + dst[i + 1]) / 2 for i in range(len(dst) - 1)]
            if len(zs) < 2:
                return 'c17 linear 0 0,1 0 0,0'
            return 'c17 linear 0 %s %s %s' % (lib.show_list(zs, lib.show_rat), lib.show_list(nzs, lib.show_rat),
                                              lib.show_list(case['data']))
        return 'c17 conserve %s %s %s' % (lib.show_list(src, lib.show_rat), lib.show_list(dst, lib.show_rat),
                                          lib.show_list(case['data']))
    if case['kind'] == 'weights':
        return 'c17 weights %d %s %s' % (1 if case['extrapolate'] else 0, lib.show_list(case['xs']),
                                          lib.show_list(case['nxs']))
    if case['kind'] == 'sigma':
        return 'c17 sigma %s %s' % (lib.show_list(case['src']), lib.show_list(case['dst']))
    return 'c17 conserve %s %s %s' % (lib.show_list(case['src']), lib.show_list(case['dst']),
                                      lib.show_list(case['data']))


def agree(case, out, res):
    toks = out.split(' ')
    if 'err' in res:
        return None if toks[0] == 'err' else 'impl raised %s, model %s' % (res['err'], out[:80])
    if toks[0] != 'ok':
        return 'model %s but impl returned' % out
    if case['kind'] == 'interpdim':
        return _agree_interpdim(case, res)
    if case['kind'] == 'bpchsigma':
        mv = [float(Fraction(x)) for x in toks[1].split(',')]
        if len(mv) != len(res['got']):
            return 'bpch interpSigma: %d layers, model %d' % (len(res['got']), len(mv))
        for a, b in zip(mv, res['got']):
            if abs(a - b) > 1e-6 * max(1.0, abs(a)):
                return 'bpch interpSigma value model=%r impl=%r (source midpoints %s, targets %s)' % (a, b, res['zs'][:3], res['nzs'])
        if 'full' in res:
            sr = lambda xs: lib.show_list([lib.show_rat(Fraction(x)) for x in xs])
            o = lib.run_model(['c17 linear 0 %s %s %s' % (sr(res['fzs']), sr(res['fnzs']), sr(res['fdata']))])[0]
            if not o.startswith('ok '):
                return 'model %s' % o[:40]
            mf = [float(Fraction(x)) for x in o[3:].split(',')]
            if len(mf) != len(res['full']) or any(abs(a - b) > 1e-6 * max(1.0, abs(a)) for a, b in zip(mf, res['full'])):
                return 'bpch interpSigma, tracer on all levels next to a reduced one: model=%s impl=%s' % (mf, res['full'])
        return None
    if case['kind'] == 'apply' and case.get('itype') == 'linear' and len(case['src']) < 3:
        return None         # a single source layer: interp1d needs two nodes (the library raises)
    if case['kind'] == 'weights' and case.get('fillv'):
        xs, nxs = _f(case['xs']), _f(case['nxs'])
        mcols = toks[1].split(';')
        for j, t in enumerate(nxs):
            if min(xs) <= t <= max(xs) and mcols[j] != lib.show_list(res['cols'][j]):
                return 'weights with fill_value=%s for the inside target %s: model=%s impl=%s' % (case['fillv'], t, mcols[j], res['cols'][j])
        return None
    if case['kind'] in ('weights', 'sigma'):
        mine = lib.show_rows(res['cols'])
        return None if toks[1] == mine else 'matrix model=%s impl=%s' % (toks[1], mine)
    # apply: model gives exact rationals (or _ for 0/0); impl floats
    mvals = toks[1].split(',')
    if len(mvals) != len(res['vals']):
        return 'length model=%d impl=%d' % (len(mvals), len(res['vals']))
    for mv, iv in zip(mvals, res['vals']):
        if mv == '_':
            if iv == iv:
                return 'model 0/0, impl %r' % iv
        elif abs(float(Fraction(mv)) - iv) > 1e-5 * max(1.0, abs(iv)):
            return 'value model=%s impl=%r' % (mv, iv)
    want = [lib.show_rat(x) for x in _apply_grids(case)[1]] if case.get('itype') else case['dst']
    if res['nlay'] != len(want) - 1 or len(res['vglvls']) != len(want) or any(
            abs(float(Fraction(a)) - float(Fraction(b))) > 1e-6 for a, b in zip(res['vglvls'], want)):
        return 'VGLVLS/NLAYS of the result: %s %s' % (res['vglvls'], res['nlay'])
    return None


def _agree_interpdim(case, res):
    """every column against the Lean weights applied to that column's source/target coordinates"""
    ncol = len(case['srcs'])
    lines = []
    for k in range(ncol):
        t = case['tgts'][k if case['nd'] else 0]
        for data in ([str(x) for x in case['data'][k]],
                     [lib.show_rat(case['a'] * Fraction(v) + case['b']) for v in case['srcs'][k]]):
            lines.append('c17 linear %d %s %s %s' % (1 if case['extrapolate'] else 0, lib.show_list(case['srcs'][k]),
                                                     lib.show_list(t), lib.show_list(data)))
    if case.get('ckey'):
        lines.append('c17 linear %d %s %s %s' % (1 if case['extrapolate'] else 0, lib.show_list(case['srcs'][0]),
                                                 lib.show_list(case['tgts'][0]),
                                                 lib.show_list([lib.show_rat(x) for x in _levelno(case['srcs'][0])])))
    outs = lib.run_model(lines)
    if case.get('ckey'):
        o = outs[-1]
        if not o.startswith('ok '):
            return 'model %s' % o[:40]
        mv = [Fraction(x) for x in o[3:].split(',')]
        got = res.get('levelno', [])
        if len(mv) != len(got) or any(Fraction(g) != m for g, m in zip(got, mv)):
            return 'interpDimension with coordkey: the variable named like the dimension: model %s impl %s' % ([str(x) for x in mv], got)
    for k in range(ncol):
        for j, key in enumerate(('A', 'LIN')):
            o = outs[2 * k + j]
            if not o.startswith('ok '):
                return 'model %s' % o[:40]
            mv = [Fraction(x) for x in o[3:].split(',')]
            got = res[key][k]
            if len(mv) != len(got) or any(Fraction(g) != m for g, m in zip(got, mv)):
                return 'interpDimension column %d of %s: model %s impl %s' % (k, key, [str(x) for x in mv], got)
    return None


def _oracle_interpdim(case, res):
    ncol = len(case['srcs'])
    nt = len(case['tgts'][0])
    if res['nz'] != nt:
        return 'dimension z has length %d after interpolation to %d values' % (res['nz'], nt)
    if res['W'] != list(range(ncol)):
        return 'a variable without the interpolated dimension changed'
    if res.get('b3bad'):
        return 'a variable (z, x, y) that is linear in z at every (x, y) is not interpolated like the (z, x) variable: %s' % res['b3bad']
    for k in range(ncol):
        xs = [Fraction(v) for v in case['srcs'][k]]
        t = [Fraction(v) for v in case['tgts'][k if case['nd'] else 0]]
        lo, hi = min(xs), max(xs)
        # the coordinate itself becomes the target (linear in itself)
        coord = res['coord'][k] if case['nd'] else res['coord']
        for j, tv in enumerate(t):
            inside = lo <= tv <= hi
            cl = tv if (inside or case['extrapolate']) else (lo if tv < lo else hi)
            intc = (not case['nd']) and all(Fraction(v).denominator == 1 for v in case['srcs'][0]) and len(case['data'][0]) % 2 == 0
            if Fraction(coord[j]) != cl and not (intc and Fraction(coord[j]) == int(cl)):
                # (an integer-typed coordinate variable keeps its type: the C cast of the interpolated value)
                return 'interpolated coordinate of column %d is %s at target %s' % (k, coord[j], tv)
            if case.get('ckey') and k == 0 and Fraction(res['levelno'][j]) != 3 * cl + 7:
                return 'interpDimension with coordkey: the variable named like the dimension (3*coordinate+7) is %s at target %s' % (res['levelno'][j], tv)
            if Fraction(res['LIN'][k][j]) != case['a'] * cl + case['b']:
                return 'linear profile %d*z%+d not reproduced in column %d at %s: %s' % (case['a'], case['b'], k, tv, res['LIN'][k][j])
            # plain numpy on the column
            asc = xs[0] < xs[-1]
            xp = [float(v) for v in (xs if asc else xs[::-1])]
            fp = case['data'][k] if asc else case['data'][k][::-1]
            if inside and abs(np.interp(float(tv), xp, fp) - res['A'][k][j]) > 1e-9:
                return 'column %d at %s: %s, numpy.interp gives %s' % (k, tv, res['A'][k][j], np.interp(float(tv), xp, fp))
    return None


def oracle(case, res):
    if 'err' in res:
        if case['kind'] == 'apply' and case.get('itype') == 'linear' and len(case['src']) < 3:
            return None
        return 'raised ' + res['err']
    if case['kind'] == 'interpdim':
        return _oracle_interpdim(case, res)
    if case['kind'] == 'bpchsigma':
        lo, hi = min(res['data']), max(res['data'])
        if any(x < lo - 1e-9 or x > hi + 1e-9 for x in res['got']):
            return 'interpolated values %s leave the range of the source values %s without extrapolation' % (res['got'], res['data'])
        if 'full' in res:
            # linear in the layer midpoints: reproduced at every target midpoint inside them
            for t, x in zip(res['fnzs'], res['full']):
                want = case['fa'] * t + case['fb']
                if min(res['fzs']) <= t <= max(res['fzs']) and abs(x - want) > 1e-5 * max(1.0, abs(want)):
                    return 'tracer on all levels, linear in sigma (%d*s%+d), next to a reduced one: %r at midpoint %r, expected %r' % (case['fa'], case['fb'], x, t, want)
        return None
    if case['kind'] == 'weights':
        if res.get('ivbad'):
            return res['ivbad']
        xs, nxs = _f(case['xs']), _f(case['nxs'])
        a, b = case['a'], case['b']
        lo, hi = min(xs), max(xs)
        for t, colw in zip(nxs, res['cols']):
            w = _f(colw)
            if case.get('fillv') and not lo <= t <= hi:
                continue
            if sum(w) != 1:
                return 'weights for target %s sum to %s' % (t, sum(w))
            if not case['extrapolate'] and min(w) < 0:
                return 'negative weight %s for target %s without extrapolation' % (min(w), t)
            val = sum(wi * (a * xi + b) for wi, xi in zip(w, xs))
            if case['extrapolate'] or lo <= t <= hi:
                if val != a * t + b:
                    return 'linear profile not reproduced at %s: %s != %s' % (t, val, a * t + b)
            else:
                edge = lo if t < lo else hi
                if val != a * edge + b:
                    return 'edge value not used outside at %s' % t
            if t in xs:
                k = xs.index(t)
                if w != [Fraction(int(i == k)) for i in range(len(xs))]:
                    return 'target equal to source node %d does not give unit weights: %s' % (k, w)
        return None
    if res.get('ivbad'):
        return res['ivbad']
    if res.get('srcchanged'):
        return 'interpSigma changed the file it was called on: ' + res['srcchanged']
    src, dst = _f(case['src']), _f(case['dst'])
    if case['kind'] == 'apply' and case.get('itype'):
        src, dst = _apply_grids(case)
        if case.get('same'):
            # the target names the same pressures: the field must come back unchanged (both interpolation types)
            data = [float(Fraction(v)) for v in case['data']]
            if len(res['vals']) != len(data) or any(abs(a - b) > 1e-4 * max(1.0, abs(a)) for a, b in zip(data, res['vals'])):
                return 'target edges equal to the source edges (vgtop %s): %s became %s' % (case.get('vgtop'), data, res['vals'])
        if case['itype'] == 'linear':
            return None
    shared = src[0] == dst[0] and src[-1] == dst[-1]
    dp = [src[i] - src[i + 1] for i in range(len(src) - 1)]
    ndp = [dst[i] - dst[i + 1] for i in range(len(dst) - 1)]
    if case['kind'] == 'sigma':
        if not shared:
            return None
        cols = [_f(c) for c in res['cols']]
        for l in range(len(dp)):
            s = sum(c[l] for c in cols)
            if s != 1:
                return 'source layer %d is covered %s times' % (l, s)
        for j, c in enumerate(cols):
            th = sum(d * x for d, x in zip(dp, c))
            if th != ndp[j]:
                return 'target layer %d thickness %s from coefficients, %s from edges' % (j, th, ndp[j])
        return None
    # apply
    if not shared:
        return None
    data = [float(Fraction(v)) for v in case['data']]
    m0 = sum(float(d) * x for d, x in zip(dp, data))
    m1 = sum(float(d) * x for d, x in zip(ndp, res['vals']))
    if abs(m0 - m1) > 1e-5 * max(1.0, abs(m0)):
        return 'column integral %r became %r' % (m0, m1)
    if any(abs(x - 3.0) > 1e-5 for x in res['const']):
        return 'constant field 3 became %s' % res['const']
    return None


def classify(case, failure, model_out):
    return None


def nontrivial(case, res):
    if case['kind'] == 'interpdim':
        return 'A' in res and len(case['srcs'][0]) > 2
    if case['kind'] == 'bpchsigma':
        return 'got' in res
    if 'cols' not in res:
        return case['kind'] == 'apply' and len(case['src']) > 2
    for c in res['cols']:
        if sum(1 for v in c if v != '0') >= 2:
            return True
    return False


def distribution(recs):
    d = {}
    for r in recs:
        c = r['case']
        k = c['kind']
        d[k] = d.get(k, 0) + 1
        if k in ('interpdim', 'bpchsigma'):
            if k == 'interpdim':
                d['interpdim_nd' if c['nd'] else 'interpdim_1d'] = d.get('interpdim_nd' if c['nd'] else 'interpdim_1d', 0) + 1
            continue
        if k == 'weights':
            key = 'desc' if Fraction(c['xs'][0]) > Fraction(c['xs'][-1]) else 'asc'
            d[key] = d.get(key, 0) + 1
            if c['extrapolate']:
                d['extrapolate'] = d.get('extrapolate', 0) + 1
        else:
            sh = c['src'][0] == c['dst'][0] and c['src'][-1] == c['dst'][-1]
            d['shared' if sh else 'notshared'] = d.get('shared' if sh else 'notshared', 0) + 1
        if 'err' in r['impl']:
            d['impl_err'] = d.get('impl_err', 0) + 1
    return d
