"""C17 — interpolation weights (coordutil.getinterpweights) and mass-conserving sigma regridding
(coordutil.sigma2coeff, ioapi interpSigma, interpDimension) against lean/PncModel/Interp.lean"""
from fractions import Fraction

import numpy as np

from .. import lib

ID = 'C17'
LEAN_MODULE = 'PncProofs.C17'
LEAN_FILE = 'PncProofs/C17.lean'
NAMESPACE = 'Props.C17'
LEAN_CONE = ['PncModel.Interp', 'PncProofs.InterpLemmas', 'PncProofs.SigmaLemmas', 'PncProofs.C17']
LEMMA_FILES = ['PncProofs/InterpLemmas.lean', 'PncProofs/SigmaLemmas.lean']
REQUIRED_THEOREMS = ['sum_one', 'nonneg', 'linear_exact', 'linear_exact_inside', 'identity',
                     'sum_one_any', 'nonneg_any', 'cover', 'thickness', 'flux', 'mass', 'const']
RULE = ('weights: strictly monotonic sources (ascending and descending, 2..7 nodes, spacings powers of two '
        'so scipy/numpy float arithmetic is exact), dyadic targets at nodes, between nodes and outside both '
        'ends, extrapolate on/off; sigma: descending edge lists from 1 to 0 with power-of-two thicknesses, '
        'dyadic target edges sharing or not sharing top/bottom, coincident and interleaved; apply: the '
        'matrices applied through interpDimension / interpSigma on token data; non-trivial = at least one '
        'target strictly between two nodes (weights) / at least one target layer overlapping two source '
        'layers (sigma)')
ASSUMPTIONS = ['scipy.interpolate.interp1d linear evaluation and numpy.interp are exact on the generated '
               'dyadic grids (power-of-two source spacings)',
               'theorems are over Q; IEEE rounding on non-dyadic grids is outside the proof']
MIN_NONTRIVIAL = {'quick': 50, 'thorough': 500}


def _src(rng, n):
    x = Fraction(rng.randint(-8, 8))
    xs = [x]
    for _ in range(n - 1):
        x += Fraction(2) ** rng.randint(-3, 3)
        xs.append(x)
    return xs


def _weights_case(rng):
    n = rng.randint(2, 7)
    xs = _src(rng, n)
    targets = []
    for _ in range(rng.randint(1, 8)):
        k = rng.random()
        if k < 0.25:
            targets.append(rng.choice(xs))
        elif k < 0.75:
            i = rng.randrange(n - 1)
            f = Fraction(rng.randint(0, 8), 8)
            targets.append(xs[i] + (xs[i + 1] - xs[i]) * f)
        elif k < 0.87:
            targets.append(xs[0] - Fraction(rng.randint(1, 24), 8))
        else:
            targets.append(xs[-1] + Fraction(rng.randint(1, 24), 8))
    if rng.random() < 0.15:
        targets = list(xs)
    if rng.random() < 0.4:
        xs = xs[::-1]
    a, b = rng.randint(-5, 5), rng.randint(-5, 5)
    return dict(kind='weights', extrapolate=rng.random() < 0.35, xs=[lib.show_rat(v) for v in xs],
                nxs=[lib.show_rat(v) for v in targets], a=a, b=b)


def _sigma_edges(rng, n):
    """descending from 1 to 0, thicknesses powers of two"""
    # split [0,1] dyadically n-1 times
    edges = [Fraction(0), Fraction(1)]
    while len(edges) < n + 1:
        i = rng.randrange(len(edges) - 1)
        lo, hi = sorted(edges)[i], sorted(edges)[i + 1]
        if hi - lo < Fraction(1, 64):
            continue
        edges.append((lo + hi) / 2)
    # thicknesses are powers of two by construction (binary splitting)
    return sorted(edges, reverse=True)


def _sigma_case(rng, kind='sigma'):
    n = rng.randint(1, 6)
    src = _sigma_edges(rng, n)
    m = rng.randint(1, 6)
    k = rng.random()
    inner = sorted({Fraction(rng.randint(1, 63), 64) for _ in range(m - 1)}, reverse=True)
    if k < 0.25:
        inner = sorted(set(inner) | set(rng.sample(src[1:-1], min(len(src) - 2, 2))), reverse=True)
    dst = [Fraction(1)] + inner + [Fraction(0)]
    if k > 0.85:
        dst = dst[1:] if len(dst) > 2 else dst       # does not share the bottom
    elif k > 0.75:
        dst = dst[:-1] if len(dst) > 2 else dst      # does not share the top
    if rng.random() < 0.1:
        dst = list(src)
    c = dict(kind=kind, src=[lib.show_rat(v) for v in src], dst=[lib.show_rat(v) for v in dst])
    c['data'] = [str(rng.randint(-9, 9)) for _ in range(len(src) - 1)]
    return c


def gen(rng, tier):
    n = 300 if tier == 'quick' else 12000
    out = []
    for i in range(n):
        r = i % 5
        if r in (0, 1):
            out.append(_weights_case(rng))
        elif r in (2, 3):
            out.append(_sigma_case(rng))
        else:
            out.append(_sigma_case(rng, 'apply'))
    return out


def _f(xs):
    return [Fraction(v) for v in xs]


def impl(case):
    from PseudoNetCDF.coordutil import getinterpweights, sigma2coeff
    try:
        if case['kind'] == 'weights':
            xs = np.array([float(v) for v in _f(case['xs'])])
            nxs = np.array([float(v) for v in _f(case['nxs'])])
            w = getinterpweights(xs, nxs, extrapolate=case['extrapolate'])
            # as list of columns (one per target)
            return dict(cols=[[lib.show_rat(v) for v in w[:, j]] for j in range(w.shape[1])])
        src = np.array([float(v) for v in _f(case['src'])], dtype='f')
        dst = np.array([float(v) for v in _f(case['dst'])], dtype='f')
        if case['kind'] == 'sigma':
            c = sigma2coeff(src, dst)
            return dict(cols=[[lib.show_rat(v) for v in c[:, j]] for j in range(c.shape[1])])
        # apply: interpSigma(conserve) on a small IOAPI file; values are float so compare approximately
        return _apply(case, src, dst)
    except Exception as e:
        return dict(err=type(e).__name__ + ':' + str(e)[:100])


def _apply(case, src, dst):
    import PseudoNetCDF as pnc
    from PseudoNetCDF.cmaqfiles import ioapi_base
    nl = len(src) - 1
    f = ioapi_base()
    f.createDimension('TSTEP', 1).setunlimited(True)
    f.createDimension('LAY', nl)
    f.createDimension('ROW', 1)
    f.createDimension('COL', 2)
    f.createDimension('VAR', 1)
    f.createDimension('DATE-TIME', 2)
    data = np.array([float(v) for v in case['data']], dtype='f')
    v = f.createVariable('O3', 'f', ('TSTEP', 'LAY', 'ROW', 'COL'))
    v.units = 'ppm'.ljust(16)
    v.long_name = 'O3'.ljust(16)
    v.var_desc = 'O3'.ljust(80)
    v[0, :, 0, 0] = data
    v[0, :, 0, 1] = 3.0
    f.VGLVLS = src
    f.VGTOP = np.float32(5000)
    f.NLAYS = nl
    f.SDATE = 2019001
    f.STIME = 0
    f.TSTEP = 10000
    f.NVARS = 1
    setattr(f, 'VAR-LIST', 'O3'.ljust(16))
    f.updatemeta()
    o = f.interpSigma(dst, interptype='conserve')
    nv = o.variables['O3']
    return dict(vals=[float(x) for x in nv[0, :, 0, 0]], const=[float(x) for x in nv[0, :, 0, 1]],
                nlay=len(o.dimensions['LAY']), vglvls=[lib.show_rat(x) for x in o.VGLVLS])


def to_line(case, res):
    if case['kind'] == 'weights':
        return 'c17 weights %d %s %s' % (1 if case['extrapolate'] else 0, lib.show_list(case['xs']),
                                          lib.show_list(case['nxs']))
    if case['kind'] == 'sigma':
        return 'c17 sigma %s %s' % (lib.show_list(case['src']), lib.show_list(case['dst']))
    return 'c17 conserve %s %s %s' % (lib.show_list(case['src']), lib.show_list(case['dst']),
                                      lib.show_list(case['data']))


def agree(case, out, res):
    toks = out.split(' ')
    if 'err' in res:
        return None if toks[0] == 'err' else 'impl raised %s, model %s' % (res['err'], out[:80])
    if toks[0] != 'ok':
        return 'model %s but impl returned' % out
    if case['kind'] in ('weights', 'sigma'):
        mine = lib.show_rows(res['cols'])
        return None if toks[1] == mine else 'matrix model=%s impl=%s' % (toks[1], mine)
    # apply: model gives exact rationals (or _ for 0/0); impl floats
    mvals = toks[1].split(',')
    if len(mvals) != len(res['vals']):
        return 'length model=%d impl=%d' % (len(mvals), len(res['vals']))
    for mv, iv in zip(mvals, res['vals']):
        if mv == '_':
            if iv == iv:
                return 'model 0/0, impl %r' % iv
        elif abs(float(Fraction(mv)) - iv) > 1e-5 * max(1.0, abs(iv)):
            return 'value model=%s impl=%r' % (mv, iv)
    if res['vglvls'] != case['dst'] or res['nlay'] != len(case['dst']) - 1:
        return 'VGLVLS/NLAYS of the result: %s %s' % (res['vglvls'], res['nlay'])
    return None


def oracle(case, res):
    if 'err' in res:
        return 'raised ' + res['err']
    if case['kind'] == 'weights':
        xs, nxs = _f(case['xs']), _f(case['nxs'])
        a, b = case['a'], case['b']
        lo, hi = min(xs), max(xs)
        for t, colw in zip(nxs, res['cols']):
            w = _f(colw)
            if sum(w) != 1:
                return 'weights for target %s sum to %s' % (t, sum(w))
            if not case['extrapolate'] and min(w) < 0:
                return 'negative weight %s for target %s without extrapolation' % (min(w), t)
            val = sum(wi * (a * xi + b) for wi, xi in zip(w, xs))
            if case['extrapolate'] or lo <= t <= hi:
                if val != a * t + b:
                    return 'linear profile not reproduced at %s: %s != %s' % (t, val, a * t + b)
            else:
                edge = lo if t < lo else hi
                if val != a * edge + b:
                    return 'edge value not used outside at %s' % t
            if t in xs:
                k = xs.index(t)
                if w != [Fraction(int(i == k)) for i in range(len(xs))]:
                    return 'target equal to source node %d does not give unit weights: %s' % (k, w)
        return None
    src, dst = _f(case['src']), _f(case['dst'])
    shared = src[0] == dst[0] and src[-1] == dst[-1]
    dp = [src[i] - src[i + 1] for i in range(len(src) - 1)]
    ndp = [dst[i] - dst[i + 1] for i in range(len(dst) - 1)]
    if case['kind'] == 'sigma':
        if not shared:
            return None
        cols = [_f(c) for c in res['cols']]
        for l in range(len(dp)):
            s = sum(c[l] for c in cols)
            if s != 1:
                return 'source layer %d is covered %s times' % (l, s)
        for j, c in enumerate(cols):
            th = sum(d * x for d, x in zip(dp, c))
            if th != ndp[j]:
                return 'target layer %d thickness %s from coefficients, %s from edges' % (j, th, ndp[j])
        return None
    # apply
    if not shared:
        return None
    data = [float(Fraction(v)) for v in case['data']]
    m0 = sum(float(d) * x for d, x in zip(dp, data))
    m1 = sum(float(d) * x for d, x in zip(ndp, res['vals']))
    if abs(m0 - m1) > 1e-5 * max(1.0, abs(m0)):
        return 'column integral %r became %r' % (m0, m1)
    if any(abs(x - 3.0) > 1e-5 for x in res['const']):
        return 'constant field 3 became %s' % res['const']
    return None


def classify(case, failure, model_out):
    return None


def nontrivial(case, res):
    if 'cols' not in res:
        return case['kind'] == 'apply' and len(case['src']) > 2
    for c in res['cols']:
        if sum(1 for v in c if v != '0') >= 2:
            return True
    return False


def distribution(recs):
    d = {}
    for r in recs:
        c = r['case']
        k = c['kind']
        d[k] = d.get(k, 0) + 1
        if k == 'weights':
            key = 'desc' if Fraction(c['xs'][0]) > Fraction(c['xs'][-1]) else 'asc'
            d[key] = d.get(key, 0) + 1
            if c['extrapolate']:
                d['extrapolate'] = d.get('extrapolate', 0) + 1
        else:
            sh = c['src'][0] == c['dst'][0] and c['src'][-1] == c['dst'][-1]
            d['shared' if sh else 'notshared'] = d.get('shared' if sh else 'notshared', 0) + 1
        if 'err' in r['impl']:
            d['impl_err'] = d.get('impl_err', 0) + 1
    return d
