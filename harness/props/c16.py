"""C16 — val2idx (core/_files.py) against lean/PncModel/Val2idx.lean"""
import warnings
from fractions import Fraction

import numpy as np

from .. import lib

ID = 'C16'
LEAN_MODULE = 'PncProofs.C16'
LEAN_FILE = 'PncProofs/C16.lean'
NAMESPACE = 'Props.C16'
LEAN_CONE = ['PncModel.Val2idx', 'PncProofs.Val2idxLemmas', 'PncProofs.C16']
LEMMA_FILES = ['PncProofs/Val2idxLemmas.lean']
REQUIRED_THEOREMS = ['nearest', 'nearest_desc', 'bounds_cell', 'bounds_cell_desc', 'exact_node', 'fpos_range',
                     'model_nearest', 'model_bounds']
RULE = ('[t2t: the older front end time2t (nearest / bounds / bounds_close) and time2idx on files with a time coordinate in minutes, ascending and descending, regular and irregular, next to a second time-like coordinate with other units] ' +
        'strictly monotonic coordinates, ascending and descending, 2..7 cells, three bounds representations '
        '(none, 1-D edges, n x 2), methods nearest/bounds/exact, clean mask/none, bounds ignore/warn/error, '
        'left/right None/nan/value; coordinate variables of type float64, float32 and integer; queries on a file object that answered a query for another coordinate of the same length before its values were overwritten in place; units whose reference time names an hour only (06Z, 06 UTC, 06, 6, T06Z); datetime queries (time2idx on an "hours since" coordinate: naive, UTC and +05:30 / -05:00 / +01:00 datetimes); queries include values 2^-30 beside every node/edge; stream "pow2": power-of-two spacings (np.interp exact) with queries at '
        'centres, edges, exact midpoints (ties), interior and outside; stream "margin": arbitrary dyadic '
        'spacings with queries at nodes/edges exactly or at least 1/16 cell away from every decision boundary; '
        'non-trivial = at least one query strictly inside the domain and not on a node; datetime look-ups also on \'days since\' coordinates (dyadic day numbers, units coarser than the spacing)')
ASSUMPTIONS = ['np.interp is exact on the pow2 stream and cannot flip a discrete result on the margin stream',
               'casting NaN to int (clean="none" with left/right=nan) is unspecified and not compared']
MIN_NONTRIVIAL = {'quick': 50, 'thorough': 500}


def _case(rng):
    method = rng.choice(['nearest', 'bounds', 'exact', 'bounds', 'nearest'])
    # long coordinates too (numpy's membership test changes algorithm with the lengths): half of the exact lookups
    n = rng.randint(2, 7) if rng.random() < (0.5 if method == 'exact' else 0.9) else rng.randint(12, 24)
    stream = 'pow2' if rng.random() < 0.6 else 'margin'
    ekind = rng.choice(['none', 'none', 'e1', 'b2'])

    def steps(k):
        if stream == 'pow2':
            if rng.random() < 0.5:
                return [Fraction(2) ** rng.randint(-2, 3)] * k
            return [Fraction(2) ** rng.randint(-2, 3) for _ in range(k)]
        return [Fraction(rng.randint(1, 12), rng.choice([1, 2, 4])) for _ in range(k)]

    base = Fraction(rng.randint(-40, 40), rng.choice([1, 2, 4]))
    if ekind == 'none' or method != 'bounds':
        # coordinate spacing drives the arithmetic
        d = steps(n - 1)
        if method == 'bounds' and stream == 'pow2':
            # derived midpoints must have power-of-two spacing too: use uniform spacing
            d = [d[0]] * (n - 1)
        c = [base]
        for s in d:
            c.append(c[-1] + s)
        half = [s / 2 for s in d]
        e = [c[0] - half[0]] + [c[i] + half[i] for i in range(n - 1)] + [c[-1] + half[-1]]
    else:
        d = steps(n)
        e = [base]
        for s in d:
            e.append(e[-1] + s)
        c = [(e[i] + e[i + 1]) / 2 for i in range(n)]
    desc = rng.random() < 0.45
    if desc:
        c, e = c[::-1], e[::-1]
    if ekind == 'none':
        edges = 'none'
    elif ekind == 'e1':
        edges = 'e1:' + lib.show_list(e, lib.show_rat)
    else:
        edges = 'b2:' + lib.show_rows([[e[i], e[i + 1]] for i in range(n)], lib.show_rat)
    # decision grid: nodes used by the arithmetic
    if method == 'bounds':
        if ekind == 'none':
            dv = [(c[i + 1] - c[i]) / 2 for i in range(n - 1)]
            uni = all(x == dv[0] for x in dv)
            grid = [c[0] - (dv[0] if uni else 0)] + [c[i + 1] - dv[i] for i in range(n - 1)] + \
                   [c[-1] + (dv[-1] if uni else 0)]
        else:
            grid = e
    else:
        grid = c
    g = sorted(grid)
    vals = []
    for _ in range(rng.randint(1, 8)):
        k = rng.random()
        i = rng.randrange(len(g) - 1)
        w = g[i + 1] - g[i]
        if k < 0.15:
            vals.append(rng.choice(g))
        elif k < 0.25:
            # just inside / just outside a node or edge (well within any float tolerance of it)
            vals.append(rng.choice(g + c) + rng.choice([1, -1, 3, -3]) * Fraction(1, 2 ** rng.choice([30, 24, 36])))
        elif k < 0.35:
            vals.append(rng.choice(c))
        elif k < 0.5 and stream == 'pow2':
            vals.append(g[i] + w / 2)
        elif k < 0.8:
            f = rng.choice([1, 2, 3, 5, 6, 7, 9, 10, 11, 13, 14, 15]) if stream == 'margin' else rng.randint(0, 16)
            if stream == 'margin' and method == 'nearest' and f in (7, 9):
                f = 5
            vals.append(g[i] + w * Fraction(f, 16))
        elif k < 0.9:
            vals.append(g[0] - Fraction(rng.randint(1, 40), 8))
        else:
            vals.append(g[-1] + Fraction(rng.randint(1, 40), 8))
    fill = rng.choice(['none', 'none', 'nan', 'val'])
    left = right = 'none'
    if fill == 'nan':
        left = right = 'nan'
        if rng.random() < 0.3:
            right = 'none'
    elif fill == 'val':
        left, right = '-7', '-9'
    # dtype of the coordinate variable: float64, float32 (all generated values are exact in float32) or integer
    # (everything is scaled by 4 so that coordinates and edges are whole numbers); queries stay float64
    cdtype = rng.choice(['d', 'd', 'd', 'f', 'i'])
    tz = None
    tunit = 'hours'
    if rng.random() < 0.15:
        # datetime front end: the coordinate is "hours since 2000-01-01", queries are datetimes (naive, UTC or with
        # a non-zero UTC offset) at multiples of 1/16 hour, which date2num converts exactly
        tz = rng.choice(['naive', 'utc', '+0530', '-0500', '+0100'])
        vals = [Fraction(round(v * 16), 16) for v in vals]
        cdtype = 'd'
        # units as fine as the spacing ("hours since") or coarser ("days since": the stored values are k/24, k/384)
        tunit = rng.choice(['hours', 'hours', 'days'])
    # integer coordinates: everything times 4; "days since" units: every instant a multiple of 3/128 hour = 1/1024 day (coordinates of 1/256 day), so
    # that the stored day numbers (and their differences) are exact in binary but are not 6-decimal numbers
    k_ = 4 if cdtype == 'i' else (Fraction(3, 8) if (tz and tunit == 'days') else 1)
    if k_ != 1:
        c, vals = [x * k_ for x in c], [x * k_ for x in vals]
        if ekind != 'none':
            e = [x * k_ for x in e]
            edges = ('e1:' + lib.show_list(e, lib.show_rat)) if ekind == 'e1' else \
                ('b2:' + lib.show_rows([[e[i], e[i + 1]] for i in range(n)], lib.show_rat))
    # refhour: the reference time of the units names an hour only ('… since 2000-01-01 06 UTC' and other spellings), the
    # stored numbers count from there; prior: the same file object answered a query for another coordinate of the same
    # length before its coordinate (and edges) were overwritten in place with the ones of this case
    refhour = rng.choice(['06Z', '06 UTC', '06', '6', '06:00', 'T06Z']) if (tz and rng.random() < 0.4) else None
    prior = rng.random() < 0.2
    if vals and (rng.random() < 0.25 or method == 'exact'):
        # the same value asked for several times in one call (for exact lookups always, a value off the nodes included)
        vals = vals + [rng.choice(vals) for _ in range(rng.randint(1, 3))]
        if method == 'exact':
            off = c[0] + (c[1] - c[0]) * Fraction(3, 8)
            vals = vals + [off, off]
    return dict(stream=stream, method=method, clean=rng.choice(['mask', 'mask', 'none']), refhour=refhour, prior=prior,
                bmode=rng.choice(['ignore', 'warn', 'error']), left=left, right=right, cdtype=cdtype, tz=tz, tunit=tunit,
                coords=[lib.show_rat(x) for x in c], edges=edges, vals=[lib.show_rat(x) for x in vals],
                # a missing coordinate (NaN) among the queries: its own answer is not compared, the others' are, and so is
                # the out-of-domain report for them
                nanq=(tz is None and method != 'exact' and rng.random() < 0.2))


def _intcoord_case(rng):
    """an integer-typed coordinate (hours, levels, julian days) with an odd spacing and no bounds variable, looked up with
    method='bounds': the half-step edges are not integers"""
    n = rng.randint(3, 6)
    sp = rng.choice([1, 3, 5, 7])
    # signed or unsigned storage (pressure levels as uint16): differences of unsigned integers must not wrap around
    cdt = rng.choice(['i', 'h', 'H', 'I'])
    b = rng.randint(0, 20) if cdt in 'HI' else rng.randint(-20, 20)
    c = [Fraction(b + sp * i) for i in range(n)]
    if rng.random() < 0.4:
        c = c[::-1]
    lo, hi = min(c) - Fraction(sp, 2), max(c) + Fraction(sp, 2)
    vals = []
    for _ in range(rng.randint(3, 8)):
        k = rng.random()
        if k < 0.7:
            vals.append(lo + Fraction(rng.randrange(1, 8 * sp * n), 8))      # multiples of 1/8 inside the domain
        elif k < 0.85:
            vals.append(rng.choice(c))
        else:
            vals.append(rng.choice([lo - Fraction(rng.randint(1, 9), 4), hi + Fraction(rng.randint(1, 9), 4)]))
    # not exactly on an edge (a tie between two cells)
    vals = [v for v in vals if (v - lo) % sp != 0 or v in (lo, hi)] or [c[0]]
    return dict(stream='margin', method=rng.choice(['bounds', 'bounds', 'nearest']) if cdt in 'HI' else 'bounds',
                clean=rng.choice(['mask', 'none']), refhour=None, prior=False,
                bmode=rng.choice(['ignore', 'warn', 'error']), left='none', right='none', cdtype=cdt, tz=None,
                tunit='hours', coords=[lib.show_rat(x) for x in c], edges='none', vals=[lib.show_rat(x) for x in vals], nanq=False)


def _shortint_case(rng):
    """a coordinate stored as a short signed integer whose steps exceed the positive range of its type (int16 -30000, 10000,
    20000; int8 -100, 50, 100): the differences must not wrap around"""
    cdt = rng.choice(['h', 'b'])
    c = [Fraction(x) for x in ({'h': [-30000, 10000, 20000, 32000], 'b': [-100, 50, 100, 120]}[cdt])[:rng.randint(2, 4)]]
    if rng.random() < 0.4:
        c = c[::-1]
    lo, hi = min(c), max(c)
    vals = [rng.choice(c) for _ in range(2)] + [lo + Fraction(rng.randrange(1, 8 * int(hi - lo)), 8) for _ in range(rng.randint(2, 5))]
    # not exactly half way between two coordinate values (a tie)
    mids = set((a + b) / 2 for a, b in zip(c, c[1:]))
    vals = [v for v in vals if v not in mids] or [c[0]]
    return dict(stream='margin', method=rng.choice(['nearest', 'nearest', 'exact']), clean=rng.choice(['mask', 'none']), refhour=None,
                prior=False, bmode=rng.choice(['ignore', 'warn', 'error']), left='none', right='none', cdtype=cdt, tz=None,
                tunit='hours', coords=[lib.show_rat(x) for x in c], edges='none', vals=[lib.show_rat(x) for x in vals], nanq=False)


def _bigunsigned_case(rng):
    """an unsigned coordinate whose values lie in the upper half of its type's range (uint8 above 127, uint16 above 32767,
    uint32 from 2**31): the signed type of the same width cannot hold them"""
    cdt = rng.choice(['B', 'H', 'I'])
    base, sp = {'B': (120, 20), 'H': (30000, 2500), 'I': (2 ** 31 - 5, 7)}[cdt]
    c = [Fraction(base + sp * i) for i in range(rng.randint(3, 5))]       # straddles the half range
    if rng.random() < 0.4:
        c = c[::-1]
    lo, hi = min(c), max(c)
    vals = [rng.choice(c) for _ in range(2)] + [lo + Fraction(rng.randrange(1, 8 * int(hi - lo)), 8) for _ in range(rng.randint(2, 5))]
    mids = set((a + b) / 2 for a, b in zip(c, c[1:]))
    vals = [v for v in vals if v not in mids] or [c[0]]
    return dict(stream='margin', method=rng.choice(['nearest', 'nearest', 'exact']), clean=rng.choice(['mask', 'none']), refhour=None,
                prior=False, bmode=rng.choice(['ignore', 'warn', 'error']), left='none', right='none', cdtype=cdt, tz=None,
                tunit='hours', coords=[lib.show_rat(x) for x in c], edges='none', vals=[lib.show_rat(x) for x in vals], nanq=False)


def _t2t_case(rng):
    """the older datetime front end time2t on a file with a 'time' coordinate (minutes since a reference): ascending and
    descending axes, regular (nearest / bounds / bounds_close) or irregular (nearest) ones - also axes whose first two
    times are whole hours while later ones are not -, a second coordinate 'valid_time' with other units next to it;
    judged by the oracle (plain arithmetic on minutes)"""
    n = rng.randint(2, 6)
    ttype = rng.choice(['nearest', 'nearest', 'bounds', 'bounds_close'])
    if ttype == 'nearest' and rng.random() < 0.6:
        mins = [0, 60]
        while len(mins) < n:
            mins.append(mins[-1] + rng.choice([30, 40, 60, 70, 90, 120]))
        mins = mins[:n]
    else:
        step = rng.choice([60, 30, 120, 1440, 20])
        mins = [step * i for i in range(n)]
    start = rng.choice([0, 600, 1380, 525600])
    mins = [start + m for m in mins]
    lo, hi = mins[0], mins[-1]
    qs = []
    for _ in range(rng.randint(1, 6)):
        k = rng.random()
        if k < 0.35:
            qs.append(rng.choice(mins))
        elif k < 0.7:
            qs.append(rng.randrange(lo, hi + 1, 60) if rng.random() < 0.6 else rng.randint(lo, hi))
        elif k < 0.8 and ttype != 'nearest':
            st = mins[1] - mins[0]
            qs.append(rng.choice([2 * hi + st, 2 * lo - st]) // 2 if (st % 2 == 0) else hi)       # the outer edges
        else:
            qs.append(rng.choice([lo - rng.randint(1, 200), hi + rng.randint(1, 200)]))
    if rng.random() < 0.4:
        qs = [q - q % 60 for q in qs]          # whole hours only
    if rng.random() < 0.45:
        mins = mins[::-1]
    return dict(kind='t2t', ttype=ttype, mins=mins, qs=qs, other=rng.random() < 0.5)


def gen(rng, tier):
    n = 500 if tier == 'quick' else 20000
    out = [_case(rng) for _ in range(n)] + [_t2t_case(rng) for _ in range(n // 8)] + [_intcoord_case(rng) for _ in range(n // 20)]
    # on every run: file times and queries that all fall on the first of a month (or on 1 January) at 00:00 - months and
    # years are not equally long, the nearest time is the one fewer DAYS away (minutes since 2001-03-04)
    day = 1440
    out.append(dict(kind='t2t', ttype='nearest', mins=[28 * day, 58 * day, 119 * day], qs=[89 * day, 28 * day, 58 * day], other=False))
    out.append(dict(kind='t2t', ttype='nearest', mins=[1033 * day, 2494 * day, 303 * day][:2], qs=[1764 * day, 1033 * day], other=False))
    for c in out:
        if str(c.get('edges', 'none'))[:2] in ('e1', 'b2') and not c.get('prior') and rng.random() < 0.2:
            c['stale'] = True
    out += [_shortint_case(rng) for _ in range(max(4, n // 60))]
    out += [_bigunsigned_case(rng) for _ in range(max(4, n // 60))]
    # on every run: flag files with steps of 100 hours and more (five days, a week, a month of 31 days), both directions
    for hours in (120, 168, 744):
        out.append(dict(kind='flagt2t', n=rng.randint(2, 4), hours=hours, day0=rng.randint(0, 300), backward=rng.random() < 0.4,
                        fracs=[0.25, 0.75]))
    # on every run: time coordinates counted from dates before October 1582, no calendar attribute
    for ref in ('0001-01-01', '1500-01-01', '1582-10-01'):
        out.append(dict(kind='oldref', ref=ref, days=sorted(rng.sample(range(0, 12), rng.randint(2, 4)))))
    return out


def _fill(s):
    return None if s == 'none' else (np.nan if s == 'nan' else float(Fraction(s)))


def _mkfile(case):
    import PseudoNetCDF as pnc
    c = [float(Fraction(x)) for x in case['coords']]
    f = pnc.PseudoNetCDFFile()
    f.createDimension('x', len(c))
    v = f.createVariable('x', case.get('cdtype', 'd'), ('x',))
    days = case.get('tz') and case.get('tunit') == 'days'
    per = 24. if days else 1.
    off = 6. if (case.get('tz') and case.get('refhour')) else 0.       # hours between 2000-01-01 00:00 and the reference time
    if case.get('tz'):
        rh = case.get('refhour')
        ref = '2000-01-01 00:00:00' if not rh else ('2000-01-01T06Z' if rh == 'T06Z' else '2000-01-01 ' + rh)
        v.units = '%s since %s' % (case.get('tunit', 'hours'), ref)
    e = case['edges']
    b, ed = None, None
    # stale: the coordinate's `bounds` attribute names a variable of its own (x_edges); a variable with one of the
    # conventional names is there too and describes other cells (an older, coarser grid): the attribute decides
    stale = bool(case.get('stale'))
    if e.startswith('e1:'):
        ed = [(float(Fraction(x)) - off) / per for x in e[3:].split(',')]
        f.createDimension('xe', len(ed))
        b = f.createVariable('x_edges' if stale else 'x_bounds', 'd', ('xe',))
    elif e.startswith('b2:'):
        ed = [[(float(Fraction(x)) - off) / per for x in r.split(',')] for r in e[3:].split(';')]
        f.createDimension('nv', 2)
        b = f.createVariable('x_edges' if stale else 'x_bnds', 'd', ('x', 'nv'))
    if stale and b is not None:
        v.bounds = 'x_edges'
        flat = np.array(ed, dtype='d').ravel()
        lo_, hi_ = float(flat.min()), float(flat.max())
        f.createDimension('xs', 3)
        sv = f.createVariable('x_bnds', 'd', ('xs',))
        sv[:] = [lo_ - 3., (lo_ + hi_) / 2. + 0.3, hi_ + 5.] if flat[0] <= flat[-1] else [hi_ + 5., (lo_ + hi_) / 2. + 0.3, lo_ - 3.]
    final = [(x - off) / per for x in c]
    if case.get('prior'):
        other = np.array(final)[::-1] * 3 + 1 if len(c) > 1 else np.array(final) + 5
        v[:] = other
        if b is not None:
            b[:] = np.array(ed)[::-1] * 3 + 1
        with lib.pnc_warnings():
            try:
                f.val2idx('x', np.asarray(other, dtype='d')[:1], method=case['method'])
            except Exception:
                pass
    v[:] = final
    if b is not None:
        b[:] = ed
    return f


def _datetimes(case):
    """the query instants as datetime objects in the case's time zone (independent of date2num)"""
    import datetime as dt
    out = []
    for x in case['vals']:
        us = Fraction(x) * 3600 * 1000000
        assert us.denominator == 1
        t = dt.datetime(2000, 1, 1, tzinfo=dt.timezone.utc) + dt.timedelta(microseconds=int(us))
        tz = case['tz']
        if tz == 'naive':
            t = t.replace(tzinfo=None)
        elif tz != 'utc':
            sign = 1 if tz[0] == '+' else -1
            t = t.astimezone(dt.timezone(sign * dt.timedelta(hours=int(tz[1:3]), minutes=int(tz[3:5]))))
        out.append(t)
    return out


def _impl_oldref(case):
    """a time coordinate counted from a date before the calendar reform, no calendar attribute (CF: the standard, mixed
    Julian / Gregorian calendar): datetime lookups of the very dates the values encode"""
    import datetime as dt
    import cftime
    import PseudoNetCDF as pnc
    f = pnc.PseudoNetCDFFile()
    n = len(case['days'])
    f.createDimension('time', n)
    v = f.createVariable('time', 'd', ('time',))
    units = 'days since %s 00:00:00' % case['ref']
    d0 = float(cftime.date2num(cftime.DatetimeGregorian(2001, 3, 4), units, calendar='standard'))
    v[:] = [d0 + k for k in case['days']]
    v.units = units
    q = [dt.datetime(2001, 3, 4) + dt.timedelta(days=k) for k in case['days']]
    with lib.pnc_warnings():
        try:
            out = {}
            for m in ('nearest', 'exact'):
                r = f.time2idx(q, dim='time', method=m, bounds='ignore')
                mk = np.ma.getmaskarray(r)
                out[m] = ['m' if mk[i] else str(int(np.ma.getdata(r)[i])) for i in range(n)]
            return out
        except Exception as e:
            return dict(err=type(e).__name__, msg=str(e)[:80])


def _oracle_oldref(case, res):
    if 'err' in res:
        return 'time2idx raised %s %s' % (res['err'], res.get('msg'))
    want = [str(i) for i in range(len(case['days']))]
    for m in ('nearest', 'exact'):
        if res[m] != want:
            return "time2idx(method='%s') on 'days since %s' (no calendar attribute: the standard calendar) puts the dates the values encode at %s" % (
                m, case['ref'], res[m])
    return None


def _impl_flagt2t(case):
    """time2t(ttype='bounds') on an IOAPI-like file (TFLAG variable, TSTEP attribute) whose step is 100 hours or longer
    (a seven-digit HHHMMSS): times inside every cell, the last one included (only its closing edge comes from TSTEP)"""
    import datetime as dt
    import PseudoNetCDF as pnc
    f = pnc.PseudoNetCDFFile()
    n, hours = case['n'], case['hours']
    f.createDimension('TSTEP', n)
    f.createDimension('VAR', 1)
    f.createDimension('DATE-TIME', 2)
    tf = f.createVariable('TFLAG', 'i', ('TSTEP', 'VAR', 'DATE-TIME'))
    t0 = dt.datetime(2001, 1, 1) + dt.timedelta(days=case['day0'])
    sgn = -1 if case['backward'] else 1
    ts = [t0 + sgn * dt.timedelta(hours=hours * i) for i in range(n)]
    for i, t in enumerate(ts):
        tf[i, 0, 0] = int(t.strftime('%Y%j'))
        tf[i, 0, 1] = int(t.strftime('%H%M%S'))
    f.SDATE, f.STIME, f.TSTEP = int(ts[0].strftime('%Y%j')), int(ts[0].strftime('%H%M%S')), sgn * hours * 10000
    q = [t + sgn * dt.timedelta(hours=hours * fr) for t in ts for fr in case['fracs']]
    with lib.pnc_warnings():
        try:
            r = f.time2t(q, ttype='bounds', index=True)
        except Exception as e:
            return dict(err=type(e).__name__, msg=str(e)[:80])
    m = np.ma.getmaskarray(r)
    return dict(res=['m' if m[i] else str(int(np.ma.getdata(r)[i])) for i in range(len(q))])


def _oracle_flagt2t(case, res):
    if 'err' in res:
        return 'time2t raised %s %s' % (res['err'], res.get('msg'))
    want = [str(i) for i in range(case['n']) for _ in case['fracs']]
    if res['res'] != want:
        return "time2t('bounds') on a flag file with TSTEP %d0000 (%s): times inside cells %s are put in cells %s" % (
            case['hours'], 'backward' if case['backward'] else 'forward', want, res['res'])
    return None


def _impl_t2t(case):
    import datetime as dt
    import PseudoNetCDF as pnc
    f = pnc.PseudoNetCDFFile()
    n = len(case['mins'])
    f.createDimension('time', n)
    v = f.createVariable('time', 'd', ('time',))
    v[:] = case['mins']
    v.units = 'minutes since 2001-03-04 00:00:00+0000'
    if case.get('other'):
        f.createDimension('valid_time', 2)
        o = f.createVariable('valid_time', 'd', ('valid_time',))
        o[:] = [3, 4]
        o.units = 'days since 1990-01-01 00:00:00+0000'
    t0 = dt.datetime(2001, 3, 4, tzinfo=dt.timezone.utc)
    q = [t0 + dt.timedelta(minutes=m) for m in case['qs']]
    with lib.pnc_warnings():
        try:
            r = f.time2t(q, ttype=case['ttype'], index=True)
            idx = f.time2idx(q, dim='time', method='nearest', bounds='ignore')
            vidx = None
            if case.get('other'):
                # the second coordinate is looked up in its own units, whatever 'time' says
                v0 = dt.datetime(1990, 1, 1, tzinfo=dt.timezone.utc)
                vidx = f.time2idx([v0 + dt.timedelta(days=3), v0 + dt.timedelta(days=4), v0 + dt.timedelta(days=3, hours=2)],
                                  dim='valid_time', method='nearest', bounds='ignore')
                vidx = [int(x) for x in np.ma.filled(vidx, -1)]
        except Exception as e:
            return dict(err=type(e).__name__, msg=str(e)[:80])
    m = np.ma.getmaskarray(r)
    return dict(res=['m' if m[i] else str(int(np.ma.getdata(r)[i])) for i in range(len(q))],
                idx=[int(x) for x in np.ma.filled(idx, -1)], vidx=vidx)


def _oracle_t2t(case, res):
    if 'err' in res:
        return 'time2t raised %s %s' % (res['err'], res.get('msg'))
    if res.get('vidx') is not None and res['vidx'] != [0, 1, 0]:
        return "time2idx(dim='valid_time') on days [3, 4] since 1990 puts day 3, day 4 and day 3 + 2 h at %s (a variable 'time' with other units is in the file)" % res['vidx']
    mins, tt = case['mins'], case['ttype']
    n = len(mins)
    step = Fraction(mins[1] - mins[0])
    edges = [Fraction(m) - step / 2 for m in mins] + [Fraction(mins[-1]) + step / 2]
    for q, got, gi in zip(case['qs'], res['res'], res['idx']):
        near = sorted(range(n), key=lambda i: abs(mins[i] - q))
        tie = n > 1 and abs(mins[near[0]] - q) == abs(mins[near[1]] - q)
        if not tie and gi != near[0]:
            return 'time2idx(nearest) puts minute %d at index %d, the closest time of %s is at %d' % (q, gi, mins, near[0])
        if tt == 'nearest':
            if not tie and got != str(near[0]):
                return "time2t('nearest') puts minute %d at index %s, the closest time of %s is at %d" % (q, got, mins, near[0])
            continue
        lo, hi = min(edges), max(edges)
        cells = [i for i in range(n) if min(edges[i], edges[i + 1]) <= q <= max(edges[i], edges[i + 1])]
        if tt == 'bounds':
            if not lo <= q <= hi:
                if got != 'm':
                    return "time2t('bounds') reports minute %d, outside the edges %s, in cell %s" % (q, [str(e) for e in edges], got)
            elif got == 'm' or int(got) not in cells:
                return "time2t('bounds') puts minute %d in cell %s; the cells containing it: %s (edges %s)" % (q, got, cells, [str(e) for e in edges])
        else:
            want = cells if cells else ([0] if abs(q - edges[0]) < abs(q - edges[-1]) else [n - 1])
            if got == 'm' or int(got) not in want:
                return "time2t('bounds_close') puts minute %d in cell %s, expected one of %s" % (q, got, want)
    return None


def impl(case):
    if case.get('kind') == 'oldref':
        return _impl_oldref(case)
    if case.get('kind') == 'flagt2t':
        return _impl_flagt2t(case)
    if case.get('kind') == 't2t':
        return _impl_t2t(case)
    f = _mkfile(case)
    vals = np.array([float(Fraction(x)) for x in case['vals']])
    nreal = len(vals)
    if case.get('nanq'):
        vals = np.append(vals, np.nan)
    with lib.pnc_warnings() as w:
        try:
            if case.get('tz'):
                r = f.time2idx(_datetimes(case), dim='x', method=case['method'], bounds=case['bmode'],
                               left=_fill(case['left']), right=_fill(case['right']), clean=case['clean'])
            else:
                r = f.val2idx('x', vals, method=case['method'], bounds=case['bmode'], left=_fill(case['left']),
                              right=_fill(case['right']), clean=case['clean'])
        except Exception as e:
            return dict(err=type(e).__name__, msg=str(e)[:80])
    warned = any('out of bounds' in x for x in w.msgs)
    m = np.ma.getmaskarray(r)
    res = ['m' if m[i] else str(int(np.ma.getdata(r)[i])) for i in range(nreal)]
    return dict(res=res, warned=warned)


def to_line(case, res):
    if case.get('kind') in ('t2t', 'oldref', 'flagt2t'):
        return 'c16 nearest none none none 0,1 none 0'        # no model question: judged by the oracle
    return 'c16 %s %s %s %s %s %s %s' % (case['method'], case['clean'], case['left'], case['right'],
                                       lib.show_list(case['coords']), case['edges'], lib.show_list(case['vals']))


def agree(case, out, res):
    if case.get('kind') in ('t2t', 'oldref', 'flagt2t'):
        return None
    st, kv = lib.parse_kv(out)
    toks = out.split(' ')
    if st == 'err':
        if toks[1] == 'unspec':
            return None
        return None if 'err' in res else 'model %s, impl returned %s' % (out, res)
    mout = kv['out'] == '1'
    if 'err' in res:
        if case['bmode'] == 'error' and mout and res['err'] == 'ValueError':
            return None
        return 'impl raised %s (%s), model %s' % (res['err'], res.get('msg'), out[:80])
    if case['bmode'] == 'error' and mout:
        return 'model: out-of-range values with bounds=error must raise; impl returned'
    if case['bmode'] == 'warn' and mout != res['warned']:
        return 'warning: model %s impl %s' % (mout, res['warned'])
    mres = toks[1].split(',')
    for i, (a, b) in enumerate(zip(mres, res['res'])):
        if a == 'u':
            continue
        if a != b:
            return 'value %s: model %s impl %s' % (case['vals'][i], a, b)
    return None


def _grid(case):
    c = [Fraction(x) for x in case['coords']]
    e = case['edges']
    if e.startswith('e1:'):
        ed = [Fraction(x) for x in e[3:].split(',')]
    elif e.startswith('b2:'):
        rows = [[Fraction(x) for x in r.split(',')] for r in e[3:].split(';')]
        ed = [r[0] for r in rows] + [rows[-1][1]]
    else:
        ed = None
    return c, ed


def oracle(case, res):
    """brute-force statement of the property on the real result"""
    if case.get('kind') == 'oldref':
        return _oracle_oldref(case, res)
    if case.get('kind') == 'flagt2t':
        return _oracle_flagt2t(case, res)
    if case.get('kind') == 't2t':
        return _oracle_t2t(case, res)
    c, ed = _grid(case)
    n = len(c)
    vals = [Fraction(x) for x in case['vals']]
    method = case['method']
    if method == 'bounds' and ed is None:
        dv = [(c[i + 1] - c[i]) / 2 for i in range(n - 1)]
        uni = all(x == dv[0] for x in dv)
        ed = [c[0] - (dv[0] if uni else 0)] + [c[i + 1] - dv[i] for i in range(n - 1)] + [c[-1] + (dv[-1] if uni else 0)]
    dom = ed if ed is not None else c
    lo, hi = min(dom), max(dom)
    anyout = any(v < lo or v > hi for v in vals)
    if 'err' in res:
        if case['bmode'] == 'error' and anyout and res['err'] == 'ValueError':
            return None
        return 'raised %s %s' % (res['err'], res.get('msg'))
    if case['bmode'] == 'error' and anyout:
        return 'out-of-range values were not rejected with bounds="error"'
    if case['bmode'] == 'warn' and anyout and not res['warned']:
        return 'out-of-range values were not warned about'
    for v, r in zip(vals, res['res']):
        out = v < lo or v > hi
        if method != 'bounds':
            # nearest/exact interpolate over the centres: left/right apply beyond the outermost centre
            out = v < min(c) or v > max(c)
        if method == 'exact':
            want = str(c.index(v)) if v in c else 'm'
            if r != want:
                return 'exact: value %s -> %s, expected %s' % (v, r, want)
            continue
        if r == 'm':
            if not out:
                return 'in-range value %s is masked' % v
            continue
        i = int(r)
        if out and (case['left'] != 'none' or case['right'] != 'none'):
            # a user supplied fill (nan/value): nan with clean=none is an unspecified cast
            continue
        if not 0 <= i < n:
            return 'value %s -> index %d outside 0..%d' % (v, i, n - 1)
        if method == 'nearest':
            if abs(c[i] - v) != min(abs(x - v) for x in c):
                return 'nearest: value %s -> index %d (coordinate %s) but a closer coordinate exists' % (v, i, c[i])
        elif method == 'bounds' and not out:
            a, b = sorted((ed[i], ed[i + 1]))
            if not a <= v <= b:
                return 'bounds: value %s -> cell %d = [%s, %s] which does not contain it' % (v, i, a, b)
    return None


def classify(case, failure, model_out):
    return None


def nontrivial(case, res):
    if case.get('kind') == 'oldref':
        return 'nearest' in res
    if case.get('kind') == 'flagt2t':
        return 'res' in res
    if case.get('kind') == 't2t':
        return 'res' in res and any(min(case['mins']) < q < max(case['mins']) and q not in case['mins'] for q in case['qs'])
    c, ed = _grid(case)
    dom = sorted(c)
    return any(dom[0] < Fraction(v) < dom[-1] and Fraction(v) not in c for v in case['vals'])


def distribution(recs):
    d = {}
    for r in recs:
        c = r['case']
        if c.get('kind') in ('oldref', 'flagt2t'):
            d[c['kind']] = d.get(c['kind'], 0) + 1
            continue
        if c.get('kind') == 't2t':
            d['t2t=' + c['ttype']] = d.get('t2t=' + c['ttype'], 0) + 1
            continue
        for k in ('stream', 'method', 'bmode', 'clean'):
            key = '%s=%s' % (k, c[k])
            d[key] = d.get(key, 0) + 1
        key = 'edges=' + c['edges'][:2]
        d[key] = d.get(key, 0) + 1
        key = 'desc' if Fraction(c['coords'][0]) > Fraction(c['coords'][-1]) else 'asc'
        d[key] = d.get(key, 0) + 1
        if 'err' in r['impl']:
            d['impl_err'] = d.get('impl_err', 0) + 1
    return d
