"""C16 — val2idx (core/_files.py) against lean/PncModel/Val2idx.lean"""
import warnings
from fractions import Fraction

import numpy as np

from .. import lib

ID = 'C16'
LEAN_MODULE = 'PncProofs.C16'
LEAN_FILE = 'PncProofs/C16.lean'
NAMESPACE = 'Props.C16'
LEAN_CONE = ['PncModel.Val2idx', 'PncProofs.Val2idxLemmas', 'PncProofs.C16']
LEMMA_FILES = ['PncProofs/Val2idxLemmas.lean']
REQUIRED_THEOREMS = ['nearest', 'nearest_desc', 'bounds_cell', 'bounds_cell_desc', 'exact_node', 'fpos_range',
                     'model_nearest', 'model_bounds']
RULE = ('strictly monotonic coordinates, ascending and descending, 2..7 cells, three bounds representations '
        '(none, 1-D edges, n x 2), methods nearest/bounds/exact, clean mask/none, bounds ignore/warn/error, '
        'left/right None/nan/value; coordinate variables of type float64, float32 and integer; queries on a file object that answered a query for another coordinate of the same length before its values were overwritten in place; units whose reference time names an hour only (06Z, 06 UTC, 06, 6, T06Z); datetime queries (time2idx on an "hours since" coordinate: naive, UTC and +05:30 / -05:00 / +01:00 datetimes); queries include values 2^-30 beside every node/edge; stream "pow2": power-of-two spacings (np.interp exact) with queries at '
        'centres, edges, exact midpoints (ties), interior and outside; stream "margin": arbitrary dyadic '
        'spacings with queries at nodes/edges exactly or at least 1/16 cell away from every decision boundary; '
        'non-trivial = at least one query strictly inside the domain and not on a node; datetime look-ups also on \'days since\' coordinates (dyadic day numbers, units coarser than the spacing)')
ASSUMPTIONS = ['np.interp is exact on the pow2 stream and cannot flip a discrete result on the margin stream',
               'casting NaN to int (clean="none" with left/right=nan) is unspecified and not compared']
MIN_NONTRIVIAL = {'quick': 50, 'thorough': 500}


def _case(rng):
    n = rng.randint(2, 7)
    stream = 'pow2' if rng.random() < 0.6 else 'margin'
    method = rng.choice(['nearest', 'bounds', 'exact', 'bounds', 'nearest'])
    ekind = rng.choice(['none', 'none', 'e1', 'b2'])

    def steps(k):
        if stream == 'pow2':
            if rng.random() < 0.5:
                return [Fraction(2) ** rng.randint(-2, 3)] * k
            return [Fraction(2) ** rng.randint(-2, 3) for _ in range(k)]
        return [Fraction(rng.randint(1, 12), rng.choice([1, 2, 4])) for _ in range(k)]

    base = Fraction(rng.randint(-40, 40), rng.choice([1, 2, 4]))
    if ekind == 'none' or method != 'bounds':
        # coordinate spacing drives the arithmetic
        d = steps(n - 1)
        if method == 'bounds' and stream == 'pow2':
            # derived midpoints must have power-of-two spacing too: use uniform spacing
            d = [d[0]] * (n - 1)
        c = [base]
        for s in d:
            c.append(c[-1] + s)
        half = [s / 2 for s in d]
        e = [c[0] - half[0]] + [c[i] + half[i] for i in range(n - 1)] + [c[-1] + half[-1]]
    else:
        d = steps(n)
        e = [base]
        for s in d:
            e.append(e[-1] + s)
        c = [(e[i] + e[i + 1]) / 2 for i in range(n)]
    desc = rng.random() < 0.45
    if desc:
        c, e = c[::-1], e[::-1]
    if ekind == 'none':
        edges = 'none'
    elif ekind == 'e1':
        edges = 'e1:' + lib.show_list(e, lib.show_rat)
    else:
        edges = 'b2:' + lib.show_rows([[e[i], e[i + 1]] for i in range(n)], lib.show_rat)
    # decision grid: nodes used by the arithmetic
    if method == 'bounds':
        if ekind == 'none':
            dv = [(c[i + 1] - c[i]) / 2 for i in range(n - 1)]
            uni = all(x == dv[0] for x in dv)
            grid = [c[0] - (dv[0] if uni else 0)] + [c[i + 1] - dv[i] for i in range(n - 1)] + \
                   [c[-1] + (dv[-1] if uni else 0)]
        else:
            grid = e
    else:
        grid = c
    g = sorted(grid)
    vals = []
    for _ in range(rng.randint(1, 8)):
        k = rng.random()
        i = rng.randrange(len(g) - 1)
        w = g[i + 1] - g[i]
        if k < 0.15:
            vals.append(rng.choice(g))
        elif k < 0.25:
            # just inside / just outside a node or edge (well within any float tolerance of it)
            vals.append(rng.choice(g + c) + rng.choice([1, -1, 3, -3]) * Fraction(1, 2 ** rng.choice([30, 24, 36])))
        elif k < 0.35:
            vals.append(rng.choice(c))
        elif k < 0.5 and stream == 'pow2':
            vals.append(g[i] + w / 2)
        elif k < 0.8:
            f = rng.choice([1, 2, 3, 5, 6, 7, 9, 10, 11, 13, 14, 15]) if stream == 'margin' else rng.randint(0, 16)
            if stream == 'margin' and method == 'nearest' and f in (7, 9):
                f = 5
            vals.append(g[i] + w * Fraction(f, 16))
        elif k < 0.9:
            vals.append(g[0] - Fraction(rng.randint(1, 40), 8))
        else:
            vals.append(g[-1] + Fraction(rng.randint(1, 40), 8))
    fill = rng.choice(['none', 'none', 'nan', 'val'])
    left = right = 'none'
    if fill == 'nan':
        left = right = 'nan'
        if rng.random() < 0.3:
            right = 'none'
    elif fill == 'val':
        left, right = '-7', '-9'
    # dtype of the coordinate variable: float64, float32 (all generated values are exact in float32) or integer
    # (everything is scaled by 4 so that coordinates and edges are whole numbers); queries stay float64
    cdtype = rng.choice(['d', 'd', 'd', 'f', 'i'])
    tz = None
    tunit = 'hours'
    if rng.random() < 0.15:
        # datetime front end: the coordinate is "hours since 2000-01-01", queries are datetimes (naive, UTC or with
        # a non-zero UTC offset) at multiples of 1/16 hour, which date2num converts exactly
        tz = rng.choice(['naive', 'utc', '+0530', '-0500', '+0100'])
        vals = [Fraction(round(v * 16), 16) for v in vals]
        cdtype = 'd'
        # units as fine as the spacing ("hours since") or coarser ("days since": the stored values are k/24, k/384)
        tunit = rng.choice(['hours', 'hours', 'days'])
    # integer coordinates: everything times 4; "days since" units: every instant a multiple of 3/128 hour = 1/1024 day (coordinates of 1/256 day), so
    # that the stored day numbers (and their differences) are exact in binary but are not 6-decimal numbers
    k_ = 4 if cdtype == 'i' else (Fraction(3, 8) if (tz and tunit == 'days') else 1)
    if k_ != 1:
        c, vals = [x * k_ for x in c], [x * k_ for x in vals]
        if ekind != 'none':
            e = [x * k_ for x in e]
            edges = ('e1:' + lib.show_list(e, lib.show_rat)) if ekind == 'e1' else \
                ('b2:' + lib.show_rows([[e[i], e[i + 1]] for i in range(n)], lib.show_rat))
    # refhour: the reference time of the units names an hour only ('… since 2000-01-01 06 UTC' and other spellings), the
    # stored numbers count from there; prior: the same file object answered a query for another coordinate of the same
    # length before its coordinate (and edges) were overwritten in place with the ones of this case
    refhour = rng.choice(['06Z', '06 UTC', '06', '6', '06:00', 'T06Z']) if (tz and rng.random() < 0.4) else None
    prior = rng.random() < 0.2
    return dict(stream=stream, method=method, clean=rng.choice(['mask', 'mask', 'none']), refhour=refhour, prior=prior,
                bmode=rng.choice(['ignore', 'warn', 'error']), left=left, right=right, cdtype=cdtype, tz=tz, tunit=tunit,
                coords=[lib.show_rat(x) for x in c], edges=edges, vals=[lib.show_rat(x) for x in vals])


def gen(rng, tier):
    n = 500 if tier == 'quick' else 20000
    return [_case(rng) for _ in range(n)]


def _fill(s):
    return None if s == 'none' else (np.nan if s == 'nan' else float(Fraction(s)))


def _mkfile(case):
    import PseudoNetCDF as pnc
    c = [float(Fraction(x)) for x in case['coords']]
    f = pnc.PseudoNetCDFFile()
    f.createDimension('x', len(c))
    v = f.createVariable('x', case.get('cdtype', 'd'), ('x',))
    days = case.get('tz') and case.get('tunit') == 'days'
    per = 24. if days else 1.
    off = 6. if (case.get('tz') and case.get('refhour')) else 0.       # hours between 2000-01-01 00:00 and the reference time
    if case.get('tz'):
        rh = case.get('refhour')
        ref = '2000-01-01 00:00:00' if not rh else ('2000-01-01T06Z' if rh == 'T06Z' else '2000-01-01 ' + rh)
        v.units = '%s since %s' % (case.get('tunit', 'hours'), ref)
    e = case['edges']
    b, ed = None, None
    if e.startswith('e1:'):
        ed = [(float(Fraction(x)) - off) / per for x in e[3:].split(',')]
        f.createDimension('xe', len(ed))
        b = f.createVariable('x_bounds', 'd', ('xe',))
    elif e.startswith('b2:'):
        ed = [[(float(Fraction(x)) - off) / per for x in r.split(',')] for r in e[3:].split(';')]
        f.createDimension('nv', 2)
        b = f.createVariable('x_bnds', 'd', ('x', 'nv'))
    final = [(x - off) / per for x in c]
    if case.get('prior'):
        other = np.array(final)[::-1] * 3 + 1 if len(c) > 1 else np.array(final) + 5
        v[:] = other
        if b is not None:
            b[:] = np.array(ed)[::-1] * 3 + 1
        with lib.pnc_warnings():
            try:
                f.val2idx('x', np.asarray(other, dtype='d')[:1], method=case['method'])
            except Exception:
                pass
    v[:] = final
    if b is not None:
        b[:] = ed
    return f


def _datetimes(case):
    """the query instants as datetime objects in the case's time zone (independent of date2num)"""
    import datetime as dt
    out = []
    for x in case['vals']:
        us = Fraction(x) * 3600 * 1000000
        assert us.denominator == 1
        t = dt.datetime(2000, 1, 1, tzinfo=dt.timezone.utc) + dt.timedelta(microseconds=int(us))
        tz = case['tz']
        if tz == 'naive':
            t = t.replace(tzinfo=None)
        elif tz != 'utc':
            sign = 1 if tz[0] == '+' else -1
            t = t.astimezone(dt.timezone(sign * dt.timedelta(hours=int(tz[1:3]), minutes=int(tz[3:5]))))
        out.append(t)
    return out


def impl(case):
    f = _mkfile(case)
    vals = np.array([float(Fraction(x)) for x in case['vals']])
    with lib.pnc_warnings() as w:
        try:
            if case.get('tz'):
                r = f.time2idx(_datetimes(case), dim='x', method=case['method'], bounds=case['bmode'],
                               left=_fill(case['left']), right=_fill(case['right']), clean=case['clean'])
            else:
                r = f.val2idx('x', vals, method=case['method'], bounds=case['bmode'], left=_fill(case['left']),
                              right=_fill(case['right']), clean=case['clean'])
        except Exception as e:
            return dict(err=type(e).__name__, msg=str(e)[:80])
    warned = any('out of bounds' in x for x in w.msgs)
    m = np.ma.getmaskarray(r)
    res = ['m' if m[i] else str(int(np.ma.getdata(r)[i])) for i in range(len(vals))]
    return dict(res=res, warned=warned)


def to_line(case, res):
    return 'c16 %s %s %s %s %s %s %s' % (case['method'], case['clean'], case['left'], case['right'],
                                       lib.show_list(case['coords']), case['edges'], lib.show_list(case['vals']))


def agree(case, out, res):
    st, kv = lib.parse_kv(out)
    toks = out.split(' ')
    if st == 'err':
        if toks[1] == 'unspec':
            return None
        return None if 'err' in res else 'model %s, impl returned %s' % (out, res)
    mout = kv['out'] == '1'
    if 'err' in res:
        if case['bmode'] == 'error' and mout and res['err'] == 'ValueError':
            return None
        return 'impl raised %s (%s), model %s' % (res['err'], res.get('msg'), out[:80])
    if case['bmode'] == 'error' and mout:
        return 'model: out-of-range values with bounds=error must raise; impl returned'
    if case['bmode'] == 'warn' and mout != res['warned']:
        return 'warning: model %s impl %s' % (mout, res['warned'])
    mres = toks[1].split(',')
    for i, (a, b) in enumerate(zip(mres, res['res'])):
        if a == 'u':
            continue
        if a != b:
            return 'value %s: model %s impl %s' % (case['vals'][i], a, b)
    return None


def _grid(case):
    c = [Fraction(x) for x in case['coords']]
    e = case['edges']
    if e.startswith('e1:'):
        ed = [Fraction(x) for x in e[3:].split(',')]
    elif e.startswith('b2:'):
        rows = [[Fraction(x) for x in r.split(',')] for r in e[3:].split(';')]
        ed = [r[0] for r in rows] + [rows[-1][1]]
    else:
        ed = None
    return c, ed


def oracle(case, res):
    """brute-force statement of the property on the real result"""
    c, ed = _grid(case)
    n = len(c)
    vals = [Fraction(x) for x in case['vals']]
    method = case['method']
    if method == 'bounds' and ed is None:
        dv = [(c[i + 1] - c[i]) / 2 for i in range(n - 1)]
        uni = all(x == dv[0] for x in dv)
        ed = [c[0] - (dv[0] if uni else 0)] + [c[i + 1] - dv[i] for i in range(n - 1)] + [c[-1] + (dv[-1] if uni else 0)]
    dom = ed if ed is not None else c
    lo, hi = min(dom), max(dom)
    anyout = any(v < lo or v > hi for v in vals)
    if 'err' in res:
        if case['bmode'] == 'error' and anyout and res['err'] == 'ValueError':
            return None
        return 'raised %s %s' % (res['err'], res.get('msg'))
    if case['bmode'] == 'error' and anyout:
        return 'out-of-range values were not rejected with bounds="error"'
    if case['bmode'] == 'warn' and anyout and not res['warned']:
        return 'out-of-range values were not warned about'
    for v, r in zip(vals, res['res']):
        out = v < lo or v > hi
        if method != 'bounds':
            # nearest/exact interpolate over the centres: left/right apply beyond the outermost centre
            out = v < min(c) or v > max(c)
        if method == 'exact':
            want = str(c.index(v)) if v in c else 'm'
            if r != want:
                return 'exact: value %s -> %s, expected %s' % (v, r, want)
            continue
        if r == 'm':
            if not out:
                return 'in-range value %s is masked' % v
            continue
        i = int(r)
        if out and (case['left'] != 'none' or case['right'] != 'none'):
            # a user supplied fill (nan/value): nan with clean=none is an unspecified cast
            continue
        if not 0 <= i < n:
            return 'value %s -> index %d outside 0..%d' % (v, i, n - 1)
        if method == 'nearest':
            if abs(c[i] - v) != min(abs(x - v) for x in c):
                return 'nearest: value %s -> index %d (coordinate %s) but a closer coordinate exists' % (v, i, c[i])
        elif method == 'bounds' and not out:
            a, b = sorted((ed[i], ed[i + 1]))
            if not a <= v <= b:
                return 'bounds: value %s -> cell %d = [%s, %s] which does not contain it' % (v, i, a, b)
    return None


def classify(case, failure, model_out):
    return None


def nontrivial(case, res):
    c, ed = _grid(case)
    dom = sorted(c)
    return any(dom[0] < Fraction(v) < dom[-1] and Fraction(v) not in c for v in case['vals'])


def distribution(recs):
    d = {}
    for r in recs:
        c = r['case']
        for k in ('stream', 'method', 'bmode', 'clean'):
            key = '%s=%s' % (k, c[k])
            d[key] = d.get(key, 0) + 1
        key = 'edges=' + c['edges'][:2]
        d[key] = d.get(key, 0) + 1
        key = 'desc' if Fraction(c['coords'][0]) > Fraction(c['coords'][-1]) else 'asc'
        d[key] = d.get(key, 0) + 1
        if 'err' in r['impl']:
            d['impl_err'] = d.get('impl_err', 0) + 1
    return d
