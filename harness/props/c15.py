"""C15 — reader registry / format auto-detection (_getreader.py) against lean/PncModel/Registry.lean.

Every history of opens runs in a freshly forked child whose registry is in the state the import of
PseudoNetCDF leaves it in; the parent never opens a file through PseudoNetCDF."""
import atexit
import hashlib
import json
import os
import shutil
import sys
import tempfile

import numpy as np

from .. import lib

ID = 'C15'
LEAN_MODULE = 'PncProofs.C15'
LEAN_FILE = 'PncProofs/C15.lean'
NAMESPACE = 'Props.C15'
LEAN_CONE = ['PncModel.Registry', 'PncModel.Generated.ReaderRegistration', 'PncProofs.C15']
LEMMA_FILES = []
REQUIRED_THEOREMS = ['frame', 'history_registry', 'history_independent', 'repeat_same', 'events_registry', 'events_independent', 'registered_first', 'choose_accepts',
                     'choose_first', 'named_same', 'aliasing_counterexample']
RULE = ('pool of generated/copied files of self-describing formats (netcdf, IOAPI netcdf, uamiv, '
        'lateral_boundary, humidity, vertical_diffusivity, ffi1001, csv) each with its own extension, '
        'without extension and with a misleading extension, plus every sample under testcase/ (also ones on which '
        'some isMine raises), two humidity files of equal size and record length with different layer/time splits, a little-endian gridded file '
        '(opened with format and endian named), files of a user format; random histories of length 0..9 of auto-detecting and format-named opens '
        'and, in 30 %, the registration of the user reader (a PseudoNetCDFFile subclass defined in the middle of the history) followed by '
        'a probe, each in a freshly forked process; compared: reader chosen at every step and registry '
        'order after every step (model), probe reader and data digest vs a fresh process (oracle), '
        'auto-detected vs explicitly named open; non-trivial = history contains at least one '
        'suffix-matched open of a different format than the probe; a punch file only bpch2 reads before ordinary punch files; a punch file with a tracer its tracerinfo.dat does not list, opened repeatedly; ICARTT files delimited by commas and by blanks in one history; boundary files of one layout with 1 and 2 time steps; an ICARTT open with keysubs= before ICARTT files whose column names contain those characters; a two-step gridded file (TSTEP unlimited) before files with a TSTEP of the same length (the unlimited flag is part of the digest)')
ASSUMPTIONS = ['isMine() answers are measured once per pool file in a fresh process and passed to the model; '
               'the model then predicts every selection and the registry after every step',
               'process-global state other than the registry (module caches) is observed through the probe digest only']
MIN_NONTRIVIAL = {'quick': 10, 'thorough': 100}
NPROC = {'quick': 8, 'thorough': 14}

_POOL = None


def _tmpdir():
    d = tempfile.mkdtemp(prefix='pncverif_c15_')
    atexit.register(shutil.rmtree, d, True)
    return d


def _build_pool():
    """files are made with netCDF4 / plain copies only (no PseudoNetCDF open in this process)"""
    global _POOL
    if _POOL is not None:
        return _POOL
    import netCDF4
    import PseudoNetCDF.testcase as tc
    d = _tmpdir()
    pool = {}

    def add(key, path):
        pool[key] = path

    for fmt in ['uamiv', 'lateral_boundary', 'humidity', 'vertical_diffusivity', 'ffi1001']:
        src = tc.self_described_paths[fmt]
        for suffix, ext in (('own', '.' + fmt), ('noext', ''), ('nc', '.nc')):
            p = os.path.join(d, '%s_%s%s' % (fmt, suffix, ext))
            shutil.copyfile(src, p)
            add('%s_%s' % (fmt, suffix), p)
    # plain netCDF and IOAPI-like netCDF
    for kind in ('plain', 'ioapi'):
        p0 = os.path.join(d, kind + '_own.nc')
        nc = netCDF4.Dataset(p0, 'w', format='NETCDF3_CLASSIC')
        nc.createDimension('TSTEP', None)
        nc.createDimension('LAY', 2)
        nc.createDimension('ROW', 3)
        nc.createDimension('COL', 4)
        nc.createDimension('VAR', 1)
        nc.createDimension('DATE-TIME', 2)
        v = nc.createVariable('O3', 'f', ('TSTEP', 'LAY', 'ROW', 'COL'))
        v.units = 'ppmV'.ljust(16)
        v.long_name = 'O3'.ljust(16)
        v.var_desc = 'O3'.ljust(80)
        v[0:2] = np.arange(48, dtype='f').reshape(2, 2, 3, 4)
        t = nc.createVariable('TFLAG', 'i', ('TSTEP', 'VAR', 'DATE-TIME'))
        t.units = '<YYYYDDD,HHMMSS>'
        t.long_name = 'TFLAG'.ljust(16)
        t.var_desc = 'TFLAG'.ljust(80)
        t[0:2] = np.array([[[2019001, 0]], [[2019001, 10000]]])
        if kind == 'ioapi':
            for k, val in dict(IOAPI_VERSION='x', EXEC_ID='x', FTYPE=1, CDATE=2019001, CTIME=0, WDATE=2019001,
                               WTIME=0, SDATE=2019001, STIME=0, TSTEP=10000, NTHIK=1, NCOLS=4, NROWS=3,
                               NLAYS=2, NVARS=1, GDTYP=2, P_ALP=33., P_BET=45., P_GAM=-97., XCENT=-97.,
                               YCENT=40., XORIG=0., YORIG=0., XCELL=1000., YCELL=1000., VGTYP=7,
                               VGTOP=np.float32(5000), VGLVLS=np.array([1, .5, 0], dtype='f'),
                               GDNAM='G'.ljust(16), UPNAM='U'.ljust(16), FILEDESC='d'.ljust(80),
                               HISTORY='').items():
                nc.setncattr(k, val)
            nc.setncattr('VAR-LIST', 'O3'.ljust(16))
        nc.close()
        add(kind + '_own', p0)
        for suffix, ext in (('noext', ''), ('ncf', '.ncf'), ('uamiv', '.uamiv')):
            p = os.path.join(d, '%s_%s%s' % (kind, suffix, ext))
            shutil.copyfile(p0, p)
            add('%s_%s' % (kind, suffix), p)
    # every other sample shipped with the library (not self-describing: used as history material and probes)
    tdir = os.path.dirname(tc.__file__)
    for root, _, fs in os.walk(tdir):
        for fn in sorted(fs):
            if fn.startswith('test.') and not fn.endswith('.check') and not fn.endswith('.py'):
                key = 'tc_' + fn[5:].replace('.', '_')
                if key in pool or os.path.getsize(os.path.join(root, fn)) > 3000000:
                    continue
                pth = os.path.join(d, 'tc_' + fn[5:])
                shutil.copyfile(os.path.join(root, fn), pth)
                add(key, pth)
    # two humidity files of the same size and record length but a different split (2 layers x 3 hours, 3 x 2)
    from .. import slabfmt as S
    from .. import camx
    import random as _random
    r0 = _random.Random(15)
    for tag, nz, nt in (('hum_a', 2, 3), ('hum_b', 3, 2)):
        c = dict(fmt='humidity', nx=2, ny=2, nz=nz, flags=[[19200, 100 * h] for h in range(nt)],
                 data=[[[camx.rand_f32_bits(r0) for _ in range(4)] for _ in range(nz)] for _ in range(nt)])
        for suffix, ext in (('own', '.humidity'), ('noext', '')):
            pth = os.path.join(d, '%s_%s%s' % (tag, suffix, ext))
            open(pth, 'wb').write(S.encode(c))
            add('%s_%s' % (tag, suffix), pth)
    # a vertical-diffusivity file over the night 31 Dec 1999 -> 1 Jan 2000 (two-digit years: 99365, then 00001), with its
    # extension and without
    c = dict(fmt='vertical_diffusivity', nx=2, ny=2, nz=2, flags=[[99365, 2200], [99365, 2300], [1, 0]],
             data=[[[camx.rand_f32_bits(r0) for _ in range(4)] for _ in range(2)] for _ in range(3)])
    for suffix, ext in (('own', '.vertical_diffusivity'), ('noext', '')):
        pth = os.path.join(d, 'kvny_%s%s' % (suffix, ext))
        open(pth, 'wb').write(S.encode(c))
        add('kvny_%s' % suffix, pth)
    # a gridded emissions file of one layer whose grid header says nz = 0 (older two-dimensional files)
    c2d = camx.gen_uamiv_emis2d(r0)
    c2d['hdr_nz'] = 0
    for suffix, ext in (('own', '.uamiv'), ('noext', '')):
        pth = os.path.join(d, 'uamiv2d_%s%s' % (suffix, ext))
        open(pth, 'wb').write(camx.ref_encode_uamiv(c2d))
        add('uamiv2d_%s' % suffix, pth)
    # a little-endian gridded file (history material only: opened with format='uamiv', endian='little')
    cu = camx.gen_uamiv(r0)
    pth = os.path.join(d, 'x_uamivle.uamiv')
    open(pth, 'wb').write(camx.to_little_endian(camx.ref_encode_uamiv(cu)))
    add('x_uamivle', pth)
    pth = os.path.join(d, 'uamivgen_noext')
    open(pth, 'wb').write(camx.ref_encode_uamiv(cu))
    add('uamivgen_noext', pth)
    # a two-step gridded file (its TSTEP is marked unlimited; the humidity file hum_b has a TSTEP of the same length)
    cu2 = camx.gen_uamiv_at(r0, 2001, 12, 3)
    while len(cu2['tflag']) != 2:
        cu2 = camx.gen_uamiv_at(r0, 2001, 12, 3)
    for suffix, ext in (('own', '.uamiv'), ('noext', '')):
        pth = os.path.join(d, 'uamiv2_%s%s' % (suffix, ext))
        open(pth, 'wb').write(camx.ref_encode_uamiv(cu2))
        add('uamiv2_%s' % suffix, pth)
    # GEOS-Chem punch files in a directory of their own (with their tables): an ordinary one, and one whose second time
    # block lacks the first tracer (only the block-walking reader bpch2 reads it)
    from .. import bpchfmt as B
    bd = os.path.join(d, 'bp')
    os.makedirs(bd)
    cb = B.gen(r0)
    while len(cb['blocks']) < 2 or cb['nt'] != 2 or cb['tperm'] != [0, 1]:
        cb = B.gen(r0)
    B.tables(cb, bd)
    import copy as _copy
    c1 = _copy.deepcopy(cb)
    c1['nt'], c1['data'], c1['tperm'] = 1, cb['data'][:1], [0]
    c2 = _copy.deepcopy(cb)
    c2['nt'], c2['tperm'], c2['tau0'] = 1, [0], cb['tau0'] + cb['dtau']
    c2['blocks'], c2['data'] = cb['blocks'][1:], [cb['data'][1][1:]]
    for key, fn, byts in (('bpchp_own', 'plain.bpch', B.encode(cb)), ('bpchp_noext', 'plainfile', B.encode(cb)),
                          ('bpchr_own', 'ragged.bpch', B.encode(c1) + B.encode(c2)[136:])):
        pth = os.path.join(bd, fn)
        open(pth, 'wb').write(byts)
        add(key, pth)
    # a punch file with a tracer that has no line in the tracerinfo.dat next to it (named by its number), in its own directory
    bu = os.path.join(d, 'bu')
    os.makedirs(bu)
    B.tables(cb, bu)
    ti = os.path.join(bu, 'tracerinfo.dat')
    first = cb['blocks'][0]['name']
    kept = ''.join(l for l in open(ti).read().splitlines(True) if not l.startswith(first + ' '))
    open(ti, 'w').write(kept)
    for key, fn in (('bpchu_own', 'unlisted.bpch'), ('bpchu_noext', 'unlistedfile')):
        pth = os.path.join(bu, fn)
        open(pth, 'wb').write(B.encode(cb))
        add(key, pth)
    # a punch file that was moved away from its run directory: no tables next to it (nor in the working directory) - it
    # cannot be opened, whatever was opened before
    bn = os.path.join(d, 'bn')
    os.makedirs(bn)
    pth = os.path.join(bn, 'moved.bpch')
    open(pth, 'wb').write(B.encode(cb))
    add('bpchn_own', pth)
    # an ICARTT file whose column names contain characters other readers' options replace ('-', '.'); and the shipped
    # sample opened with substitutions asked for (history material only: format and keysubs named)
    txt = open(tc.self_described_paths['ffi1001']).read().replace('OH_pptv', 'OH-pptv').replace('HO2_pptv', 'HO2.pptv')
    for suffix, ext in (('own', '.ffi1001'), ('noext', '')):
        pth = os.path.join(d, 'ffidash_%s%s' % (suffix, ext))
        open(pth, 'w').write(txt)
        add('ffidash_%s' % suffix, pth)
    # the same ICARTT content delimited by commas (the sample uses blanks)
    lines = txt.replace('OH-pptv', 'OH_pptv').replace('HO2.pptv', 'HO2_pptv').split('\n')
    nhead = int(lines[0].split()[0])

    def _numeric(line):
        toks = line.split()
        if len(toks) < 2:
            return False
        try:
            [float(t) for t in toks]
            return True
        except ValueError:
            return False
    clines = [(', '.join(l.split()) if (i == nhead - 1 or i >= nhead or _numeric(l)) and l.strip() else l) for i, l in enumerate(lines)]
    for suffix, ext in (('own', '.ffi1001'), ('noext', '')):
        pth = os.path.join(d, 'fficomma_%s%s' % (suffix, ext))
        open(pth, 'w').write('\n'.join(clines))
        add('fficomma_%s' % suffix, pth)
    # ... and delimited by commas without a blank behind them ("36,1001")
    tlines = [l.replace(', ', ',') for l in clines]
    for suffix, ext in (('own', '.ffi1001'), ('noext', '')):
        pth = os.path.join(d, 'ffitight_%s%s' % (suffix, ext))
        open(pth, 'w').write('\n'.join(tlines))
        add('ffitight_%s' % suffix, pth)
    # two boundary files of one grid and one species list with different numbers of time steps
    cbn = S.gen_bnd(r0)
    while len(cbn['tflag']) < 2:
        cbn = S.gen_bnd(r0)
    cb1 = dict(cbn, tflag=cbn['tflag'][:1], etflag=cbn['etflag'][:1], bdata=cbn['bdata'][:1])
    for tag, cc in (('bndgen2', cbn), ('bndgen1', cb1)):
        for suffix, ext in (('own', '.lateral_boundary'), ('noext', '')):
            pth = os.path.join(d, '%s_%s%s' % (tag, suffix, ext))
            open(pth, 'wb').write(S.bnd_encode(cc))
            add('%s_%s' % (tag, suffix), pth)
    pth = os.path.join(d, 'x_ffisubs.ffi1001')
    shutil.copyfile(tc.self_described_paths['ffi1001'], pth)
    add('x_ffisubs', pth)
    # files of a user format whose reader is registered in the middle of a history
    for suffix, ext in (('own', '.rawgrid'), ('noext', '')):
        pth = os.path.join(d, 'rawgrid_%s%s' % (suffix, ext))
        open(pth, 'wb').write(b'RAWG' + np.arange(8, dtype='>f4').tobytes())
        add('rawgrid_%s' % suffix, pth)
    p = os.path.join(d, 'tab_own.csv')
    with open(p, 'w') as f:
        f.write('a,b\n1,2\n3,4\n')
    add('tab_own', p)
    _POOL = dict(dir=d, files=pool, base=_in_child(_measure, pool))
    return _POOL


def _in_child(fn, *args):
    """run fn(*args) in a forked child and return its JSON-able result"""
    r, w = os.pipe()
    pid = os.fork()
    if pid == 0:
        try:
            os.close(r)
            devnull = os.open(os.devnull, os.O_WRONLY)
            os.dup2(devnull, 2)
            os.dup2(devnull, 1)
            try:
                res = dict(ok=fn(*args))
            except BaseException as e:  # noqa
                import traceback
                res = dict(exc='%s: %s %s' % (type(e).__name__, e, traceback.format_exc()[-800:]))
            with os.fdopen(w, 'w') as f:
                json.dump(res, f)
        finally:
            os._exit(0)
    os.close(w)
    with os.fdopen(r) as f:
        data = f.read()
    os.waitpid(pid, 0)
    res = json.loads(data) if data else dict(exc='child died')
    if 'exc' in res:
        raise lib.HarnessError('child failed: ' + res['exc'])
    return res['ok']


def _clsname(c):
    return c.__module__ + '.' + c.__qualname__


def _digest(f):
    h = hashlib.sha1()
    for dk in f.dimensions:
        h.update(('%s=%d%s;' % (dk, len(f.dimensions[dk]), 'u' if f.dimensions[dk].isunlimited() else '')).encode())
    for vk in f.variables:
        v = f.variables[vk]
        arr = np.ma.filled(np.ma.asarray(v[...]), 0)
        h.update(vk.encode())
        h.update(str(arr.shape).encode())
        h.update(np.ascontiguousarray(arr).tobytes())
    return h.hexdigest()[:16]


def _measure(pool):
    """fresh process: registry (names -> class), isMine matrix, baseline selection + digest per file"""
    import PseudoNetCDF as pnc
    from PseudoNetCDF import _getreader as g
    reg = [(k, _clsname(v)) for k, v in g._readers]
    classes = []
    for k, v in g._readers:
        if v not in classes:
            classes.append(v)
    cid = {_clsname(c): i for i, c in enumerate(classes)}
    acc = {}
    for key, path in pool.items():
        yes, rz = [], []
        for c in classes:
            if hasattr(c, 'isMine'):
                try:
                    if c.isMine(path):
                        yes.append(cid[_clsname(c)])
                except Exception:
                    rz.append(cid[_clsname(c)])
            else:
                # getreader's fallback checker never fails (testreader swallows everything)
                yes.append(cid[_clsname(c)])
        acc[key] = dict(yes=yes, raises=rz)
    return dict(reg=[(k, cid[c]) for k, c in reg], classes=[_clsname(c) for c in classes], acc=acc)


def _open_one(pnc, path, cid, **kw):
    try:
        f = pnc.pncopen(path, **kw)
    except Exception as e:
        return dict(err=type(e).__name__)
    try:
        dg = _digest(f)
    except Exception as e:
        dg = 'digest-' + type(e).__name__
    return dict(cls=cid.get(_clsname(type(f)), -1), digest=dg)


USER = 'userpkg.readers.rawgrid'
REG = '@reg'
ASPATH = '@path'        # from here on the paths are handed over as pathlib.Path objects


def _register_user_reader():
    """what a user does: subclass PseudoNetCDFFile (the metaclass registers 'rawgrid' and 'readers.rawgrid')"""
    import PseudoNetCDF as pnc

    def isMine(cls, path, *a, **k):
        with open(path, 'rb') as fh:
            return fh.read(4) == b'RAWG'

    def init(self, path, *a, **k):
        data = np.fromfile(path, dtype='>f4', offset=4)
        self.createDimension('n', data.size)
        v = self.createVariable('v', 'f', ('n',))
        v[:] = data
    return type('rawgrid', (pnc.PseudoNetCDFFile,), dict(__module__='userpkg.readers', __qualname__='rawgrid',
                                                        isMine=classmethod(isMine), __init__=init))


def _run_history(pool, classes, hist, probe, named, lowfd=None):
    if lowfd:
        # a process that may hold few files open at a time: what was opened and dropped must not count
        import resource
        resource.setrlimit(resource.RLIMIT_NOFILE, (lowfd, resource.getrlimit(resource.RLIMIT_NOFILE)[1]))
    import PseudoNetCDF as pnc
    from PseudoNetCDF import _getreader as g
    cid = {c: i for i, c in enumerate(classes)}
    cid[USER] = len(classes)
    steps = []
    aspath = False
    for key, fmt in hist + [[probe, None]]:
        if key == REG:
            _register_user_reader()
            continue
        if key == ASPATH:
            aspath = True
            continue
        kw = dict(format=fmt) if fmt else {}
        if key == 'x_uamivle':
            kw = dict(format='uamiv', endian='little')
        if key == 'x_ffisubs':
            kw = dict(format='ffi1001', keysubs={'-': '_', '.': '_', '/': '_'})
        import pathlib
        r = _open_one(pnc, pathlib.Path(pool[key]) if aspath else pool[key], cid, **kw)
        r['reg'] = [k for k, v in g._readers]
        steps.append(r)
        if lowfd:
            import gc
            gc.collect()        # what is unreachable is released now, not when the collector next happens to run
    res = dict(steps=steps)
    if named:
        res['named'] = _open_one(pnc, pool[probe], cid, format=named)
    return res


def _run_mf(pool, keys):
    """the multi-file front end on files of different kinds: every path is detected on its own, as pncopen(path) does it"""
    import shutil
    import tempfile
    import PseudoNetCDF as pnc
    d = tempfile.mkdtemp(prefix='pncverif_c15mf_')
    try:
        return _run_mf_in(pnc, pool, keys, d)
    finally:
        shutil.rmtree(d, True)


def _run_mf_in(pnc, pool, keys, d):
    # the file of the pool and its netCDF copy written by the library (a second "hour" of another kind)
    first = os.path.join(d, 'hour00' + (os.path.splitext(pool[keys[0]])[1] or '.bin'))
    import shutil
    shutil.copy(pool[keys[0]], first)
    second = os.path.join(d, 'hour01.nc')
    pnc.pncwrite(pnc.pncopen(first), second, format='NETCDF3_CLASSIC', verbose=0).close()
    paths = [first, second]
    keys = [os.path.basename(p) for p in paths]
    alone = [pnc.pncopen(p) for p in paths]
    names = [k for k in alone[0].variables if k not in ('TFLAG', 'ETFLAG') and all(
        k in f.variables and tuple(f.variables[k].dimensions)[:1] == ('TSTEP',) for f in alone)]
    out = []
    for order in ([0, 1], [1, 0]):
        try:
            mf = pnc.pncmfopen([paths[i] for i in order], stackdim='TSTEP')
            for k in names:
                want = np.concatenate([np.asarray(alone[i].variables[k][:]) for i in order], axis=0)
                got = np.asarray(mf.variables[k][:])
                if got.shape != want.shape or not np.array_equal(got, want):
                    out.append('%s: %s differs from the files opened one by one' % ([keys[i] for i in order], k))
        except Exception as e:
            out.append('%s: pncmfopen raised %s %s although each file opens alone' % ([keys[i] for i in order], type(e).__name__, str(e)[:80]))
    return dict(readers=[type(f).__name__ for f in alone], nvars=len(names), bad=out)


def _fresh_named(pool, classes, key, named):
    import PseudoNetCDF as pnc
    cid = {c: i for i, c in enumerate(classes)}
    cid[USER] = len(classes)
    return _open_one(pnc, pool[key], cid, format=named)


def _fresh(pool, classes, key, withreg=False):
    import PseudoNetCDF as pnc
    cid = {c: i for i, c in enumerate(classes)}
    cid[USER] = len(classes)
    if withreg:
        _register_user_reader()
    kw = dict(format='uamiv', endian='little') if key == 'x_uamivle' else {}
    if key == 'x_ffisubs':
        kw = dict(format='ffi1001', keysubs={'-': '_', '.': '_', '/': '_'})
    return _open_one(pnc, pool[key], cid, **kw)


NAMED = {'uamiv': 'uamiv', 'lateral_boundary': 'lateral_boundary', 'ffi1001': 'ffi1001', 'fficomma': 'ffi1001', 'ffidash': 'ffi1001',
         'ffitight': 'ffi1001',
         'bndgen1': 'lateral_boundary', 'bndgen2': 'lateral_boundary',
         'humidity_own': 'humidity', 'vertical_diffusivity_own': 'vertical_diffusivity',
         'plain': 'netcdf', 'ioapi': 'ioapi', 'uamiv2d': 'uamiv', 'kvny_own': 'vertical_diffusivity'}


def _named_for(key):
    if key in NAMED:
        return NAMED[key]
    return NAMED.get(key.rsplit('_', 1)[0])


def _names_for(base, key, rng):
    """a registered name of a reader that accepts the file (or, sometimes, any name)"""
    acc = base['acc'][key]['yes']
    names = [k for k, c in base['reg'] if c in acc and '.' not in k and k != 'Dataset']
    if names and rng.random() < 0.12:
        # a spelling that is not a registered name (other case, blanks around it): refused, and nothing is remembered
        nm = rng.choice(names)
        alt = rng.choice([nm.capitalize(), nm.upper(), ' ' + nm, nm + ' '])
        if alt not in [k for k, c in base['reg']]:
            return alt
    if names and rng.random() < 0.85:
        return rng.choice(names)
    return rng.choice([k for k, c in base['reg'] if '.' not in k])


def gen(rng, tier):
    P = _build_pool()
    keys = sorted(P['files'])
    sd = [k for k in keys if not k.startswith('tc_') and not k.startswith('x_')]
    n = 60 if tier == 'quick' else 1500
    out = []
    for i in range(n):
        L = rng.randint(0, 8)
        hist = []
        for _ in range(L):
            key = rng.choice(keys if rng.random() < 0.4 else sd)
            fmt = _names_for(P['base'], key, rng) if rng.random() < 0.3 else None
            hist.append([key, fmt])
        if rng.random() < 0.3 and hist:
            hist = hist + [hist[-1]]
        probe = rng.choice(sd if rng.random() < 0.8 else [k for k in keys if not k.startswith('x_')])
        if rng.random() < 0.35:
            # an earlier open of the probe itself, with a format named
            hist.insert(rng.randint(0, len(hist)), [probe, _names_for(P['base'], probe, rng)])
        if rng.random() < 0.3:
            # a user reader is registered somewhere in the history (often after the first auto-detecting open) and its
            # files are opened afterwards
            hist.insert(rng.randint(0, len(hist)), [REG, None])
            if rng.random() < 0.7:
                probe = rng.choice(['rawgrid_noext', 'rawgrid_own'])
        if rng.random() < 0.25:
            # same-sized files of one family with different layouts, and a little-endian open, next to the probe
            hist.append([rng.choice(['hum_a_own', 'hum_a_noext', 'hum_b_own', 'hum_b_noext', 'x_uamivle']), None])
            if rng.random() < 0.6:
                probe = rng.choice(['hum_a_own', 'hum_a_noext', 'hum_b_own', 'hum_b_noext', 'uamivgen_noext', 'uamiv_noext'])
        if rng.random() < 0.15:
            hist.insert(rng.randint(0, len(hist)), [ASPATH, None])
        out.append(dict(hist=hist, probe=probe))
    # paths as pathlib.Path objects: the files whose extension decides between readers that all accept them
    for pr in ['humidity_own', 'vertical_diffusivity_own', 'plain_own', 'hum_a_own', 'hum_b_own']:
        if pr in P['files']:
            out.append(dict(hist=[[ASPATH, None]], probe=pr))
    # structured: an auto-detecting open on which some reader's isMine raises, then a probe that reader accepts
    base = P['base']
    pairs = []
    for f in keys:
        for r in base['acc'][f]['raises']:
            for g2 in sd:
                if r in base['acc'][g2]['yes']:
                    pairs.append((f, g2))
    rng.shuffle(pairs)
    for f, g2 in pairs[:(12 if tier == 'quick' else 200)]:
        pre = [[rng.choice(sd), None]] if rng.random() < 0.5 else []
        out.append(dict(hist=pre + [[f, None]], probe=g2))
    # byte order: a little-endian open (format and endian named) before and after big-endian files of the same reader
    for h, pr in [([['x_uamivle', None]], 'uamiv_noext'), ([['x_uamivle', None]], 'uamivgen_noext'),
                  ([['uamiv_own', None]], 'x_uamivle'), ([['tab_own', None], ['x_uamivle', None], ['uamiv_own', None]], 'x_uamivle'),
                  ([['hum_a_own', None]], 'hum_b_noext'), ([['hum_b_noext', None]], 'hum_a_own'),
                  ([['plain_own', None], [REG, None]], 'rawgrid_noext'),
                  # a punch file only the fallback reader reads, then ordinary ones
                  ([['bpchr_own', None]], 'bpchp_own'), ([['bpchp_own', None], ['bpchr_own', None]], 'bpchp_noext'),
                  ([['bpchr_own', 'bpch']], 'bpchp_own'),
                  # readers that mark a dimension unlimited before files with a dimension of the same name and length
                  ([['uamiv2_own', None]], 'hum_b_own'), ([['uamiv2_noext', None], ['hum_b_noext', None]], 'hum_b_own'),
                  ([['hum_b_own', None]], 'uamiv2_noext'), ([['uamiv2_own', None]], 'lateral_boundary_own'),
                  # a punch file with an unlisted tracer opened more than once; options of one open and later opens
                  ([['bpchu_own', None]], 'bpchu_own'), ([['bpchu_noext', None], ['bpchp_own', None]], 'bpchu_own'),
                  ([['bpchu_own', 'bpch']], 'bpchu_noext'),
                  ([['x_ffisubs', None]], 'ffidash_own'), ([['x_ffisubs', None], ['ffi1001_own', None]], 'ffidash_noext'),
                  ([['ffidash_own', None]], 'x_ffisubs'),
                  # ICARTT files with different delimiters; boundary files of one layout with different numbers of steps
                  ([['ffi1001_own', None]], 'fficomma_noext'), ([['fficomma_own', None]], 'ffi1001_noext'),
                  ([['ffi1001_noext', None], ['fficomma_own', 'ffi1001']], 'fficomma_own'),
                  ([['fficomma_noext', None], ['ffi1001_own', 'ffi1001']], 'ffi1001_own'),
                  ([['bpchp_own', None]], 'bpchn_own'), ([['bpchu_own', None], ['bpchp_noext', 'bpch']], 'bpchn_own'),
                  ([], 'ffitight_own'), ([['ffi1001_own', None]], 'ffitight_noext'), ([['ffitight_noext', 'ffi1001']], 'ffitight_own'),
                  ([['bndgen2_own', None]], 'bndgen1_noext'), ([['bndgen1_own', None]], 'bndgen2_own'),
                  ([['bndgen2_noext', 'lateral_boundary']], 'bndgen1_own'),
                  ([], 'uamiv2d_own'), ([['uamiv_own', None]], 'uamiv2d_noext'), ([], 'kvny_own'), ([['hum_a_own', None]], 'kvny_own')]:
        out.append(dict(hist=h, probe=pr))
    # the multi-file front end without a format on a gridded CAMx file and its netCDF copy (both orders)
    if 'uamiv_own' in P['files']:
        out.append(dict(hist=[], probe='uamiv_own', mf=['uamiv_own']))
    # the history that used to break: an .nc open before an extension-less netCDF probe
    out.append(dict(hist=[['plain_own', None]], probe='ioapi_noext'))
    out.append(dict(hist=[['plain_own', None], ['plain_own', None], ['uamiv_nc', None]], probe='plain_noext'))
    # "how often": many opens in a process that may hold few files open at a time; every object is dropped after its open
    many = [[k, None] for k in ('uamiv_own', 'lateral_boundary_own', 'humidity_own', 'bpchp_own') if k in P['files']] * 20
    out.append(dict(hist=many, probe='humidity_own', lowfd=100))
    return out


def _ext(path):
    return os.path.splitext(path)[1][1:]


def impl(case):
    P = _build_pool()
    pool = P['files']
    classes = P['base']['classes']
    named = _named_for(case['probe'])
    res = _in_child(_run_history, pool, classes, case['hist'], case['probe'], named, case.get('lowfd'))
    res['fresh'] = _in_child(_fresh, pool, classes, case['probe'], any(k == REG for k, _ in case['hist']))
    if case.get('mf'):
        res['mf'] = _in_child(_run_mf, pool, case['mf'])
    if named and any(k == case['probe'] and fmt == named for k, fmt in case['hist']):
        # the probe is also opened with its format named somewhere in the history: what a fresh process gives for that
        res['fresh_named'] = _in_child(_fresh_named, pool, classes, case['probe'], named)
    return res


def to_line(case, res):
    P = _build_pool()
    base = P['base']
    reg = ','.join('%s:%d' % (k.replace(',', '_').replace(' ', '_'), c) for k, c in base['reg'])
    opens = []
    uid = len(base['classes'])
    for key, fmt in case['hist'] + [[case['probe'], None]]:
        if key == REG:
            # the metaclass registers the short name, then the long one (each goes to the front)
            opens += ['reg:rawgrid:%d' % uid, 'reg:readers.rawgrid:%d' % uid]
            continue
        if key == ASPATH:
            continue
        a = base['acc'][key]
        yes = list(a['yes']) + ([uid] if key.startswith('rawgrid') else [])
        ext = _ext(P['files'][key]) or '-'
        if key == 'x_uamivle':
            fmt = 'uamiv'
        if key == 'x_ffisubs':
            fmt = 'ffi1001'
        opens.append('%s/%s/%s/%s' % (ext, '+'.join(map(str, yes)) or '-',
                                      '+'.join(map(str, a['raises'])) or '-', (fmt or '-').replace(',', '_').replace(' ', '_')))
    return 'c15 events %s %s' % (reg, ','.join(opens))


def agree(case, out, res):
    st, kv = lib.parse_kv(out)
    if st != 'ok':
        return 'model: ' + out[:100]
    chosen = kv['chosen'].split(',')
    P = _build_pool()
    for i, (m, s) in enumerate(zip(chosen, res['steps'])):
        if 'err' in s:
            # the selected reader may fail to open the file (outside the registry model) — compare selection only
            # when the open succeeded; a TypeError means no reader accepted
            if m == 'TypeError' and s['err'] == 'TypeError':
                continue
            if m == 'KeyError' and s['err'] == 'KeyError':
                continue
            if m == 'isMineRaised' or m.isdigit():
                # isMine raised (any exception class) / the selected reader failed to open the file
                continue
            return 'step %d: model %s, impl raised %s' % (i, m, s['err'])
        if not m.isdigit():
            return 'step %d: model %s, impl opened with class %s' % (i, m, s['cls'])
        if int(m) != s['cls']:
            cl = P['base']['classes'] + [USER]
            return 'step %d: model selects %s, impl %s' % (i, cl[int(m)], cl[s['cls']] if s['cls'] >= 0 else s['cls'])
    names0 = [k.replace(',', '_').replace(' ', '_') for k, c in P['base']['reg']]
    mreg = kv['reg'].split(',')
    if mreg != names0:
        # the model (aliasing variant) grows the registry: compare with what the code did
        pass
    last = [k.replace(',', '_').replace(' ', '_') for k in res['steps'][-1]['reg']]
    if mreg != last:
        return 'registry after the history: model has %d entries (%s…), impl %d (%s…)' % (
            len(mreg), mreg[:3], len(last), last[:3])
    return None


def oracle(case, res):
    if res.get('mf', {}).get('bad'):
        return 'pncmfopen on files of different kinds: ' + '; '.join(res['mf']['bad'])
    probe = res['steps'][-1]
    fresh = res['fresh']
    if ('err' in probe) != ('err' in fresh):
        return 'probe %s: %s after the history but %s in a fresh process' % (case['probe'], probe, fresh)
    if 'err' in probe and 'named' in res and 'err' not in res['named']:
        return 'probe %s opens with format=%s but auto-detection raises %s' % (case['probe'], _named_for(case['probe']), probe['err'])
    if 'err' not in probe:
        if probe['cls'] != fresh['cls']:
            P = _build_pool()
            cl = P['base']['classes'] + [USER]
            return 'probe %s is read by %s after history %s but by %s in a fresh process' % (
                case['probe'], cl[probe['cls']], case['hist'], cl[fresh['cls']])
        if probe['digest'] != fresh['digest']:
            return 'probe %s presents different data after history %s' % (case['probe'], case['hist'])
        if 'named' in res:
            nm = res['named']
            if 'err' in nm:
                return 'probe %s opens by auto-detection but format=%s raises %s' % (
                    case['probe'], _named_for(case['probe']), nm['err'])
            if nm['digest'] != probe['digest']:
                return 'probe %s: auto-detected data differ from format=%s' % (case['probe'], _named_for(case['probe']))
    if 'fresh_named' in res:
        fn = res['fresh_named']
        named = _named_for(case['probe'])
        opens = [(k, fmt) for k, fmt in case['hist'] if k != REG]
        for i, (k, fmt) in enumerate(opens):
            if k == case['probe'] and fmt == named and i < len(res['steps']):
                st = res['steps'][i]
                if ('err' in st) != ('err' in fn) or ('err' not in st and st['digest'] != fn['digest']):
                    return 'step %d of the history opens %s with format=%s: %s, a fresh process gives %s' % (
                        i, k, named, {a: b for a, b in st.items() if a != 'reg'}, fn)
    regs = [s['reg'] for s in res['steps']]
    if not any(k == REG for k, _ in case['hist']) and any(r != regs[0] for r in regs):
        return 'registry changed during the history (length %d -> %d)' % (len(regs[0]), len(regs[-1]))
    return None


def classify(case, failure, model_out):
    return None


def nontrivial(case, res):
    P = _build_pool()
    pk = case['probe'].rsplit('_', 1)[0]
    for h, fmt in case['hist']:
        if h == REG:
            return True
        if h == ASPATH:
            continue
        if (_ext(P['files'][h]) or fmt) and (h.rsplit('_', 1)[0] != pk or fmt):
            return True
    return False


def distribution(recs):
    d = {'hist_len': {}}
    for r in recs:
        L = len(r['case']['hist'])
        d['hist_len'][L] = d['hist_len'].get(L, 0) + 1
        if 'err' in r['impl']['steps'][-1]:
            d['probe_err'] = d.get('probe_err', 0) + 1
        if 'named' in r['impl']:
            d['named_checked'] = d.get('named_checked', 0) + 1
    return d
