"""C18 — GEOS-Chem binary punch read/write round trip and scaling"""
import contextlib
import io
import os
import shutil
import struct
import tempfile

import numpy as np

from .. import bpchfmt as B
from .. import camx, lib

ID = 'C18'
LEAN_MODULE = 'PncProofs.C18'
LEAN_FILE = 'PncProofs/C18.lean'
NAMESPACE = 'Props.C18'
LEAN_CONE = ['PncModel.Generated.BpchHeaders', 'PncModel.Words', 'PncModel.Bpch', 'PncProofs.WordsLemmas', 'PncProofs.C18']
LEMMA_FILES = ['PncProofs/WordsLemmas.lean']
REQUIRED_THEOREMS = ['tiles', 'groupSteps_flatten', 'refDecode_encode', 'repeat_breaks_grouping', 'resolve_listed',
                     'resolve_unlisted', 'header_layout_matches_source']
RULE = ('bpch files of 1-3 time steps, 1-4 (category, tracer) blocks per step from five categories with different '
        'offsets, 1-3 layers per tracer, nested-grid start offsets, any float32 payload; tracerinfo/diaginfo tables '
        'with scale factors 1e9 / 1 / 0.5, optionally without the line of a tracer: (1) bytes of the python '
        'reference encoder = Lean encoder, Lean decoder recovers the spec; (2) bpch1(noscale) presents the raw '
        'values, ncf2bpch of it reproduces the bytes; (3) bpch1 with scaling = float32(raw) * scale with the unit '
        'and name the Lean `resolve` selects; (4) the block-walking reader bpch2 presents the same data as bpch1; '
        'non-trivial = at least 2 steps and 2 blocks with different layer counts; (5) the scaled file written by ncf2bpch into an empty directory and read again: names, units, values; (6) the front end bpch() with the block-walking reader named and exactly one of noscale / nogroup set; (9) three time blocks whose middle one stores two equally long tracers in the other order (the memory-mapped reader has to refuse, the public reader reads through its fallback); (8) an in-memory copy of the scaled file written twice (unchanged object, equal bytes); (7) bpch1 with a stepped / reversed / end-relative timeslice: tau0 and values of exactly the selected time blocks')
ASSUMPTIONS = ['float32 multiplication by the scale factor is numpy, checked numerically (not modelled)',
               'numpy memmap / structured dtypes are trusted for the stride arithmetic, which is exercised on every case']
MIN_NONTRIVIAL = {'quick': 15, 'thorough': 200}
NPROC = {'quick': 4, 'thorough': 12}


def gen(rng, tier):
    n = 60 if tier == 'quick' else 1500
    out = []
    for i in range(n):
        c = B.gen(rng)
        c['drop_line'] = rng.random() < 0.2         # the first block's tracer has no tracerinfo line
        c['running'] = c['nt'] >= 2 and rng.random() < 0.2      # running averages: the blocks of a tracer share tau0
        c['tslice'] = rng.choice([[None, None, 2], [1, None, None], [None, None, -1], [-1, None, None], [None, -1, None], [1, None, 2]])
        out.append(c)
    for _ in range(4 if tier == 'quick' else 60):
        # three time blocks, the middle one with two equally long tracers in the other order
        c = B.gen(rng)
        while c['nt'] != 3 or len(c['blocks']) < 3:
            c = B.gen(rng)
        # (not the first tracer: it is the one whose return marks the end of a time block)
        c['blocks'][2]['nz'] = c['blocks'][1]['nz']
        for t in range(3):
            c['data'][t][2] = [camx.rand_f32_bits(rng) for _ in range(c['nx'] * c['ny'] * c['blocks'][2]['nz'])]
        c['tperm'] = [0, 1, 2]
        c['drop_line'] = False
        c['midswap'] = [1, 2]
        out.append(c)
    for _ in range(2 if tier == 'quick' else 20):
        out.append(_groups_spec(rng))
    c = B.gen(rng)
    c['nt'] = 2
    c['tperm'] = [0, 1]
    c['blocks'] = c['blocks'][:1]
    c['data'] = [[c['data'][0][0]], [c['data'][0][0]]]
    c['drop_line'] = False
    out.append(c)            # two steps of one tracer: the layout that used to raise
    # on every run: a tracer on the native 72-layer grid opened with the default (reduced) vertical grid - a warning, not
    # an error; and tables that hold just the one line the file needs
    c = B.gen(rng)
    c['nx'] = c['ny'] = 1
    c['blocks'][0]['nz'] = 72
    c['deep'] = True
    for t in range(c['nt']):
        for bi, b in enumerate(c['blocks']):
            c['data'][t][bi] = [camx.rand_f32_bits(rng) for _ in range(b['nz'])]
    c['drop_line'] = False
    out.append(c)
    c = B.gen(rng)
    c['blocks'] = c['blocks'][:1]
    c['data'] = [step[:1] for step in c['data']]
    c['drop_line'] = False
    c['short_tables'] = True
    out.append(c)
    return out


def _wordstr(b):
    return b.hex()


def lean_file(c):
    """the spec as the Lean `File` (ftype, title, steps of (hdr1, hdr2, data))"""
    def w(bs):
        return bs.hex()
    steps = []
    for t in range(c['nt']):
        tau0, tau1 = B.taus(c, t)
        bl = []
        for bi, b in enumerate(c['blocks']):
            h1 = c['modelname'].encode().ljust(20) + struct.pack('>ffii', c['res'][0], c['res'][1], c['halfpolar'], c['center180'])
            n = c['nx'] * c['ny'] * b['nz']
            unit = (b['unit'] if c['unit_in_file'] else 'unitless').encode().ljust(40)
            h2 = (b['cat'].encode().ljust(40) + struct.pack('>i', b['tid']) + unit + struct.pack('>dd', tau0, tau1) + b' ' * 40 +
                  struct.pack('>6i', c['nx'], c['ny'], b['nz'], *b.get('start', c['start'])) + struct.pack('>i', 4 * n + 8))
            d = struct.pack('>%dI' % n, *c['data'][t][bi])
            bl.append('%s:%s:%s' % (w(h1), w(h2), w(d) or '-'))
        steps.append(';'.join(bl))
    return 'ftype=%s title=%s steps=%s' % (w(b'CTM bin 02'.ljust(40)), w(c['title'].encode().ljust(80)), '|'.join(steps))


def tables_for(c, d):
    B.tables(c, d)
    if c.get('short_tables'):
        # only the lines the file needs (a run with one diagnostic: one line each)
        tids = {b['off'] + b['tid'] for b in c['blocks']}
        cats = {b['cat'] for b in c['blocks']}
        p = os.path.join(d, 'tracerinfo.dat')
        lines = [ln for ln in open(p).read().split('\n') if ln.startswith('#') or (ln and int(ln[52:61]) in tids)]
        open(p, 'w').write('\n'.join(lines) + '\n')
        p = os.path.join(d, 'diaginfo.dat')
        lines = [ln for ln in open(p).read().split('\n') if ln.startswith('#') or (ln and ln[9:49].strip() in cats)]
        open(p, 'w').write('\n'.join(lines) + '\n')
    if c.get('drop_line'):
        b = c['blocks'][0]
        p = os.path.join(d, 'tracerinfo.dat')
        lines = [ln for ln in open(p).read().split('\n') if not (ln and not ln.startswith('#') and int(ln[52:61]) == b['off'] + b['tid'])]
        open(p, 'w').write('\n'.join(lines))


def _impl_midswap(case):
    """a file whose middle time block stores two equally long tracers in the other order: legal for the format, outside
    what the memory-mapped reader accepts (it must refuse it) and read by the public reader through its fallback"""
    from PseudoNetCDF.geoschemfiles._bpch import bpch1
    from PseudoNetCDF.geoschemfiles._bpchmaster import bpch as front
    d = tempfile.mkdtemp(prefix='c18s_', dir=camx.tmpdir())
    try:
        with lib.pnc_warnings(), contextlib.redirect_stdout(io.StringIO()):
            p = os.path.join(d, 'a.bpch')
            open(p, 'wb').write(B.encode(case))
            tables_for(case, d)
            res = dict(midswap=True)
            try:
                res['bpch1'] = view(bpch1(p, noscale=True), case)
            except Exception as e:
                res['bpch1'] = dict(err=type(e).__name__)
            try:
                res['front'] = view(front(p, noscale=True), case)
            except Exception as e:
                res['front'] = dict(err='%s %s' % (type(e).__name__, str(e)[:80]))
            return res
    finally:
        shutil.rmtree(d, True)


def _oracle_midswap(case, res):
    for tag in ('bpch1', 'front'):
        v = res[tag]
        if 'err' in v:
            if tag == 'front':
                return 'the public reader raised on a file whose middle time block lists two tracers in the other order: ' + v['err']
            continue
        want0 = [B.taus(case, t)[0] for t in range(case['nt'])]
        if [float(x) for x in v['tau0']] != want0:
            return '%s presents tau0 %s, the file holds %s' % (tag, v['tau0'], want0)
        got = {x['key']: x for x in v['vars']}
        for bi, b in enumerate(case['blocks']):
            want = [w for t in range(case['nt']) for w in case['data'][t][bi]]
            key = [k for k in got if got[k]['tracerid'] == b['tid'] and got[k]['category'] == b['cat']]
            if not key or got[key[0]]['bits'] != want:
                return '%s presents other values for tracer %s/%d than its own blocks hold (a middle time block stores two tracers in the other order)' % (
                    tag, b['cat'], b['tid'])
    return None


def _groups_spec(rng):
    """an emission category (offset 1000) whose tracer 1 has the short name of concentration tracer 1 (real tables name tracer
    1 and 1001 alike), and a category that no table lists but whose name begins like the listed emission category"""
    c = B.gen(rng)
    nx, ny = c['nx'], c['ny']
    blocks = [dict(cat='IJ-AVG-$', off=0, tid=1, name='NOx', scale=1e9, unit='ppbv', nz=2, start=[1, 1, 1]),
              dict(cat='ANTHSRCE', off=1000, tid=1, name='NOx', scale=2.0, unit='kg/s', nz=1, start=[1, 1, 1]),
              # not listed in diaginfo.dat: offset 0, so tracer 2 is line 2 of the table (Ox, 1e9, ppbv)
              dict(cat='ANTHSRCE-AD', off=0, tid=2, name='Ox', scale=1e9, unit='ppbv', nz=1, start=[1, 1, 1], unlisted_cat=True)]
    c.update(nt=1, tperm=[0], blocks=blocks, start=[1, 1, 1], unit_in_file=True, groups=True, drop_line=False,
             data=[[[camx.f32bits(float(rng.randint(1, 9))) for _ in range(nx * ny * b['nz'])] for b in blocks]])
    return c


def _impl_groups(case):
    from PseudoNetCDF.geoschemfiles._bpch import bpch1
    d = tempfile.mkdtemp(prefix='c18g_', dir=camx.tmpdir())
    try:
        with lib.pnc_warnings(), contextlib.redirect_stdout(io.StringIO()):
            p = os.path.join(d, 'a.bpch')
            open(p, 'wb').write(B.encode(case))
            B.tables(case, d)
            # the emission category and its tracers 1, 2 are added to the tables; ANTHSRCE-AD is not
            with open(os.path.join(d, 'tracerinfo.dat'), 'a') as fh:
                for tid, name, scale, unit in ((1001, 'NOx', 2.0, 'kg/s'), (1002, 'SOx', 3.0, 'kg/s')):
                    fh.write('%-8s %-30s%10.3e%3d%9d%10.3e %s\n' % (name, name + ' tracer', 12e-3, 1, tid, scale, unit))
            with open(os.path.join(d, 'diaginfo.dat'), 'a') as fh:
                fh.write('%8d %-40s %s\n' % (1000, 'ANTHSRCE', 'category ANTHSRCE'))
            out = {}
            for tag, kw in (('nogroup_list', dict(nogroup=['ANTHSRCE'])), ('grouped', dict())):
                f = bpch1(p, **kw)
                g = f.groups['IJ-AVG-$'].variables['NOx']
                ad = f.variables['ANTHSRCE-AD_Ox'] if 'ANTHSRCE-AD_Ox' in f.variables else None
                out[tag] = dict(keys=sorted(k for k in f.variables if 'NOx' in k or 'ANTHSRCE' in k),
                                conc=np.asarray(g[...], dtype='d').ravel().tolist(), conc_unit=str(getattr(g, 'units', '')).strip(),
                                ad=None if ad is None else np.asarray(ad[...], dtype='d').ravel().tolist(),
                                ad_unit=None if ad is None else str(getattr(ad, 'units', '')).strip())
            return dict(groups=out)
    except lib.HarnessError:
        raise
    except Exception as e:
        return dict(err=type(e).__name__, msg=str(e)[:100])
    finally:
        shutil.rmtree(d, True)


def _oracle_groups(case, res):
    if 'err' in res:
        return 'reading a file with an emission category next to the concentrations raised %s %s' % (res['err'], res.get('msg'))
    raw = [[camx.bits_f32(w) for w in blk] for blk in case['data'][0]]
    for tag, v in res['groups'].items():
        want = [float(np.float32(x) * np.float32(1e9)) for x in raw[0]]
        if len(v['conc']) != len(want) or any(abs(a - b) > 1e-6 * abs(b) for a, b in zip(v['conc'], want)) or v['conc_unit'] != 'ppbv':
            return "%s: groups['IJ-AVG-$'].variables['NOx'] presents %s [%s], the concentration blocks hold raw x 1e9 = %s [ppbv] (variables %s)" % (
                tag, v['conc'][:3], v['conc_unit'], want[:3], v['keys'])
        wad = [float(np.float32(x) * np.float32(1e9)) for x in raw[2]]
        if v['ad'] is None or any(abs(a - b) > 1e-6 * abs(b) for a, b in zip(v['ad'], wad)) or v['ad_unit'] != 'ppbv':
            return "%s: tracer 2 of the category ANTHSRCE-AD (in no table: offset 0, line 2 of the tracer table = Ox, 1e9, ppbv) is presented as %s [%s] under %s" % (
                tag, v['ad'] and v['ad'][:3], v['ad_unit'], v['keys'])
    return None


def impl(case):
    if case.get('midswap'):
        return _impl_midswap(case)
    if case.get('groups'):
        return _impl_groups(case)
    from PseudoNetCDF.geoschemfiles._bpch import bpch1, ncf2bpch
    from PseudoNetCDF.geoschemfiles._newbpch import bpch2
    d = tempfile.mkdtemp(prefix='c18_', dir=camx.tmpdir())
    try:
        with lib.pnc_warnings(), contextlib.redirect_stdout(io.StringIO()):
            raw = B.encode(case)
            p = os.path.join(d, 'a.bpch')
            open(p, 'wb').write(raw)
            tables_for(case, d)
            res = dict(hex=raw.hex())
            try:
                f = bpch1(p, noscale=True)
                res['raw'] = view(f, case)
                out = os.path.join(d, 'o.bpch')
                ncf2bpch(f, out).close()
                res['rewritten'] = open(out, 'rb').read().hex()
                g = bpch1(p, noscale=False)
                res['scaled'] = view(g, case)
                # the scaled file written into a directory of its own (the writer puts the tables it needs next to the
                # output) and read again: the same names, units and values
                try:
                    d2 = os.path.join(d, 'fresh')
                    os.makedirs(d2)
                    out2 = os.path.join(d2, 'w.bpch')
                    ncf2bpch(g, out2).close()
                    res['rescaled'] = view(bpch1(out2, noscale=False), case)
                except lib.HarnessError:
                    raise
                except Exception as e:
                    res['rescaled'] = dict(err='%s %s' % (type(e).__name__, str(e)[:80]))
                # an in-memory copy of the scaled file written twice: writing is a query (the object is unchanged, the second
                # file has the bytes of the first)
                try:
                    gm = g.copy()
                    before = view(gm, case)
                    d3 = os.path.join(d, 'mem')
                    os.makedirs(d3)
                    ncf2bpch(gm, os.path.join(d3, 'm1.bpch')).close()
                    after = view(gm, case)
                    ncf2bpch(gm, os.path.join(d3, 'm2.bpch')).close()
                    res['mem'] = dict(changed=(before != after), same=(open(os.path.join(d3, 'm1.bpch'), 'rb').read() ==
                                                                       open(os.path.join(d3, 'm2.bpch'), 'rb').read()))
                except lib.HarnessError:
                    raise
                except Exception as e:
                    res['mem'] = dict(err='%s %s' % (type(e).__name__, str(e)[:80]))
                try:
                    h = bpch2(p)
                    res['bpch2'] = view(h, case)
                except Exception as e:
                    res['bpch2'] = dict(err='%s %s' % (type(e).__name__, str(e)[:80]))
                # the front end with the block-walking reader named and exactly one of the two options set
                from PseudoNetCDF.geoschemfiles._bpchmaster import bpch as front
                for tag, kw in (('front_noscale', dict(reader='bpch2', noscale=True)), ('front_nogroup', dict(reader='bpch2', nogroup=True))):
                    try:
                        res[tag] = view(front(p, **kw), case)
                    except lib.HarnessError:
                        raise
                    except Exception as e:
                        res[tag] = dict(err='%s %s' % (type(e).__name__, str(e)[:80]))
                # the map opened copy-on-write, every tracer taken twice: reading is a query, the second answer is the first
                try:
                    gc = bpch1(p, noscale=False, mode='c')
                    v1 = view(gc, case)
                    v2 = view(gc, case)
                    res['modec'] = dict(first_same=(v1 == res['scaled']), second_same=(v2 == v1))
                except lib.HarnessError:
                    raise
                except Exception as e:
                    res['modec'] = dict(err='%s %s' % (type(e).__name__, str(e)[:80]))
                # a tracer added to the file that was read (the attributes of an existing tracer, another number), written and
                # walked block by block: every time step has one more block, with that tracer number and those values
                try:
                    fa = bpch1(p, noscale=True)
                    keys = [k for k in fa.variables.keys() if hasattr(fa.variables[k], 'tracerid') and hasattr(fa.variables[k], 'category')
                            and not k.startswith('layer')]
                    tmpl = fa.variables[keys[0]]
                    used = {int(fa.variables[k].tracerid) for k in keys}
                    newid = max(used) + 1
                    nk = keys[0] + 'X'
                    nv = fa.createVariable(nk, 'f', tmpl.dimensions)
                    for a in tmpl.ncattrs():
                        setattr(nv, a, getattr(tmpl, a))
                    nv.tracerid = newid
                    nv[:] = np.asarray(tmpl[:]) + np.float32(1)
                    d4 = os.path.join(d, 'added')
                    os.makedirs(d4)
                    outa = os.path.join(d4, 'a.bpch')
                    ncf2bpch(fa, outa).close()
                    rawa = open(outa, 'rb').read()
                    # walk the records: 3 header records, then per block a 36-byte and a 168-byte record followed by the data
                    off, nblocks, ids = 0, 0, []
                    recs = []
                    while off < len(rawa):
                        n = struct.unpack('>i', rawa[off:off + 4])[0]
                        recs.append((off + 4, n))
                        off += n + 8
                    for (o1, n1), (o2, n2) in zip(recs, recs[1:]):
                        if n1 == 36 and n2 == 168:
                            nblocks += 1
                            ids.append(struct.unpack('>i', rawa[o2 + 40:o2 + 44])[0])
                    nt = len(np.asarray(fa.variables['tau0'][:]))
                    res['added'] = dict(nblocks=nblocks, expected=(len(keys) + 1) * nt, newid_blocks=ids.count(newid), nt=nt)
                except lib.HarnessError:
                    raise
                except Exception as e:
                    res['added'] = dict(err='%s %s' % (type(e).__name__, str(e)[:80]))
                # a window of the time blocks (stepped, from the end, reversed)
                sl = case.get('tslice')
                if sl:
                    try:
                        res['sliced'] = view(bpch1(p, noscale=True, timeslice=slice(*sl)), case)
                    except lib.HarnessError:
                        raise
                    except Exception as e:
                        res['sliced'] = dict(err='%s %s' % (type(e).__name__, str(e)[:80]))
            except lib.HarnessError:
                raise
            except Exception as e:
                res['err'] = type(e).__name__
                res['msg'] = str(e)[:120]
            return res
    finally:
        shutil.rmtree(d, True)


def names_of(case):
    """variable keys: resolved through the Lean model (name part) — here only the table logic of the harness"""
    return None


def _s(x):
    return (x.decode() if hasattr(x, 'decode') else str(x)).strip()


def view(f, c):
    out = []
    keys = [k for k in f.variables.keys() if hasattr(f.variables[k], 'tracerid') and not k.startswith('layer')]
    for k in keys:
        v = f.variables[k]
        if not hasattr(v, 'category'):
            continue
        arr = np.asarray(v[:])
        out.append(dict(key=k, shape=list(arr.shape), bits=np.ascontiguousarray(arr.astype('>f4')).view('>u4').ravel().tolist(),
                        units=_s(getattr(v, 'units', None)), tracerid=int(v.tracerid),
                        category=(v.category.decode() if hasattr(v.category, 'decode') else str(v.category)).strip()))
    return dict(vars=out, tau0=[float(x) for x in np.asarray(f.variables['tau0'][:])],
                tau1=[float(x) for x in np.asarray(f.variables['tau1'][:])])


def _tinfo(case):
    ts = []
    for off, rows in B.TRACERS.items():
        for tid, name, scale, unit, carbon in rows:
            b = case['blocks'][0]
            if case.get('drop_line') and off + tid == b['off'] + b['tid']:
                continue
            from fractions import Fraction
            ts.append('%d:%s:%s:%s' % (off + tid, name, lib.show_rat(Fraction('%.3e' % scale)), unit.replace(' ', '~')))
    ds = ['%d:%s' % (off, cat.replace('=', '^')) for cat, off in B.CATS]
    return ts, ds


def to_line(case, res):
    if case.get('midswap') or case.get('groups'):
        return 'c18 dec %s' % B.encode(case).hex()
    return 'c18 dec %s' % res['hex']


def _model_extra(case, res):
    ts, ds = _tinfo(case)
    q = ','.join('%s:%d' % (b['cat'].replace('=', '^'), b['tid']) for b in case['blocks'])
    outs = lib.run_model(['c18 enc ' + lean_file(case), 'c18 res tinfo=%s dinfo=%s q=%s' % (lib.show_list(ts), lib.show_list(ds), q)])
    return outs


def agree(case, out, res):
    if case.get('groups'):
        return None         # the group front end and categories outside the tables: oracle only
    if case.get('midswap'):
        return None         # the grouping of the Lean decoder is that of the memory-mapped reader (repeat_breaks_grouping): oracle only
    enc, reso = _model_extra(case, res)
    if enc != 'ok ' + res['hex']:
        return 'the python reference encoder and the Lean encoder differ'
    if not out.startswith('ok '):
        return 'the Lean decoder rejects the encoded file: ' + out[:40]
    _, kv = lib.parse_kv('x ' + out[3:])
    if int(kv['nsteps']) != case['nt']:
        return 'Lean decoder finds %s steps, encoded %d' % (kv['nsteps'], case['nt'])
    if kv['steps'] != lean_file(case).split('steps=')[1]:
        return 'Lean decoder does not recover the encoded blocks'
    if 'err' in res:
        return 'impl raised %s (%s) on a well-formed file' % (res['err'], res.get('msg'))
    # names / units the library gives vs the Lean table logic
    rs = reso[3:].split(',')
    for b, r, v in zip(case['blocks'], rs, res['scaled']['vars']):
        name, scale, unit = r.split(':')
        want_key = '%s_%s' % (b['cat'], name)
        if v['key'] != want_key:
            return 'variable key %s, model resolves %s' % (v['key'], want_key)
        want_unit = unit.replace('~', ' ') if unit != '_' else (b['unit'] if case['unit_in_file'] else 'unitless')
        if v['units'] != want_unit:
            return 'unit of %s: %s, model resolves %s' % (v['key'], v['units'], want_unit)
    return None


def oracle(case, res):
    if case.get('groups'):
        return _oracle_groups(case, res)
    if case.get('midswap'):
        return _oracle_midswap(case, res)
    if 'err' in res:
        return 'reading a well-formed file raised %s %s' % (res['err'], res.get('msg'))
    if res['rewritten'] != res['hex']:
        a, b = bytes.fromhex(res['hex']), bytes.fromhex(res['rewritten'])
        i = next((k for k, (x, y) in enumerate(zip(a, b)) if x != y), min(len(a), len(b)))
        return 'read without scaling and written back: bytes differ at offset %d (%d vs %d bytes)' % (i, len(a), len(b))
    for bi, b in enumerate(case['blocks']):
        want = [w for t in range(case['nt']) for w in case['data'][t][bi]]
        v = res['raw']['vars'][bi]
        if v['shape'] != [case['nt'], b['nz'], case['ny'], case['nx']]:
            return 'shape of %s %s, written %s' % (v['key'], v['shape'], [case['nt'], b['nz'], case['ny'], case['nx']])
        if v['bits'] != want:
            return 'raw values of %s differ from what was encoded' % v['key']
        if v['tracerid'] != b['tid'] or v['category'] != b['cat']:
            return 'identifiers of %s: %s %s' % (v['key'], v['category'], v['tracerid'])
        scale = 1.0 if (case.get('drop_line') and bi == 0) else b['scale']
        rawf = np.array(want, dtype='>u4').view('>f4')
        with np.errstate(all='ignore'):
            exp = (rawf * np.float32(scale)).astype('>f4').view('>u4').tolist()
        got = res['scaled']['vars'][bi]['bits']
        if got != exp:
            k = next(i for i, (x, y) in enumerate(zip(got, exp)) if x != y)
            return 'scaled value %d of %s is %08x, raw*scale(%g) is %08x' % (k, v['key'], got[k], scale, exp[k])
    rs = res.get('rescaled')
    if rs is not None and not case.get('drop_line'):
        if 'err' in rs:
            return 'the scaled file written into an empty directory and read again raised: ' + rs['err']
        for a, b2 in zip(res['scaled']['vars'], rs['vars']):
            if (a['key'], a['shape'], a['units']) != (b2['key'], b2['shape'], b2['units']):
                return 'scaled file written into an empty directory and read again: %s / %s / %s became %s / %s / %s' % (
                    a['key'], a['shape'], a['units'], b2['key'], b2['shape'], b2['units'])
            x = np.array(a['bits'], dtype='>u4').view('>f4').astype('d')
            y = np.array(b2['bits'], dtype='>u4').view('>f4').astype('d')
            ok = np.isfinite(x) & np.isfinite(y)
            if (np.isfinite(x) != np.isfinite(y)).any() or np.any(np.abs(x[ok] - y[ok]) > 1e-5 * np.maximum(np.abs(x[ok]), 1e-30)):
                return 'scaled file written into an empty directory and read again: values of %s differ' % a['key']
        if len(rs['vars']) != len(res['scaled']['vars']):
            return 'scaled file written into an empty directory and read again: %d tracers, %d before' % (len(rs['vars']), len(res['scaled']['vars']))
    mem = res.get('mem')
    # (a file deeper than the vertical grid it is opened with: the coordinate variables of that grid do not fit it)
    if mem is not None and not case.get('drop_line') and not case.get('deep'):
        if 'err' in mem:
            return 'an in-memory copy of the scaled file could not be written: ' + mem['err']
        if mem['changed']:
            return 'writing an in-memory copy of the scaled file changed its variables'
        if not mem['same']:
            return 'the same in-memory object written twice gives two different files'
    mc = res.get('modec')
    if mc is not None and not case.get('drop_line'):
        if 'err' in mc:
            return "bpch1(path, mode='c') raised " + mc['err']
        if not mc['first_same']:
            return "bpch1(path, mode='c') presents other values than the default read"
        if not mc['second_same']:
            return "bpch1(path, mode='c'): taking the tracers a second time gives other values than the first time"
    ad = res.get('added')
    if ad is not None and not case.get('drop_line'):
        if 'err' in ad:
            return 'a tracer added to the file that was read could not be written: ' + ad['err']
        if ad['nblocks'] != ad['expected'] or ad['newid_blocks'] != ad['nt']:
            return 'a tracer added to the file that was read: the written file has %d blocks (%d with the new tracer number), %d (%d) expected' % (
                ad['nblocks'], ad['newid_blocks'], ad['expected'], ad['nt'])
    # the front end with the block-walking reader named and one option set: unscaled values under the grouped names /
    # scaled values under the short names
    fn = res.get('front_noscale')
    if fn is not None:
        if 'err' in fn:
            if 'err' not in res['bpch2']:
                return "bpch(reader='bpch2', noscale=True) raised: " + fn['err']
        else:
            got = [(v['key'], v['shape'], v['bits']) for v in fn['vars']]
            want = [(v['key'], v['shape'], v['bits']) for v in res['raw']['vars']]
            if got != want:
                return "bpch(reader='bpch2', noscale=True) does not present the unscaled values under the grouped names: %s, expected %s" % (
                    [g[0] for g in got], [w[0] for w in want])
    fg = res.get('front_nogroup')
    short = [v['key'].split('_', 1)[1] for v in res['scaled']['vars']]
    if fg is not None and len(set(short)) == len(short):
        if 'err' in fg:
            if 'err' not in res['bpch2']:
                return "bpch(reader='bpch2', nogroup=True) raised: " + fg['err']
        else:
            got = [(v['key'], v['shape'], v['bits']) for v in fg['vars']]
            want = [(k, v['shape'], v['bits']) for k, v in zip(short, res['scaled']['vars'])]
            if got != want:
                return "bpch(reader='bpch2', nogroup=True) does not present the scaled values under the short names: %s, expected %s" % (
                    [g[0] for g in got], [w[0] for w in want])
    sl = res.get('sliced')
    if sl is not None:
        idx = list(range(case['nt']))[slice(*case['tslice'])]
        if idx:
            if 'err' in sl:
                return 'timeslice=slice%s of %d time blocks raised: %s' % (tuple(case['tslice']), case['nt'], sl['err'])
            if sl['tau0'] != [res['raw']['tau0'][i] for i in idx]:
                return 'timeslice=slice%s of %d time blocks: tau0 %s, the selected blocks have %s' % (
                    tuple(case['tslice']), case['nt'], sl['tau0'], [res['raw']['tau0'][i] for i in idx])
            for a, b2 in zip(res['raw']['vars'], sl['vars']):
                per = len(a['bits']) // case['nt']
                want = [w for i in idx for w in a['bits'][i * per:(i + 1) * per]]
                if b2['key'] != a['key'] or b2['bits'] != want:
                    return 'timeslice=slice%s: values of %s are not those of time blocks %s' % (tuple(case['tslice']), a['key'], idx)
    want0 = [B.taus(case, t)[0] for t in range(case['nt'])]
    if res['raw']['tau0'] != want0 or res['raw']['tau1'] != [B.taus(case, t)[1] for t in range(case['nt'])]:
        return 'tau0/tau1 %s %s, written %s' % (res['raw']['tau0'], res['raw']['tau1'], want0)
    if 'err' in res['bpch2']:
        b0 = case['blocks'][0]
        if case.get('drop_line') and not any(tid == b0['tid'] for tid, *_ in B.TRACERS[0] if b0['off'] != 0):
            return None        # a tracer with no table line at all: bpch2 does not accept the file (bpch1 names it by number)
        return 'the block-walking reader raised: ' + res['bpch2']['err']
    if sorted(res['bpch2']['tau0']) != sorted(res['raw']['tau0']) or sorted(res['bpch2']['tau1']) != sorted(res['raw']['tau1']):
        return 'bpch2 presents tau0 / tau1 %s %s, bpch1 (and the file) %s %s' % (
            res['bpch2']['tau0'], res['bpch2']['tau1'], res['raw']['tau0'], res['raw']['tau1'])
    for a, b2 in zip(res['scaled']['vars'], res['bpch2']['vars']):
        if (a['key'], a['shape'], a['bits'], a['units']) != (b2['key'], b2['shape'], b2['bits'], b2['units']):
            fld = [n for n in ('key', 'shape', 'bits', 'units') if a[n] != b2[n]]
            return 'bpch2 differs from bpch1 for %s in %s' % (a['key'], fld)
    return None


def classify(case, failure, model_out):
    return None


def nontrivial(case, res):
    if case.get('groups'):
        return 'groups' in res
    if case.get('midswap'):
        return 'err' not in res.get('front', {})
    return 'err' not in res and case['nt'] >= 2 and len({b['nz'] for b in case['blocks']}) >= 2


def distribution(recs):
    d = {}
    for r in recs:
        c = r['case']
        for k in ('nt',):
            d['%s=%d' % (k, c[k])] = d.get('%s=%d' % (k, c[k]), 0) + 1
        d['nblocks=%d' % len(c['blocks'])] = d.get('nblocks=%d' % len(c['blocks']), 0) + 1
        if c.get('drop_line'):
            d['unlisted-tracer'] = d.get('unlisted-tracer', 0) + 1
    return d
