"""C20 — ARL packed-bit: pack2d / unpack (noaafiles/_arl.py) against lean/PncModel/Arl.lean"""
from fractions import Fraction

import numpy as np

from .. import lib

ID = 'C20'
LEAN_MODULE = 'PncProofs.C20'
LEAN_FILE = 'PncProofs/C20.lean'
NAMESPACE = 'Props.C20'
LEAN_CONE = ['PncModel.Arl', 'PncProofs.ArlLemmas', 'PncProofs.C20']
LEMMA_FILES = ['PncProofs/ArlLemmas.lean']
REQUIRED_THEOREMS = ['bound_partial', 'unpack_inverts', 'roundtrip_partial', 'first_exact', 'checksum',
                     'counterexample_trunc', 'counterexample_wrap']
RULE = ('dyadic float32 fields (all float32 operations of pack2d/unpack exact), shapes 1..5 x 2..6, '
        'unit 2^j with j in -90..90; classes: random walk, constant, max difference exactly 2^k, just '
        'below 2^k, differences near -128 steps (negative-truncation region), large offsets; '
        'non-trivial = non-constant field; distinct = distinct (shape, values)')
TRUSTED_EXTRA = ['float32 log in pack2d: at exact powers of two the code may choose NEXP one below the '
                 'exact rule; the model accepts both there and takes the recorded NEXP as input',
                 'arithmetic of pack2d/unpack is compared on dyadic inputs where float32 is exact; the '
                 'theorems are over Q']
ASSUMPTIONS = ['numpy float32 arithmetic is exact on the generated dyadic inputs',
               'the file-layout clause of C20 (index record + one record per variable/level) is covered '
               'by the correspondence of the reference encoder only (see DESIGN.md C20)']
KEY_NEG = 'C20/pack2d/negative-truncation'
MIN_NONTRIVIAL = {'quick': 50, 'thorough': 500}


def _field(rng, klass):
    ny = rng.randint(1, 5)
    nx = rng.randint(2, 6)
    j = rng.randint(-90, 90)
    unit = Fraction(2) ** j
    n = ny * nx
    if klass == 'const':
        vals = [rng.randint(-2000, 2000)] * n
    elif klass == 'walk':
        amp = rng.choice([1, 3, 17, 100, 700])
        v = rng.randint(-1000, 1000)
        vals = []
        for _ in range(n):
            v = max(-4000, min(4000, v + rng.randint(-amp, amp)))
            vals.append(v)
    elif klass in ('pow2', 'below'):
        k = rng.randint(0, 10)
        big = 2 ** k if klass == 'pow2' else max(1, 2 ** k - rng.choice([1, 1, 2, 3]))
        vals = [rng.randint(-big // 2, big // 2) for _ in range(n)]
        # place one neighbour pair (same row) with difference exactly `big`
        r = rng.randrange(ny)
        c = rng.randrange(nx - 1)
        base = rng.randint(-500, 500)
        vals = [base + v // 2 for v in vals]
        sgn = rng.choice([1, -1])
        vals[r * nx + c] = base
        vals[r * nx + c + 1] = base + sgn * big
    elif klass == 'negedge':
        # quarter-step resolution around -128 steps: units of 1/4 step with NEXP = 7+2
        vals = []
        v = 0
        for _ in range(n):
            d = rng.choice([2, 1, -2, -509, -510, -511, -508, 3, 0, 510, 511, -507])
            v = max(-8000, min(8000, v + d))
            vals.append(v)
    else:
        raise ValueError(klass)
    rows = [[vals[r * nx + c] * unit for c in range(nx)] for r in range(ny)]
    return rows


CLASSES = ['walk', 'walk', 'const', 'pow2', 'below', 'negedge', 'negedge']


def gen(rng, tier):
    n = 400 if tier == 'quick' else 20000
    out = []
    for i in range(n):
        klass = CLASSES[i % len(CLASSES)]
        rows = _field(rng, klass)
        out.append(dict(klass=klass, rows=[[lib.show_rat(x) for x in r] for r in rows]))
    return out


def search(rng, budget):
    return gen(rng, 'thorough')[:budget]


def _rows(case):
    return [[Fraction(x) for x in r] for r in case['rows']]


def impl(case):
    from PseudoNetCDF.noaafiles._arl import pack2d, unpack
    rows = _rows(case)
    x = np.array([[float(v) for v in r] for r in rows], dtype='f')
    assert all(Fraction(float(x[i, j])) == rows[i][j] for i in range(x.shape[0]) for j in range(x.shape[1]))
    try:
        c, prec, nexp, var1, ksum = pack2d(x)
        b = c.view('uint8')
        u = unpack(c[None], np.array([var1]), np.array([nexp]))[0]
    except Exception as e:
        return dict(err=type(e).__name__)
    return dict(bytes=b.astype(int).tolist(), nexp=int(nexp), var1=lib.show_rat(var1), ksum=int(ksum),
                prec=lib.show_rat(prec), unpack=[[lib.show_rat(v) for v in r] for r in u.tolist()])


def to_line(case, res):
    nexp = res.get('nexp', 0)
    return 'c20 pack %d %s' % (nexp, lib.show_rows(case['rows']))


def agree(case, out, res):
    st, kv = lib.parse_kv(out)
    if 'err' in res:
        return None if st == 'err' else 'impl raised %s, model: %s' % (res['err'], out[:80])
    if st != 'ok':
        return 'model: %s, impl returned' % out
    msgs = []
    if kv['bytes'] != lib.show_rows(res['bytes']):
        msgs.append('bytes model=%s impl=%s' % (kv['bytes'], lib.show_rows(res['bytes'])))
    if kv['var1'] != res['var1']:
        msgs.append('var1 model=%s impl=%s' % (kv['var1'], res['var1']))
    if int(kv['ksum']) != res['ksum']:
        msgs.append('ksum model=%s impl=%s' % (kv['ksum'], res['ksum']))
    mn = int(kv['nexp'])
    if not (res['nexp'] == mn or (kv['pow2'] == '1' and res['nexp'] == mn - 1)):
        msgs.append('nexp model=%d impl=%d' % (mn, res['nexp']))
    if kv['unpack'] != lib.show_rows(res['unpack']):
        msgs.append('unpack model=%s impl=%s' % (kv['unpack'], lib.show_rows(res['unpack'])))
    if Fraction(res['prec']) != lib.frac(np.float32(2.0 ** res['nexp'] / 254.0)):
        msgs.append('prec %s' % res['prec'])
    return '; '.join(msgs) or None


def oracle(case, res):
    """the property itself on the real code's output"""
    if 'err' in res:
        return 'pack2d/unpack raised %s' % res['err']
    rows = _rows(case)
    step = Fraction(2) ** (res['nexp'] - 7)
    u = [[Fraction(v) for v in r] for r in res['unpack']]
    if u[0][0] != rows[0][0]:
        return 'first element not exact: %s vs %s' % (u[0][0], rows[0][0])
    worst = max(abs(a - b) for ra, rb in zip(rows, u) for a, b in zip(ra, rb))
    if worst > step:
        return 'error %.4g quantisation steps (NEXP=%d)' % (float(worst / step), res['nexp'])
    tot = sum(sum(r) for r in res['bytes'])
    if res['ksum'] % 255 != tot % 255:
        return 'checksum %d is not the byte sum %d (mod 255)' % (res['ksum'], tot)
    return None


def classify(case, failure, model_out):
    st, kv = lib.parse_kv(model_out)
    if st == 'ok' and kv.get('negtrunc') == '1' and failure.startswith('error'):
        return KEY_NEG
    return None


def nontrivial(case, res):
    flat = [x for r in case['rows'] for x in r]
    return len(set(flat)) > 1


def witnesses():
    return [(KEY_NEG, dict(klass='witness', rows=[['0', '1/2', '-509/4']])),
            (KEY_NEG, dict(klass='witness-wrap', rows=[['0', '1/2', '-509/4', '-255']]))]


def distribution(recs):
    d = {}
    for r in recs:
        k = r['case']['klass']
        d[k] = d.get(k, 0) + 1
    d['negtrunc_cases'] = sum(1 for r in recs if 'negtrunc=1' in r['model'])
    d['nexp_min'] = min((r['impl'].get('nexp', 0) for r in recs), default=0)
    d['nexp_max'] = max((r['impl'].get('nexp', 0) for r in recs), default=0)
    return d
