"""C20 — ARL packed-bit: pack2d / unpack (noaafiles/_arl.py) against lean/PncModel/Arl.lean"""
from fractions import Fraction

import numpy as np

from .. import lib

ID = 'C20'
LEAN_MODULE = 'PncProofs.C20'
LEAN_FILE = 'PncProofs/C20.lean'
NAMESPACE = 'Props.C20'
LEAN_CONE = ['PncModel.Generated.ArlHeaders', 'PncModel.Arl', 'PncProofs.ArlLemmas', 'PncProofs.C20']
LEMMA_FILES = ['PncProofs/ArlLemmas.lean']
REQUIRED_THEOREMS = ['bound_partial', 'unpack_inverts', 'roundtrip_partial', 'first_exact', 'checksum',
                     'counterexample_trunc', 'counterexample_wrap', 'layout_disjoint', 'layout_size', 'label_matches_source']
RULE = ('(a) dyadic float32 fields (all float32 operations of pack2d/unpack exact), shapes 1..5 x 2..6, '
        'unit 2^j with j in -90..90; classes: random walk, constant, max difference exactly 2^k, just '
        'below 2^k, differences near -128 steps (negative-truncation region), runs of falling steps of exactly one power of two, large offsets; '
        'non-trivial = non-constant field; distinct = distinct (shape, values); (b) packed-bit FILES: 2-3 time periods '
        '(offsets up to 60 h from the first, incl. month/year ends), 2-3 levels, 1-2 surface and 1-2 upper-level variables, '
        'grids 20-24 x 17-19; laid out per the format description by a reference encoder that packs every field with the LEAN '
        'model of pack2d (not the library); read by arlpackedbit: variable list, level list, times, and every field equal to '
        'what the bytes decode to (Lean unpack) and within one quantisation step of the encoded values; file size vs the Lean '
        'layout arithmetic; input handed to pack2d as float32, as float64 that rounds to that float32 field, or as int8/16/32; in half of the file cases another packed file is opened before the first is read; every packed result is held while another field of the same shape is packed; (c) the level / variable table of the index record written by writevardef and read by readvardef (sigma, hPa and height levels up to 99999, 1-5 levels, any variable lists and checksums); files whose levels list the same variables in different orders')
TRUSTED_EXTRA = ['the scaling exponent must equal the exact rule floor(log2 RMAX) + 1 of the model for every input (the repaired '
                 'code takes it from the binary exponent; the former float32 logarithm was wrong at some exact powers of two)',
                 'arithmetic of pack2d/unpack is compared on dyadic inputs where float32 is exact; the '
                 'theorems are over Q']
ASSUMPTIONS = ['numpy float32 arithmetic is exact on the generated dyadic inputs',
               'file layout: the label/index text formats (Fortran I/E edit descriptors) are written by the reference encoder from '
               'the format description and are not modelled in Lean beyond the record arithmetic (layout_disjoint, layout_size)']
KEY_NEG = 'C20/pack2d/negative-truncation'
MIN_NONTRIVIAL = {'quick': 50, 'thorough': 500}


def _field(rng, klass):
    ny = rng.randint(1, 5)
    nx = rng.randint(2, 6)
    j = rng.randint(-90, 90)
    unit = Fraction(2) ** j
    if klass == 'nearconst':
        # a large value with variations of a few float32 spacings (surface pressure in Pa over a calm domain, an epoch-like
        # number): every element within 1e-6 of the first one, none of the variation may be dropped
        base = rng.choice([101325, 5500000, 65536, 300000])
        e = len(bin(base)) - 2 - 24                        # float32 spacing at that magnitude is 2**e
        sp = Fraction(2) ** e
        return [[Fraction(base) + sp * rng.randint(-6, 6) for _ in range(nx)] for _ in range(ny)]
    if klass == 'tall':
        # a tall grid with a steady trend down the first column (a latitude-like field on a fine grid)
        ny, nx = rng.choice([340, 400, 721]), 2
        st = rng.choice([100, 64, 37])
        return [[Fraction(st * r + c * rng.randint(0, 3)) for c in range(nx)] for r in range(ny)]
    n = ny * nx
    if klass == 'const':
        vals = [rng.randint(-2000, 2000)] * n
    elif klass == 'walk':
        amp = rng.choice([1, 3, 17, 100, 700])
        v = rng.randint(-1000, 1000)
        vals = []
        for _ in range(n):
            v = max(-4000, min(4000, v + rng.randint(-amp, amp)))
            vals.append(v)
    elif klass in ('pow2', 'below'):
        k = rng.randint(0, 10)
        big = 2 ** k if klass == 'pow2' else max(1, 2 ** k - rng.choice([1, 1, 2, 3]))
        vals = [rng.randint(-big // 2, big // 2) for _ in range(n)]
        # place one neighbour pair (same row) with difference exactly `big`
        r = rng.randrange(ny)
        c = rng.randrange(nx - 1)
        base = rng.randint(-500, 500)
        vals = [base + v // 2 for v in vals]
        sgn = rng.choice([1, -1])
        vals[r * nx + c] = base
        vals[r * nx + c + 1] = base + sgn * big
    elif klass == 'falls':
        # steps of exactly one power of two, several of them falling in a row (along a row and down the first column):
        # the largest difference is an exact power of two, 2**(k+j) over the whole float32 exponent range of the stream
        k = rng.randint(0, 6)
        big = 2 ** k
        v = rng.randint(-50, 50) * big
        vals = []
        for i in range(n):
            if i % nx == 0 and i:
                v = vals[i - nx] + rng.choice([-big, -big, big, 0])      # first column: from the row above
            elif i:
                v = v + rng.choice([-big, -big, -big, big, 0, big // 2])
            vals.append(v)
    elif klass == 'negedge':
        # quarter-step resolution around -128 steps: units of 1/4 step with NEXP = 7+2
        vals = []
        v = 0
        for _ in range(n):
            d = rng.choice([2, 1, -2, -509, -510, -511, -508, 3, 0, 510, 511, -507])
            v = max(-8000, min(8000, v + d))
            vals.append(v)
    else:
        raise ValueError(klass)
    rows = [[vals[r * nx + c] * unit for c in range(nx)] for r in range(ny)]
    return rows


CLASSES = ['walk', 'walk', 'const', 'pow2', 'below', 'negedge', 'negedge', 'falls']


def gen(rng, tier):
    n = 400 if tier == 'quick' else 20000
    out = []
    for i in range(n):
        klass = CLASSES[i % len(CLASSES)]
        if i % 40 == 17:
            klass = 'nearconst'
        if i % 200 == 33:
            klass = 'tall'
        rows = _field(rng, klass)
        case = dict(klass=klass, rows=[[lib.show_rat(x) for x in r] for r in rows])
        # what the caller hands to pack2d: float32 (as read from a file), float64 values that round to those float32
        # values (each moved by a quarter of a float32 spacing), or - for whole numbers that fit - an integer array
        flat = [x for r in rows for x in r]
        k = rng.random()
        if k < 0.2:
            case['indtype'] = 'd'
            case['nudge'] = [rng.choice([-1, 0, 1]) for _ in flat]
        elif k < 0.35 and all(x.denominator == 1 for x in flat):
            m = max(abs(x) for x in flat)
            case['indtype'] = 'b' if m <= 127 else ('h' if m <= 32767 else ('i' if m < 2 ** 31 else None))
            if case['indtype'] is None:
                del case['indtype']
        out.append(case)
    # on every run: nearly constant fields of magnitude 1e-30 (the low end of the stated range): neighbour differences of one
    # or two float32 spacings, 2**-123 .. 2**-122 - the scale 2**(7 - NEXP) has to remain a finite float32
    for _ in range(3 if tier == 'quick' else 60):
        ny, nx = rng.randint(1, 4), rng.randint(2, 5)
        base, sp = Fraction(2) ** -100, Fraction(2) ** -123
        rows = [[base + sp * rng.choice([0, 1, 2]) for _ in range(nx)] for _ in range(ny)]
        rows[0][1] = rows[0][0] + sp * rng.choice([1, 2])
        out.append(dict(klass='tinyconst', rows=[[lib.show_rat(x) for x in r] for r in rows]))
    out += _file_cases(rng, 6 if tier == 'quick' else 100)
    out += _vardef_cases(rng, 40 if tier == 'quick' else 1500)
    return out


def _file_cases(rng, n):
    from .. import arlfmt
    out = []
    for _ in range(n):
        c = arlfmt.gen(rng)
        # half of the time another packed file (its own levels and variables) is opened before the first one is read
        out.append(dict(kind='file', spec=c, rows=[[0, 1]], other=arlfmt.gen(rng) if rng.random() < 0.5 else None))
    # on every run: a lat/lon grid of two columns (or two rows), the smallest the property quantifies over
    out.append(dict(kind='file', spec=arlfmt.gen(rng, small=2), rows=[[0, 1]], other=None))
    # on every run: time stamps written with blanks in front of one-digit numbers (Fortran I2 fields)
    cb = arlfmt.gen(rng)
    cb['blankstamp'] = True
    cb['t0'] = [2005, 1, 9, 0]
    out.append(dict(kind='file', spec=cb, rows=[[0, 1]], other=None))
    # on every run: a variable that only the lower levels carry
    out.append(dict(kind='file', spec=arlfmt.gen(rng, partial=True), rows=[[0, 1]], other=None))
    return out


VKEYS = ['PRSS', 'T02M', 'U10M', 'V10M', 'TEMP', 'UWND', 'VWND', 'SPHU', 'HGTS', 'WWND']


def _vardef_cases(rng, n):
    """the level / variable table of the index record: writevardef then readvardef.  Levels are numbers the six-character
    field holds exactly: sigma (multiples of 1/32), pressures (whole or half hPa), heights up to 99999 m"""
    out = []
    for _ in range(n):
        style = rng.choice(['sigma', 'hpa', 'm', 'm_high'])
        nl = rng.randint(1, 5)
        if style == 'sigma':
            lv = sorted(rng.sample([Fraction(k, 32) for k in range(1, 32)], nl), reverse=True)
        elif style == 'hpa':
            lv = sorted(rng.sample([Fraction(k, 2) for k in range(20, 2001)], nl), reverse=True)
        elif style == 'm':
            lv = sorted(rng.sample(range(10, 10000), nl))
        else:
            lv = sorted(rng.sample(range(9000, 100000), nl))
        sfc = rng.choice([Fraction(0), Fraction(1), Fraction(1013), Fraction(2), Fraction(1000), Fraction(10)]) if rng.random() < 0.8 else Fraction(0)
        if style in ('hpa', 'm', 'm_high') and rng.random() < 0.5:
            # exact powers of ten (1000 hPa, 100 m, 10000 m): the number of digits is a logarithm
            p10 = [x for x in (10, 100, 1000, 10000) if (style == 'm_high') == (x >= 9000)]
            if p10:
                lv = sorted(set(lv[1:]) | {rng.choice(p10)}, reverse=(style == 'hpa'))
        if rng.random() < 0.1:
            # a level whose six-character text rounds up into a new leading digit (0.999996 -> 1.0000, 999.996 -> 1000.0)
            x_ = rng.choice([Fraction(999996, 10 ** 6), Fraction(999996, 10 ** 5), Fraction(999996, 10 ** 4), Fraction(999996, 10 ** 3)])
            if not any(abs(Fraction(y) - x_) < Fraction(1, 10) for y in list(lv) + [sfc]):     # two levels never share a text
                lv = list(lv) + [x_]
        levels = [sfc] + [Fraction(x) for x in lv if Fraction(x) != sfc]
        keys = [rng.sample(VKEYS[:4], rng.randint(1, 3))] + [rng.sample(VKEYS[4:], rng.randint(1, 4)) for _ in levels[1:]]
        sums = [[rng.randint(0, 254) for _ in k] for k in keys]
        out.append(dict(kind='vardef', rows=[[0, 1]], levels=[lib.show_rat(x) for x in levels], keys=keys, sums=sums))
        if len(levels) >= 2 and len(out) % 3 == 0:
            out[-1]['keyorder'] = list(range(1, len(levels))) + [0] if len(out) % 2 else list(range(len(levels)))[::-1]
    return out


def _impl_vardef(case):
    from PseudoNetCDF.noaafiles._arl import writevardef, readvardef
    lv = [float(Fraction(x)) for x in case['levels']]
    pairs = list(zip(lv, case['keys']))
    # the dictionary of keys by level in an insertion order of its own (the surface entry last, reversed, by level value ...):
    # a dictionary is looked up by level, its order says nothing
    order = case.get('keyorder')
    if order:
        pairs = [pairs[i] for i in order]
    keys = {l: [k.encode() for k in ks] for l, ks in pairs}
    sums = {(l, k.encode()): c for l, ks, cs in zip(lv, case['keys'], case['sums']) for k, c in zip(ks, cs)}
    try:
        txt = writevardef(lv, keys, sums)
        out = readvardef(np.bytes_(txt.encode()), {})
    except Exception as e:
        return dict(err=type(e).__name__, msg=str(e)[:100])
    return dict(text=txt.rstrip(), levels=[lib.show_rat(Fraction(float(x))) for x in out['vglvls']],
                keys=[[k.decode().strip() for k in out['keys'][l]] for l in out['vglvls']],
                sums=[[int(out['checksums'][l, k]) for k in out['keys'][l]] for l in out['vglvls']])


def _oracle_vardef(case, res):
    if 'err' in res:
        return 'writevardef / readvardef raised %s %s' % (res['err'], res.get('msg'))
    want = 8 * len(case['levels']) + 8 * sum(len(k) for k in case['keys'])
    if len(res['text']) > want or len(res['text']) < want - 1:
        return 'the level table has %d characters, 8 per level and 8 per variable make %d' % (len(res['text']), want)
    if res['levels'] != case['levels']:
        # a level that the six-character field cannot hold exactly comes back as the nearest number the field can hold
        def near(a, b):
            a, b = Fraction(a), Fraction(b)
            return a == b or (abs(a - b) <= abs(a) * Fraction(1, 10 ** 5) and abs(a - b) < Fraction(1, 100))
        if len(res['levels']) != len(case['levels']) or not all(near(a, b) for a, b in zip(case['levels'], res['levels'])):
            return 'level list %s written and read back as %s' % (case['levels'], res['levels'])
    if res['keys'] != case['keys'] or res['sums'] != case['sums']:
        return 'variable lists / checksums %s %s read back as %s %s' % (case['keys'], case['sums'], res['keys'], res['sums'])
    return None


def search(rng, budget):
    return gen(rng, 'thorough')[:budget]


def _rows(case):
    return [[Fraction(x) for x in r] for r in case['rows']]


def _impl_file(case):
    import os
    from .. import arlfmt, camx
    from PseudoNetCDF.noaafiles._arl import arlpackedbit
    c = case['spec']
    b, meta = arlfmt.build(c)
    p = os.path.join(camx.tmpdir(), 'c20_%d_%d.arl' % (os.getpid(), np.random.randint(1 << 30)))
    open(p, 'wb').write(b)
    p2 = None
    if case.get('other'):
        p2 = p + '.other'
        open(p2, 'wb').write(arlfmt.build(case['other'])[0])
    try:
        with lib.pnc_warnings():
            try:
                fa = arlpackedbit(p)
                if p2:
                    fb = arlpackedbit(p2)
                    fb.variables[(case['other']['lay'] or case['other']['sfc'])[0]][...]
                v = arlfmt.view(fa, c)
            except lib.HarnessError:
                raise
            except Exception as e:
                return dict(err=type(e).__name__, msg=str(e)[:100], meta=meta)
            try:
                # the functional front end without a format: the same reader
                import PseudoNetCDF as pnc
                v['auto'] = type(pnc.pncopen(p)).__name__
            except Exception as e:
                v['auto'] = 'raised %s' % type(e).__name__
        v['meta'] = meta
        v['size'] = len(b)
        return v
    finally:
        os.remove(p)
        if p2 and os.path.exists(p2):
            os.remove(p2)


def arlfmt_laykeys(c, li):
    from .. import arlfmt
    return arlfmt._laykeys(c, li)


def _oracle_file(case, res):
    from datetime import datetime, timedelta
    c = case['spec']
    if 'err' in res:
        return 'reading a file laid out per the format raised %s %s' % (res['err'], res.get('msg'))
    if res['keys'] != c['sfc'] + c['lay']:
        return 'variable list %s, encoded %s' % (res['keys'], c['sfc'] + c['lay'])
    if res['z'] != c['levels'][1:] or res['sfclvl'] != c['levels'][0]:
        return 'level list %s (surface %s), encoded %s' % (res['z'], res['sfclvl'], c['levels'])
    t0 = datetime(*c['t0'])
    want = [(t0 + timedelta(hours=o)).strftime('%Y%m%d%H') for o in c['offs']]
    if res['times'] != want:
        return 'times %s, encoded %s' % (res['times'], want)
    if res.get('illformed'):
        return 'the file as read is not well formed: %s' % res['illformed']
    if res.get('auto', 'arlpackedbit') != 'arlpackedbit':
        return 'opening the file without naming a format: %s' % res['auto']
    for key, ab in res.get('absent', {}).items():
        if isinstance(ab, str):
            return 'variable %s: %s' % (key, ab)
        for ti, row in enumerate(ab):
            for li, gone in enumerate(row):
                if gone != (key not in arlfmt_laykeys(c, li + 1)):
                    return 'variable %s at time %d, level %d: %s, the level %s the variable' % (
                        key, ti, li + 1, 'missing' if gone else 'present', 'lists' if gone else 'does not list')
    for k, m in res['meta'].items():
        ti, li, key = k.split('|')
        ti, li = int(ti), int(li)
        arr = np.array(res['fields'][key])
        dec = arr[ti] if li == 0 else arr[ti, li - 1]
        orig = np.array([[float(Fraction(x)) for x in row] for row in c['fields'][k]])
        if dec.shape != orig.shape:
            return 'field %s has shape %s, encoded %s' % (k, dec.shape, orig.shape)
        if dec[0, 0] != orig[0, 0]:
            return 'field %s: first element %r, encoded %r' % (k, dec[0, 0], orig[0, 0])
        err = np.abs(dec - orig).max()
        if err > 2.0 ** (m['nexp'] - 7):
            return 'field %s: error %g exceeds one quantisation step 2**(%d-7)' % (k, err, m['nexp'])
        wantd = np.array([[float(Fraction(x)) for x in row] for row in m['decoded']])
        if not np.array_equal(dec, wantd.astype('f').astype('d')):
            return 'field %s: values differ from what the bytes decode to (Lean unpack)' % k
    return None


def impl(case):
    if case.get('kind') == 'file':
        return _impl_file(case)
    if case.get('kind') == 'vardef':
        return _impl_vardef(case)
    from PseudoNetCDF.noaafiles._arl import pack2d, unpack
    rows = _rows(case)
    x = np.array([[float(v) for v in r] for r in rows], dtype='f')
    assert all(Fraction(float(x[i, j])) == rows[i][j] for i in range(x.shape[0]) for j in range(x.shape[1]))
    if case.get('indtype') == 'd':
        xin = x.astype('d') + np.array(case['nudge'], dtype='d').reshape(x.shape) * np.spacing(np.abs(x)).astype('d') / 4
        if not np.array_equal(xin.astype('f'), x):
            xin = x.astype('d')
    elif case.get('indtype'):
        xin = x.astype(case['indtype'])
    else:
        xin = x
    try:
        c, prec, nexp, var1, ksum = pack2d(xin)
        # the result is held while another field of the same shape is packed (all levels of a variable packed into a list)
        held = pack2d(np.ascontiguousarray(xin[::-1, ::-1]) if case.get('klass') != 'constant' else xin + xin.dtype.type(1))
        b = c.view('uint8')
        u = unpack(c[None], np.array([var1]), np.array([nexp]))[0]
    except Exception as e:
        return dict(err=type(e).__name__)
    if not np.isfinite(u).all():
        # a decoded field that is not finite is an observation (finite fields go in), not a reason to stop the run
        return dict(err='unpack returned non-finite values (%d of %d cells)' % (int((~np.isfinite(u)).sum()), u.size))
    return dict(bytes=b.astype(int).tolist(), nexp=int(nexp), var1=lib.show_rat(var1), ksum=int(ksum),
                prec=lib.show_rat(prec), unpack=[[lib.show_rat(v) for v in r] for r in u.tolist()])


def to_line(case, res):
    if case.get('kind') == 'vardef':
        return 'c20 layout 1 1 1'
    if case.get('kind') == 'file':
        c = case['spec']
        nrec = sum(len(arlfmt_laykeys(c, li)) for li in range(len(c['levels'])))
        return 'c20 layout %d %d %d' % (c['nx'] * c['ny'], len(c['offs']), nrec)
    nexp = res.get('nexp', 0)
    return 'c20 pack %d %s' % (nexp, lib.show_rows(case['rows']))


def agree(case, out, res):
    if case.get('kind') == 'vardef':
        return None         # text formats of the index record are outside the Lean model (see ASSUMPTIONS): oracle only
    if case.get('kind') == 'file':
        if 'err' in res:
            return None
        return None if out == 'ok %d' % res['size'] else 'file has %d bytes, the layout model says %s' % (res['size'], out)
    st, kv = lib.parse_kv(out)
    if 'err' in res:
        return None if st == 'err' else 'impl raised %s, model: %s' % (res['err'], out[:80])
    if st != 'ok':
        return 'model: %s, impl returned' % out
    msgs = []
    if kv['bytes'] != lib.show_rows(res['bytes']):
        msgs.append('bytes model=%s impl=%s' % (kv['bytes'], lib.show_rows(res['bytes'])))
    if kv['var1'] != res['var1']:
        msgs.append('var1 model=%s impl=%s' % (kv['var1'], res['var1']))
    if int(kv['ksum']) != res['ksum']:
        msgs.append('ksum model=%s impl=%s' % (kv['ksum'], res['ksum']))
    mn = int(kv['nexp'])
    if res['nexp'] != mn:
        msgs.append('nexp model=%d impl=%d' % (mn, res['nexp']))
    if kv['unpack'] != lib.show_rows(res['unpack']):
        msgs.append('unpack model=%s impl=%s' % (kv['unpack'], lib.show_rows(res['unpack'])))
    if Fraction(res['prec']) != lib.frac(np.float32(2.0 ** res['nexp'] / 254.0)):
        msgs.append('prec %s' % res['prec'])
    return '; '.join(msgs) or None


def oracle(case, res):
    """the property itself on the real code's output"""
    if case.get('kind') == 'file':
        return _oracle_file(case, res)
    if case.get('kind') == 'vardef':
        return _oracle_vardef(case, res)
    if 'err' in res:
        return 'pack2d/unpack raised %s' % res['err']
    rows = _rows(case)
    step = Fraction(2) ** (res['nexp'] - 7)
    u = [[Fraction(v) for v in r] for r in res['unpack']]
    if u[0][0] != rows[0][0]:
        return 'first element not exact: %s vs %s' % (u[0][0], rows[0][0])
    worst = max(abs(a - b) for ra, rb in zip(rows, u) for a, b in zip(ra, rb))
    if worst > step:
        return 'error %.4g quantisation steps (NEXP=%d)' % (float(worst / step), res['nexp'])
    tot = sum(sum(r) for r in res['bytes'])
    if res['ksum'] % 255 != tot % 255:
        return 'checksum %d is not the byte sum %d (mod 255)' % (res['ksum'], tot)
    return None


def classify(case, failure, model_out):
    if case.get('kind') in ('file', 'vardef'):
        return None
    st, kv = lib.parse_kv(model_out)
    # the recorded finding is the truncation of a negative code under the EXACT exponent rule; a wrong exponent is another defect
    if st == 'ok' and kv.get('negtrunc') == '1' and kv.get('given') == kv.get('nexp') and failure.startswith('error'):
        return KEY_NEG
    return None


def classify_full(case, failure, model_out, res, diff):
    # the listed finding is mirrored by the model: it is that finding only while the implementation's bytes, exponent and
    # decoded values are still exactly the model's
    if diff:
        return None
    return classify(case, failure, model_out)


def nontrivial(case, res):
    if case.get('kind') == 'vardef':
        return 'err' not in res and len(case['levels']) >= 3
    if case.get('kind') == 'file':
        return 'err' not in res and len(case['spec']['offs']) >= 2
    flat = [x for r in case['rows'] for x in r]
    return len(set(flat)) > 1


def witnesses():
    return [(KEY_NEG, dict(klass='witness', rows=[['0', '1/2', '-509/4']])),
            (KEY_NEG, dict(klass='witness-wrap', rows=[['0', '1/2', '-509/4', '-255']]))]


def distribution(recs):
    d = {}
    for r in recs:
        k = r['case'].get('klass', r['case'].get('kind', 'file'))
        d[k] = d.get(k, 0) + 1
    d['negtrunc_cases'] = sum(1 for r in recs if 'negtrunc=1' in r['model'])
    d['nexp_min'] = min((r['impl'].get('nexp', 0) for r in recs), default=0)
    d['nexp_max'] = max((r['impl'].get('nexp', 0) for r in recs), default=0)
    return d
