"""C12 — time decoding (getTimes, coordutil.gettimes, updatetflag, add_time_variable, date2num/time2idx)
against lean/PncModel/TimeDec.lean + Cal.lean"""
import datetime as dt
import re
from fractions import Fraction

import numpy as np

from .. import lib

ID = 'C12'
LEAN_MODULE = 'PncProofs.C12'
LEAN_FILE = 'PncProofs/C12.lean'
NAMESPACE = 'Props.C12'
LEAN_CONE = ['PncModel.Cal', 'PncModel.TimeDec', 'PncProofs.CalLemmas', 'PncProofs.C12']
LEMMA_FILES = ['PncProofs/CalLemmas.lean']
REQUIRED_THEOREMS = ['tstep_decode', 'tstep_neg', 'tstep_floor_counterexample', 'dby_is_sum_of_year_lengths', 'tflag_decodes_true_instant', 'flags_roundtrip',
                     'synth_decodes_to_attr_times', 'attr_times_arith', 'atv_decodes_to_flags',
                     'cf_standard_inverse', 'atv_tstep_ok', 'atv_tstep_counterexample',
                     'yearlike_drops_time_of_day']
RULE = ('[tau: GEOS-Chem tau0 / tau1 hours since 1985 incl. fractional hours through getTimes, coordutil.gettimes and gettimebnds; getTimes(datetype=datetime64) against getTimes(); irregular axes whose first step equals the mean step] kinds: tflag (TFLAG variable, valid flags from start+i*step incl. day/year/leap roll-overs, -635 dates, '
        'bounds with/without TSTEP attr), attrs (SDATE/STIME/TSTEP only), synth (ioapi updatetflag), cf ("unit '
        'since ref" with 20 reference spellings incl. time zones and rejected ones, units days/hours/minutes/'
        'seconds/weeks, calendars standard/gregorian/proleptic_gregorian/noleap/365_day/all_leap/366_day, '
        'offsets up to centuries, bounds none/approx/time_bounds), atv (add_time_variable, also called a second time on the same object after the step or the later flags changed, with and without '
        'TFLAG, TSTEP up to 7 digits); CF time variables stored as float64, float32 (large values) and integers; 365/366-day calendars on whole days since 1 January across 29 February; reference years 1900-2100; non-trivial = at least two instants and a '
        'non-midnight or non-Jan-1 component somewhere; distinct = distinct case payload; time_bounds variables with gaps between the cells; updatetflag(overwrite=True) with and without startdate / tstep on files that already carry time flags')
ASSUMPTIONS = ['python datetime arithmetic and strptime are trusted (the model works on integer seconds)',
               'timedelta(days=float) rounds to the microsecond: exact values are whole seconds, float error < 1e-8 s',
               'CF values are integers or eighths so that every float operation in the standard path is exact',
               'cftime is used by the oracle for calendar arithmetic only (reference strings are parsed independently)']
MIN_NONTRIVIAL = {'quick': 60, 'thorough': 600}
KEY_YL = 'C12/getTimes/365-366-day-calendar-path'
KEY_ATV = 'C12/add_time_variable/tstep-7-digits'

EPOCH = dt.datetime(1, 1, 1, tzinfo=dt.timezone.utc)


def _inst(d):
    """exact seconds since 0001-01-01T00:00 UTC of a (naive = UTC) datetime"""
    if d.tzinfo is None:
        d = d.replace(tzinfo=dt.timezone.utc)
    td = d - EPOCH
    return Fraction(td.days * 86400 + td.seconds) + Fraction(td.microseconds, 1000000)


def _start(rng):
    y = rng.choice([1900, 1970, 1999, 2000, 2019, 2020, 2024, 2099, 2100, rng.randint(1900, 2100)])
    leap = (y % 4 == 0 and (y % 100 != 0 or y % 400 == 0))
    ylen = 366 if leap else 365
    j = rng.choice([1, 59, 60, 61, ylen - 1, ylen, rng.randint(1, ylen)])
    h = rng.choice([0, 22, 23, rng.randint(0, 23)])
    m = rng.choice([0, 0, 30, 59])
    s = rng.choice([0, 0, 0, 59, 7])
    return y * 1000 + j, h * 10000 + m * 100 + s


def _tstep(rng):
    return rng.choice([10000, 10000, 30000, 240000, 3000, 100, 1, 13015, 250000, 1000000, 7440000, 0])


def _tsecs(T):
    """seconds of an IOAPI HHMMSS step; the sign of a negative step (a file that runs backward) belongs to the whole"""
    a = abs(T)
    return (-1 if T < 0 else 1) * (a // 10000 * 3600 + a % 10000 // 100 * 60 + a % 100)


def _flags(rng, n, backward=False):
    sd, st = _start(rng)
    T = _tstep(rng)
    if backward:
        T = rng.choice([-10000, -13000, -3000, -13015, -240000, -100])
    secs = _tsecs(T)
    t0 = dt.datetime(sd // 1000, 1, 1) + dt.timedelta(days=sd % 1000 - 1, hours=st // 10000,
                                                      minutes=st % 10000 // 100, seconds=st % 100)
    fl = []
    for i in range(n):
        t = t0 + dt.timedelta(seconds=secs * i)
        fl.append([int(t.strftime('%Y%j')), int(t.strftime('%H%M%S'))])
    return sd, st, T, fl


REFS = ['{Y}-{m:02d}-{d:02d}', '{Y}-{m}-{d}', '{Y}-{m:02d}-{d:02d} {H:02d}', '{Y}-{m:02d}-{d:02d} {H:02d}:{M:02d}',
        '{Y}-{m:02d}-{d:02d} {H:02d}:{M:02d}:{S:02d}', '{Y}-{m:02d}-{d:02d} {H:02d}:{M:02d}:{S:02d} UTC',
        '{Y}-{m:02d}-{d:02d} {H:02d}:{M:02d} UTC', '{Y}-{m:02d}-{d:02d} {H:02d} UTC',
        '{Y}-{m:02d}-{d:02d} {H:02d}:{M:02d}:{S:02d}Z', '{Y}-{m:02d}-{d:02d} {H:02d}:{M:02d}Z',
        '{Y}-{m:02d}-{d:02d} {H:02d}Z', '{Y}-{m:02d}-{d:02d} {H:02d}:{M:02d}:{S:02d}+0000',
        '{Y}-{m:02d}-{d:02d} {H:02d}:{M:02d}:{S:02d}-0500', '{Y}-{m:02d}-{d:02d} {H:02d}:{M:02d}:{S:02d}+05:30',
        '{Y}-{m:02d}-{d:02d} +0000', '{Y}-{m:02d}-{d:02d} {H}:{M}:{S}',
        # zones west of Greenwich that are no whole hours (Newfoundland, the Marquesas) and half an hour west
        '{Y}-{m:02d}-{d:02d} {H:02d}:{M:02d}:{S:02d}-0330', '{Y}-{m:02d}-{d:02d} {H:02d}:{M:02d}:{S:02d}-09:30',
        '{Y}-{m:02d}-{d:02d} {H:02d}:{M:02d}:{S:02d}-0030',
        # spellings the library rejects (decoding must then raise, never return something else)
        '{Y}-{m:02d}-{d:02d}T{H:02d}:{M:02d}:{S:02d}', '{Y}-{m:02d}-{d:02d} {H:02d}:{M:02d}:{S:02d}.5',
        '{Y}-{m:02d}-{d:02d} {H:02d}:{M:02d}:{S:02d} +0000', '{Y}-{m:02d}-{d:02d} UTC']

REF_RE = re.compile(r'^(\d+)-(\d+)-(\d+)(?:[ T](\d+)(?::(\d+)(?::(\d+)(\.\d+)?)?)?)?\s*(UTC|Z|[+-]\d\d:?\d\d)?$')


def parse_ref_independent(s):
    """(y,m,d,sod,utcoff_seconds, fraction) by an independent regular expression"""
    mo = REF_RE.match(s)
    if not mo:
        return None
    y, m, d, H, M, S, frac, tz = mo.groups()
    sod = int(H or 0) * 3600 + int(M or 0) * 60 + int(S or 0)
    off = 0
    if tz and tz not in ('UTC', 'Z'):
        sign = -1 if tz[0] == '-' else 1
        digits = tz[1:].replace(':', '')
        off = sign * (int(digits[:2]) * 3600 + int(digits[2:]) * 60)
    return int(y), int(m), int(d), sod, off, Fraction(frac) if frac else Fraction(0)


def _cf_case(rng):
    Y = rng.choice([1900, 1970, 1985, 2000, 2001, 2020, 2100, rng.randint(1900, 2100)])
    m = rng.choice([1, 1, 1, 2, 3, 12, rng.randint(1, 12)])
    d = rng.choice([1, 1, 1, 28, rng.randint(1, 28)])
    H, M, S = rng.choice([(0, 0, 0), (0, 0, 0), (6, 30, 15), (23, 59, 59), (12, 0, 0)])
    ref = rng.choice(REFS).format(Y=Y, m=m, d=d, H=H, M=M, S=S)
    cal = rng.choice(['standard', 'gregorian', 'proleptic_gregorian', 'standard', 'noleap', '365_day', 'all_leap',
                      '366_day', None])
    unit = rng.choice(['days', 'hours', 'minutes', 'seconds', 'days', 'hours'])
    if cal in (None, 'standard', 'gregorian', 'proleptic_gregorian') and rng.random() < 0.05:
        unit = 'weeks'
    n = rng.randint(1, 5)
    per_day = {'days': 1, 'hours': 24, 'minutes': 1440, 'seconds': 86400, 'weeks': Fraction(1, 7)}[unit]
    span = rng.choice([3, 400, 36525, 73000])
    start = Fraction(rng.randint(0, span)) * per_day
    if unit == 'weeks':
        start = Fraction(rng.randint(0, span // 7))
    step = rng.choice([1, 1, 2, 24, Fraction(1, 2), Fraction(3, 8), 365])
    vals = [start + step * i for i in range(n)]
    if n >= 4 and rng.random() < 0.15:
        # an irregular axis whose FIRST step equals (last - first) / (n - 1): a regular series with displaced records inside
        inner = sorted(rng.sample(range(1, 4 * (n - 2) + 1), n - 3))
        offs = [0, 4] + [4 + x for x in inner] + [4 * (n - 1)]
        if len(set(offs)) == n and offs != [4 * i for i in range(n)]:
            vals = [start + step * Fraction(o, 4) for o in offs]
    # 'tbgap': a time_bounds variable whose cells are not contiguous (daytime-only windows, stacked episodes)
    bnd = rng.choice(['none', 'none', 'approx', 'tb', 'tbgap']) if n >= 2 else 'none'
    tdt = 'd'
    if rng.random() < 0.25:
        # the time variable stored as float32 or as an integer type: the stored value (exactly) is what must be decoded
        tdt = rng.choice(['f', 'f', 'i'])
        if tdt == 'f':
            if rng.random() < 0.5 and unit in ('hours', 'days'):
                base = Fraction(rng.choice([1000001, 876543, 400001]))
                vals = [base + step * i for i in range(n)]
            vals = [Fraction(float(np.float32(float(v)))) for v in vals]
        else:
            vals = [Fraction(int(v)) for v in vals]
        if len(set(vals)) != len(vals):
            tdt, vals = 'd', [start + step * i for i in range(n)]
    if rng.random() < 0.12:
        # 365/366-day calendars on the inputs the library decodes: whole days since 1 January 00:00, spans that
        # cross a real 29 February (date2num / time2idx must invert getTimes there too)
        cal = rng.choice(['noleap', 'noleap', '365_day', 'all_leap', '366_day'])
        unit, tdt = 'days', 'd'
        ref = '{Y}-01-01 00:00:00'.format(Y=rng.choice([2000, 2000, 1999, 2019, 1970]))
        start = Fraction(rng.choice([0, 30, 58, 59, 60, 364, 365, 366, 425, 800]))
        step = rng.choice([1, 1, 30, 365, 7])
        vals = [start + step * i for i in range(n)]
        bnd = 'none' if rng.random() < 0.8 else bnd
    if tdt == 'f' and bnd == 'approx' and len(vals) >= 2:
        # approximated bounds of a float32 time variable are computed in float32: only generated where the half-step edges
        # are float32 numbers themselves (otherwise the approximation is off by the float32 spacing, by construction)
        dtm = (vals[-1] - vals[0]) / (len(vals) - 1)
        edges = [v - dtm / 2 for v in vals] + [vals[-1] + dtm / 2]
        if any(Fraction(float(np.float32(float(e)))) != e for e in edges):
            bnd = 'none'
    return dict(kind='cf', unit=unit, cal=cal, ref=ref, vals=[lib.show_rat(v) for v in vals], bnd=bnd, tdt=tdt)


def _irregular_cases(rng):
    """irregular axes whose first step equals (last - first) / (n - 1), on every run"""
    out = []
    for offs, unit in (([0, 6, 7, 18], 'hours'), ([0, 3, 4, 5, 12], 'hours'), ([0, 24, 30, 36, 96], 'hours'), ([0, 2, 3, 6], 'days')):
        start = rng.randint(0, 400)
        out.append(dict(kind='cf', unit=unit, cal=rng.choice(['standard', None, 'gregorian']), ref='2001-02-03 00:00:00',
                        vals=[lib.show_rat(Fraction(start + o)) for o in offs], bnd='none', tdt='d'))
    return out


def gen(rng, tier):
    n = 500 if tier == 'quick' else 20000
    out = []
    for i in range(n):
        r = i % 10
        if r < 2:
            nt = rng.randint(1, 5)
            sd, st, T, fl = _flags(rng, nt, backward=rng.random() < 0.15)     # backward: a file that runs backward in time
            if rng.random() < 0.1:
                fl[rng.randrange(nt)][0] = -635
            out.append(dict(kind='tflag', flags=fl, bounds=rng.random() < 0.4,
                            tstep=(T if rng.random() < 0.6 else None)))
            if nt >= 3 and rng.random() < 0.4 and -635 not in [d for d, t in fl]:
                # the interior flags are corrected in place (same object, same shape, same end records) and the times
                # asked for again: the second answer is that of the file as it is then
                out[-1]['edit'] = [[j, [fl[j][0] + (1 if fl[j][0] % 1000 < 300 else -1), (fl[j][1] + 3000) % 230000 // 100 * 100]]
                                   for j in range(1, nt - 1) if rng.random() < 0.7] or [[1, [fl[1][0], (fl[1][1] + 3000) % 230000 // 100 * 100]]]
        elif r < 3:
            sd, st, T, fl = _flags(rng, 1, backward=rng.random() < 0.15)
            if rng.random() < 0.1:
                sd = rng.choice([0, -1, 2019366, 2020366, 20190011])
            if rng.random() < 0.05:
                st = rng.choice([240000, 236000, 1000000])
            out.append(dict(kind='attrs', sdate=sd, stime=st, tstep=T, n=rng.randint(1, 6), bounds=rng.random() < 0.3))
        elif r < 4:
            sd, st, T, fl = _flags(rng, 1)
            # pre: the file already carries time flags (from another start and step) when the new ones are requested
            out.append(dict(kind='synth', sdate=sd, stime=st, tstep=T, n=rng.randint(1, 6),
                            pre=rng.choice([None, None, 'attrs', 'args'])))
        elif r < 8:
            out.append(_cf_case(rng))
        elif r == 8 and i % 20 == 8:
            # GEOS-Chem time stamps: tau0 / tau1 in hours since 1985-01-01 00:00 UTC, also with fractional hours (20- and
            # 30-minute series, hourly records on the half hour); judged by the oracle (plain datetime arithmetic)
            n = rng.randint(1, 5)
            step = rng.choice([Fraction(1), Fraction(24), Fraction(1, 2), Fraction(1, 4), Fraction(3, 2), Fraction(744)])
            start = Fraction(rng.choice([0, 140256, 157800, 306816])) + rng.choice([0, 0, Fraction(1, 2), Fraction(1, 4)])
            out.append(dict(kind='tau', tau0=[lib.show_rat(start + step * k) for k in range(n)],
                            tau1=[lib.show_rat(start + step * (k + 1)) for k in range(n)], bounds=rng.random() < 0.5))
        else:
            nt = rng.randint(1, 5)
            sd, st, T, fl = _flags(rng, nt)
            if rng.random() < 0.2 and nt >= 3:
                fl = fl[::-1] if rng.random() < 0.5 else fl[1:] + fl[:1]      # dates that do not ascend / a date that recurs
            # pre: the CF variables were synthesised once before, for another step with the same start and count
            out.append(dict(kind='atv', sdate=sd, stime=st, tstep=T, flags=fl if rng.random() < 0.5 else None, n=nt,
                            pre=rng.random() < 0.4))
    out += _irregular_cases(rng)
    # on every run: hourly flags given to from_arrays without a start or a step, over midnight, a leap day and a year end
    for y, j, h in ((2019, 365, 23), (2020, 366, 22), (2020, 59, 23), (2021, 120, 5)):
        t0 = dt.datetime(y, 1, 1) + dt.timedelta(days=j - 1, hours=h)
        fl = [[int((t0 + dt.timedelta(hours=i)).strftime('%Y%j')), int((t0 + dt.timedelta(hours=i)).strftime('%H%M%S'))]
              for i in range(rng.randint(2, 4))]
        out.append(dict(kind='fa', flags=fl))
    # on every run: flags with a gap (two days that are no neighbours stacked along TSTEP, a thinned file that kept TSTEP)
    for gapdays in (3, 40):
        sd, st, T, fl = _flags(rng, 2)
        T = rng.choice([10000, 30000])
        t0 = dt.datetime(sd // 1000, 1, 1) + dt.timedelta(days=sd % 1000 - 1, hours=st // 10000)
        fl = []
        for day in (0, gapdays):
            for i in range(2):
                t = t0 + dt.timedelta(days=day, seconds=_tsecs(T) * i)
                fl.append([int(t.strftime('%Y%j')), int(t.strftime('%H%M%S'))])
        out.append(dict(kind='tflag', flags=fl, bounds=True, tstep=T))
    # on every run: a file described by its header only whose steps span more than 2**31 seconds (monthly means over 76 years)
    out.append(dict(kind='atv', sdate=rng.choice([1950001, 1990001]), stime=0, tstep=7440000, flags=None, n=rng.randint(850, 900), pre=False))
    # on every run: a flag file thinned with a stride whose multiple of the step is no HHMMSS multiple of it (30 min x 4 is
    # 2 h, not 012000): the closing edge of the thinned file and the flags a copy regenerates (oracle only)
    for T, stride in ((3000, 4), (4500, 3), (2000, 6), (rng.choice([10000, 3000]), rng.choice([2, 24]))):
        sd, st, _, _ = _flags(rng, 1)
        out.append(dict(kind='strided', sdate=sd, stime=st - st % 10000, tstep=T, stride=stride, n=2 * stride + 1))
    return out


# -------------------------------------------------------------------------------------------------

def _pfile():
    import PseudoNetCDF as pnc
    return pnc.PseudoNetCDFFile()


def _mk_tflag(case):
    f = _pfile()
    fl = case['flags']
    f.createDimension('TSTEP', len(fl))
    f.createDimension('VAR', 2)
    f.createDimension('DATE-TIME', 2)
    v = f.createVariable('TFLAG', 'i', ('TSTEP', 'VAR', 'DATE-TIME'))
    v[:] = np.array(fl, dtype='i')[:, None, :].repeat(2, 1)
    if case.get('tstep') is not None:
        f.TSTEP = case['tstep']
    return f


def _times_out(ts):
    return [lib.show_rat(_inst(t)) for t in ts]


def impl(case):
    import PseudoNetCDF as pnc
    from PseudoNetCDF import coordutil
    k = case['kind']
    try:
        with lib.pnc_warnings():
            if k == 'tflag':
                f = _mk_tflag(case)
                before = f.variables['TFLAG'][:].copy()
                ts = f.getTimes(bounds=case['bounds'])
                res = dict(times=_times_out(ts))
                res['mutated'] = bool((f.variables['TFLAG'][:] != before).any())
                if -635 not in [d for d, t in case['flags']]:
                    res['gettimes'] = _times_out(coordutil.gettimes(f))
                    if hasattr(f, 'TSTEP') and int(f.TSTEP) >= 0:
                        # the functional front end for the cell bounds of a flag file (pncdump's time strings)
                        res['bnds'] = [_times_out(list(row)) for row in coordutil.gettimebnds(f)]
                if case.get('edit'):
                    for j, (d_, t_) in case['edit']:
                        f.variables['TFLAG'][j, :, 0] = d_
                        f.variables['TFLAG'][j, :, 1] = t_
                    res['times2'] = _times_out(f.getTimes(bounds=case['bounds']))
                return res
            if k == 'tau':
                f = _pfile()
                n = len(case['tau0'])
                f.createDimension('time', n)
                for key in ('tau0', 'tau1'):
                    v = f.createVariable(key, 'd', ('time',))
                    v[:] = [float(Fraction(x)) for x in case[key]]
                    v.units = 'hours since 1985-01-01 00:00:00 UTC'
                res = dict(times=_times_out(f.getTimes(bounds=case['bounds'])), gettimes=_times_out(coordutil.gettimes(f)))
                tb = coordutil.gettimebnds(f)
                res['bnds'] = [_times_out(list(row)) for row in tb]
                return res
            if k == 'attrs':
                f = _pfile()
                f.createDimension('TSTEP', case['n'])
                f.SDATE, f.STIME, f.TSTEP = case['sdate'], case['stime'], case['tstep']
                return dict(times=_times_out(f.getTimes(bounds=case['bounds'])))
            if k == 'synth':
                f = _ioapi(case['n'])
                if case.get('pre'):
                    f.SDATE, f.STIME, f.TSTEP = 2001001, 30000, 20000
                    f.updatetflag(overwrite=True)
                if case.get('pre') == 'args' and case['sdate'] > 1000000 and case['stime'] < 240000:
                    import datetime
                    sd_ = datetime.datetime.strptime('%07d %06d' % (case['sdate'], case['stime']), '%Y%j %H%M%S')
                    f.updatetflag(overwrite=True, startdate=sd_, tstep=case['tstep'])
                else:
                    f.SDATE, f.STIME, f.TSTEP = case['sdate'], case['stime'], case['tstep']
                    f.updatetflag(overwrite=True)
                tf = f.variables['TFLAG'][:]
                ok = bool((tf == tf[:, :1, :]).all())
                return dict(flags=[[int(a), int(b)] for a, b in tf[:, 0, :]], allvars=ok,
                            sdate=int(f.SDATE), stime=int(f.STIME), times=_times_out(f.getTimes()))
            if k == 'strided':
                f = _ioapi(case['n'])
                f.SDATE, f.STIME, f.TSTEP = case['sdate'], case['stime'], case['tstep']
                f.updatetflag(overwrite=True)
                g = f.sliceDimensions(TSTEP=slice(None, None, case['stride']))
                res = dict(times=_times_out(g.getTimes(bounds=True)), tstep=int(g.TSTEP))
                res['copy_times'] = _times_out(g.copy().getTimes())
                res['subset_times'] = _times_out(g.subsetVariables(['A']).getTimes())
                return res
            if k == 'fa':
                # hourly flags handed to from_arrays, neither start nor step named: the start is the first flag, the step the
                # default of one hour
                from PseudoNetCDF.cmaqfiles import ioapi_base
                fl = np.array(case['flags'], dtype='i')
                tf = fl[:, None, :].repeat(1, 1)
                f = ioapi_base.from_arrays(TFLAG=tf, A=np.zeros((len(fl), 1, 1, 1), dtype='f'))
                res = dict(times=_times_out(f.getTimes(bounds=True)), tstep=int(f.TSTEP))
                res['copy_times'] = _times_out(f.copy().getTimes())
                return res
            if k == 'cf':
                return _impl_cf(case)
            if k == 'atv':
                return _impl_atv(case)
    except Exception as e:
        return dict(err=type(e).__name__, msg=str(e)[:100])
    raise ValueError(k)


def _ioapi(n):
    from PseudoNetCDF.cmaqfiles import ioapi_base
    f = ioapi_base()
    f.createDimension('TSTEP', n).setunlimited(True)
    f.createDimension('LAY', 1)
    f.createDimension('ROW', 1)
    f.createDimension('COL', 1)
    f.createDimension('VAR', 2)
    f.createDimension('DATE-TIME', 2)
    for key in ('A', 'B'):
        v = f.createVariable(key, 'f', ('TSTEP', 'LAY', 'ROW', 'COL'))
        v.units = 'x'.ljust(16)
        v.long_name = key.ljust(16)
        v.var_desc = key.ljust(80)
    f.NVARS = 2
    setattr(f, 'VAR-LIST', 'A'.ljust(16) + 'B'.ljust(16))
    return f


def _impl_cf(case):
    from PseudoNetCDF.coordutil import _parse_ref_date
    f = _pfile()
    vals = [float(Fraction(v)) for v in case['vals']]
    n = len(vals)
    f.createDimension('time', n)
    v = f.createVariable('time', case.get('tdt', 'd'), ('time',))
    v[:] = vals
    v.units = '%s since %s' % (case['unit'], case['ref'])
    if case['cal'] is not None:
        v.calendar = case['cal']
    if case['bnd'] in ('tb', 'tbgap'):
        f.createDimension('nv', 2)
        b = f.createVariable('time_bounds', 'd', ('time', 'nv'))
        step = (vals[1] - vals[0]) / (2 if case['bnd'] == 'tbgap' else 1)
        b[:, 0] = vals
        b[:, 1] = [x + step for x in vals]
    res = {}
    try:
        r = _parse_ref_date(case['ref'])
        off = r.utcoffset()
        res['ref'] = [r.year, r.month, r.day, r.hour * 3600 + r.minute * 60 + r.second,
                      int(off.total_seconds()) if off is not None else 0]
    except Exception as e:
        res['ref'] = None
    ts = f.getTimes(bounds=case['bnd'] != 'none')
    res['times'] = _times_out(ts)
    tsu = [t.astimezone(dt.timezone.utc) if t.tzinfo is not None else t for t in ts]
    try:
        # the optional numpy output: the same instants (numpy datetimes are UTC)
        # (the first option given by position when no bounds are asked for: getTimes('datetime64[us]'))
        t64 = f.getTimes('datetime64[us]') if case['bnd'] == 'none' else f.getTimes(bounds=True, datetype='datetime64[us]')
        res['dt64'] = [int(x) for x in np.asarray(t64).astype('datetime64[us]').astype('int64').tolist()]
        res['dt64_want'] = [int((_inst(t) - _inst(dt.datetime(1970, 1, 1))) * 1000000) for t in ts]
    except Exception as e:
        res['dt64'] = 'err ' + type(e).__name__
    res['fields'] = [[t.year, t.month, t.day, t.hour, t.minute, t.second, t.microsecond] for t in tsu]
    if case['bnd'] == 'none':
        try:
            res['back'] = [lib.show_rat(x) for x in np.asarray(f.date2num(ts), dtype='d')]
        except Exception as e:
            res['back'] = 'err ' + type(e).__name__
        try:
            idx = f.time2idx(ts, dim='time')
            res['idx'] = [int(i) for i in np.ma.filled(idx, -1)]
        except Exception as e:
            res['idx'] = 'err ' + type(e).__name__
        fv = [Fraction(x) for x in case['vals']]
        if n >= 3 and case['cal'] in (None, 'standard', 'gregorian', 'proleptic_gregorian') and \
                all(fv[i + 1] - fv[i] == fv[1] - fv[0] for i in range(n - 1)) and fv[1] > fv[0]:
            # the datetime front end of the same inverse: every time of a regular axis lies in its own (implied) cell, whatever
            # the resolution of the labels (whole hours, whole days) is next to that of the half-step edges
            try:
                res['t2t'] = [int(i) for i in np.ma.filled(f.time2t(ts, ttype='bounds', index=True), -1)]
            except Exception as e:
                res['t2t'] = 'err ' + type(e).__name__
    return res


def _impl_atv(case):
    from PseudoNetCDF.conventions.ioapi._ioapi import add_time_variable
    f = _pfile()
    n = case['n']
    f.createDimension('TSTEP', n)
    f.SDATE, f.STIME, f.TSTEP = case['sdate'], case['stime'], case['tstep']
    if case['flags']:
        tmp = dict(case)
        tmp['tstep'] = None
        g = _mk_tflag(tmp)
        f.createDimension('VAR', 2)
        f.createDimension('DATE-TIME', 2)
        v = f.createVariable('TFLAG', 'i', ('TSTEP', 'VAR', 'DATE-TIME'))
        v[:] = g.variables['TFLAG'][:]
    if case.get('pre'):
        # an earlier synthesis on the same object for a time axis with the same start and the same number of steps but
        # other instants behind the first: what is synthesised now must not depend on it
        now = (f.TSTEP, None if not case['flags'] else np.array(f.variables['TFLAG'][:]))
        f.TSTEP = 10000 if int(case['tstep']) != 10000 else 20000
        if case['flags']:
            w = f.variables['TFLAG']
            first = case['flags'][0]
            for i in range(1, n):
                w[i, :, 0] = first[0]
                w[i, :, 1] = (first[1] // 10000 * 10000 + i) % 240000 if first[1] // 10000 * 10000 + i != first[1] else first[1] + 1
        add_time_variable(f, 'time')
        add_time_variable(f, 'time_bounds')
        f.TSTEP = now[0]
        if case['flags']:
            f.variables['TFLAG'][:] = now[1]
    add_time_variable(f, 'time')
    add_time_variable(f, 'time_bounds')
    t = f.variables['time']
    tb = f.variables['time_bounds']
    return dict(time=[lib.show_rat(x) for x in np.asarray(t[:], dtype='d')],
                tb=[[lib.show_rat(x) for x in row] for row in np.asarray(tb[:], dtype='d')], units=t.units)


def to_line(case, res):
    k = case['kind']
    if k == 'tflag':
        return 'c12 tflag %s %d %s' % (','.join('%d:%d' % (a, b) for a, b in case['flags']), 1 if case['bounds'] else 0,
                                     '_' if case.get('tstep') is None else str(case['tstep']))
    if k == 'attrs':
        return 'c12 attrs %d %d %d %d %d' % (case['sdate'], case['stime'], case['tstep'], case['n'], 1 if case['bounds'] else 0)
    if k == 'synth':
        return 'c12 synth %d %d %d %d' % (case['sdate'], case['stime'], case['tstep'], case['n'])
    if k == 'cf':
        ref = res.get('ref') if isinstance(res, dict) else None
        if not ref:
            return 'c12 cf %s none none - none' % case['unit']
        cal = {'noleap': '365', '365_day': '365', 'all_leap': '366', '366_day': '366'}.get(case['cal'], 'std')
        vals = list(case['vals'])
        bnd = case['bnd']
        if bnd in ('tb', 'tbgap'):
            step = (Fraction(vals[1]) - Fraction(vals[0])) / (2 if bnd == 'tbgap' else 1)
            vals = vals + [lib.show_rat(Fraction(vals[-1]) + step)]
            bnd = 'none'
        return 'c12 cf %s %s %s %s %s' % (case['unit'], cal, ','.join(map(str, ref)), lib.show_list(vals), bnd)
    if k in ('tau', 'strided', 'fa'):
        return 'c12 attrs 1970001 0 10000 1 0'       # no model question (plain hour arithmetic): judged by the oracle
    if k == 'atv':
        if case['flags']:
            return 'c12 atvflags %s' % ','.join('%d:%d' % (a, b) for a, b in case['flags'])
        return 'c12 atvattrs %d %d %d %d' % (case['sdate'], case['stime'], case['tstep'], case['n'])
    raise ValueError(k)


def agree(case, out, res):
    toks = out.split(' ')
    k = case['kind']
    if k in ('tau', 'strided', 'fa'):
        return None
    if 'err' in res:
        if k == 'cf' and res.get('ref') is None:
            return None
        return None if toks[0] == 'err' else 'impl raised %s (%s), model %s' % (res['err'], res.get('msg'), out[:80])
    if k == 'cf' and res.get('ref') is None:
        return 'reference date %r was rejected by _parse_ref_date but getTimes returned' % case['ref']
    if toks[0] != 'ok':
        return 'model %s, impl returned %s' % (out[:60], str(res)[:100])
    if k == 'cf' and case['cal'] in ('noleap', '365_day', 'all_leap', '366_day'):
        per_year = {'days': 365, 'hours': 8760, 'minutes': 525600, 'seconds': 525600}[case['unit']]
        if max(abs(Fraction(v)) for v in case['vals']) > 40 * per_year:
            # the fractional-year float arithmetic of this (recorded) path is not exact for large offsets
            return None
        if res.get('ref') and _on_year_boundary(case, res['ref']):
            # ... nor where the exact fractional year is a whole number: the float sum lands just below it (367/366 - 1/366)
            return None
    if k in ('tflag', 'attrs', 'cf'):
        mine = lib.show_list(res['times'])
        if toks[1] != mine:
            return 'times model=%s impl=%s' % (toks[1][:200], mine[:200])
        if k == 'tflag' and 'gettimes' in res and not case['bounds'] and lib.show_list(res['gettimes']) != toks[1]:
            return 'coordutil.gettimes differs from the model: %s' % res['gettimes'][:3]
        return None
    if k == 'synth':
        mine = ','.join('%d:%d' % (a, b) for a, b in res['flags'])
        if toks[1] != mine:
            return 'flags model=%s impl=%s' % (toks[1][:200], mine[:200])
        first = toks[1].split(',')[0]
        if first != '%d:%d' % (res['sdate'], res['stime']):
            return 'SDATE/STIME after updatetflag %s/%s vs first flag %s' % (res['sdate'], res['stime'], first)
        return None
    if k == 'atv':
        mine = lib.show_list(res['time'])
        if toks[1] != mine:
            return 'time variable model=%s impl=%s' % (toks[1][:200], mine[:200])
        return None
    return 'unknown kind'


def _on_year_boundary(case, ref):
    """does one of the times the fixed-length-calendar path works on fall exactly on a year boundary of its own arithmetic
    (value / year length minus the offset of the reference date within its year is a whole number)?"""
    yd = 365 if case['cal'] in ('noleap', '365_day') else 366
    yearlike = 1970 if yd == 365 else 1972
    try:
        doy0 = (dt.date(yearlike, ref[1], ref[2]) - dt.date(yearlike, 1, 1)).days
    except ValueError:
        return True
    denom = {'days': yd, 'hours': yd * 24, 'minutes': yd * 1440, 'seconds': yd * 1440, 'weeks': yd}[case['unit']]
    vals = [Fraction(v) for v in case['vals']]
    if case['bnd'] == 'approx' and len(vals) >= 2:
        dtm = (vals[-1] - vals[0]) / (len(vals) - 1)
        vals = [v - dtm / 2 for v in vals] + [vals[-1] + dtm / 2]
    elif case['bnd'] in ('tb', 'tbgap') and len(vals) >= 2:
        vals = vals + [vals[-1] + (vals[1] - vals[0]) / (2 if case['bnd'] == 'tbgap' else 1)]
    return any((v / denom - Fraction(doy0, yd)).denominator == 1 for v in vals)


def _true_instant(d, t):
    y, j = d // 1000, d % 1000
    base = dt.datetime(y, 1, 1, tzinfo=dt.timezone.utc) + dt.timedelta(days=j - 1)
    return _inst(base) + (t // 10000) * 3600 + (t % 10000 // 100) * 60 + t % 100


def oracle(case, res):
    k = case['kind']
    if 'err' in res:
        if k == 'attrs' and (case['sdate'] > 9999999 or case['stime'] > 235959 or case['stime'] % 10000 // 100 > 59
                             or case['sdate'] % 1000 > 366):
            return None
        if k == 'cf':
            return None     # "whenever time decoding returns": a rejected spelling / unit may raise
        if k == 'tflag' and case['bounds'] and case.get('tstep') is None and len(case['flags']) < 2:
            return None     # no interval can be derived from a single flag
        return 'raised %s %s' % (res['err'], res.get('msg'))
    if k == 'fa':
        want = [_true_instant(d, t) for d, t in case['flags']]
        got = [Fraction(x) for x in res['times']]
        if got != want + [want[-1] + 3600]:
            return 'from_arrays(TFLAG=hourly flags): times and closing edge %s (TSTEP %s), the flags and one hour give %s' % (
                [str(x - want[0]) for x in got], res.get('tstep'), [str(x - want[0]) for x in want + [want[-1] + 3600]])
        if [Fraction(x) for x in res['copy_times']] != want:
            return 'from_arrays(TFLAG=hourly flags) then copy: times %s, the flags encode %s' % (
                [str(Fraction(x) - want[0]) for x in res['copy_times']], [str(x - want[0]) for x in want])
        return None
    if k == 'strided':
        step = _tsecs(case['tstep']) * case['stride']
        t0 = _true_instant(case['sdate'], case['stime'])
        m = len(range(0, case['n'], case['stride']))
        want = [t0 + i * step for i in range(m)]
        got = [Fraction(x) for x in res['times']]
        if got != want + [want[-1] + step]:
            return 'every %d-th record of a file with TSTEP %06d: times and closing edge %s (TSTEP %s), the flags give %s' % (
                case['stride'], case['tstep'], [str(x - t0) for x in got], res.get('tstep'), [str(x - t0) for x in want + [want[-1] + step]])
        for key in ('copy_times', 'subset_times'):
            if [Fraction(x) for x in res[key]] != want:
                return 'every %d-th record of a file with TSTEP %06d, then %s: times %s, the retained flags encode %s' % (
                    case['stride'], case['tstep'], key.split('_')[0], [str(Fraction(x) - t0) for x in res[key]], [str(x - t0) for x in want])
        return None
    if k == 'tau':
        e85 = _inst(dt.datetime(1985, 1, 1))
        w0 = [e85 + Fraction(x) * 3600 for x in case['tau0']]
        w1 = [e85 + Fraction(x) * 3600 for x in case['tau1']]
        got = [Fraction(x) for x in res['times']]
        if got != w0 + ([w1[-1]] if case['bounds'] else []):
            return 'tau0 %s decoded to %s, hours since 1985-01-01 give %s' % (case['tau0'][:3], got[:3], w0[:3])
        if [Fraction(x) for x in res['gettimes']] != w0:
            return 'coordutil.gettimes decodes tau0 %s to %s, expected %s' % (case['tau0'][:3], res['gettimes'][:3], w0[:3])
        if [[Fraction(x) for x in row] for row in res['bnds']] != [[a, b] for a, b in zip(w0, w1)]:
            return 'coordutil.gettimebnds decodes tau0/tau1 to %s, expected %s' % (res['bnds'][:2], [[a, b] for a, b in zip(w0, w1)][:2])
        return None
    if k == 'tflag':
        if res.get('mutated'):
            return 'getTimes modified the TFLAG variable of the file'
        exp = [_true_instant(1970001 if d == -635 else d, t) for d, t in case['flags']]
        got = [Fraction(x) for x in res['times']]
        if got[:len(exp)] != exp:
            return 'decoded %s but flags encode %s' % (got[:3], exp[:3])
        if 'bnds' in res:
            # computed through fractional days in floating point: compared to the millisecond
            lo = [Fraction(row[0]) for row in res['bnds']]
            if len(lo) != len(exp) or any(abs(a - b) > Fraction(1, 1000) for a, b in zip(lo, exp)):
                return 'coordutil.gettimebnds starts the cells at %s, the flags encode %s' % (
                    [str(x) for x in lo[:3]], [str(x) for x in exp[:3]])
            if case.get('tstep') is not None and case['tstep'] >= 0:
                # every cell lasts one TSTEP, whatever lies between it and the next flag (a gap between two stacked days)
                hi = [Fraction(row[1]) for row in res['bnds']]
                if any(abs(b - (a + _tsecs(case['tstep']))) > Fraction(1, 1000) for a, b in zip(exp, hi)):
                    return 'coordutil.gettimebnds ends the cells at %s, the flags plus TSTEP (%d) give %s' % (
                        [str(x) for x in hi[:4]], case['tstep'], [str(a + _tsecs(case['tstep'])) for a in exp[:4]])
        if case.get('edit') and 'times2' in res:
            fl2 = [list(x) for x in case['flags']]
            for j, dt_ in case['edit']:
                fl2[j] = dt_
            exp2 = [_true_instant(d, t) for d, t in fl2]
            if [Fraction(x) for x in res['times2']][:len(exp2)] != exp2:
                return 'after the flags were corrected in place the times are %s, the flags encode %s' % (res['times2'][:4], exp2[:4])
        if case['bounds']:
            if len(got) != len(exp) + 1:
                return 'bounds=True returned %d instants for %d flags' % (len(got), len(exp))
            if case.get('tstep') is not None:
                T = case['tstep']
                if got[-1] - got[-2] != _tsecs(T):
                    return 'last bound is not one TSTEP after the last flag'
        return None
    if k == 'attrs':
        sd = case['sdate'] if case['sdate'] >= 1 else 1970001
        T = case['tstep']
        step = _tsecs(T)
        n = case['n'] + (1 if case['bounds'] else 0)
        exp = [_true_instant(sd, case['stime']) + i * step for i in range(n)]
        got = [Fraction(x) for x in res['times']]
        return None if got == exp else 'attribute times %s, expected %s' % (got[:3], exp[:3])
    if k == 'synth':
        T = case['tstep']
        step = T // 10000 * 3600 + T % 10000 // 100 * 60 + T % 100
        exp = [_true_instant(case['sdate'], case['stime']) + i * step for i in range(case['n'])]
        got = [_true_instant(d, t) for d, t in res['flags']]
        if got != exp:
            return 'synthesised flags %s decode to %s, expected %s' % (res['flags'][:3], got[:3], exp[:3])
        if [Fraction(x) for x in res['times']] != exp:
            return 'getTimes after updatetflag differs from the attribute instants'
        if not res['allvars']:
            return 'TFLAG differs between variables'
        return None
    if k == 'cf':
        return _oracle_cf(case, res)
    if k == 'atv':
        e70 = _inst(dt.datetime(1970, 1, 1))
        T = case['tstep']
        step = T // 10000 * 3600 + T % 10000 // 100 * 60 + T % 100
        if case['flags']:
            exp = [_true_instant(d, t) - e70 for d, t in case['flags']]
        else:
            exp = [_true_instant(case['sdate'], case['stime']) - e70 + i * step for i in range(max(1, case['n']))]
        got = [Fraction(x) for x in res['time']]
        if got != exp:
            return 'synthesised CF time %s decodes differently from the flags %s' % (got[:3], exp[:3])
        tb = [[Fraction(x) for x in row] for row in res['tb']]
        for i, row in enumerate(tb):
            if row[0] != exp[i] or row[1] != exp[i] + step:
                return 'time_bounds row %d is %s, expected [%s, %s]' % (i, row, exp[i], exp[i] + step)
        return None
    return None


def _oracle_cf(case, res):
    import cftime
    p = parse_ref_independent(case['ref'])
    if p is None:
        return 'decoding returned for a reference date the independent parser cannot read: %r' % case['ref']
    y, m, d, sod, off, frac = p
    if frac:
        return None
    cal = case['cal'] or 'standard'
    vals = [float(Fraction(v)) for v in case['vals']]
    if case['bnd'] == 'approx':
        dts = np.diff(vals)
        dtm = dts.mean()
        vals = list(np.append(np.array(vals) - dtm / 2, vals[-1] + dtm / 2))
    elif case['bnd'] in ('tb', 'tbgap'):
        # the start of every cell followed by the end of the last one
        vals = vals + [vals[-1] + (vals[1] - vals[0]) / (2 if case['bnd'] == 'tbgap' else 1)]
    # canonical units string in UTC
    refutc = dt.datetime(y, m, d) + dt.timedelta(seconds=sod - off)
    units = '%s since %04d-%02d-%02d %02d:%02d:%02d' % (case['unit'], refutc.year, refutc.month, refutc.day,
                                                       refutc.hour, refutc.minute, refutc.second)
    try:
        exp = cftime.num2date(vals, units, cal)
    except Exception as e:
        return None
    got = res['fields']
    if len(got) != len(exp):
        return 'returned %d instants, expected %d' % (len(got), len(exp))
    for g, e in zip(got, exp):
        ef = [e.year, e.month, e.day, e.hour, e.minute, e.second, e.microsecond]
        if g != ef:
            return 'decoded %s but an independent CF implementation gives %s (%s, %s)' % (g, ef, units, cal)
    if isinstance(res.get('dt64'), list) and res['dt64'] != res['dt64_want']:
        return "getTimes(datetype='datetime64[us]') gives other instants than getTimes(): %s vs %s" % (res['dt64'][:3], res['dt64_want'][:3])
    if case['bnd'] == 'none':
        if res.get('back') != case['vals']:
            return 'date2num(getTimes()) = %s, stored values %s' % (str(res.get('back'))[:80], case['vals'][:3])
        if len(set(case['vals'])) == len(case['vals']) and len(case['vals']) >= 2 and \
                res.get('idx') != list(range(len(case['vals']))):
            return 'time2idx(getTimes()) = %s' % (res.get('idx'),)
        if 't2t' in res and res['t2t'] != list(range(len(case['vals']))):
            return "time2t(getTimes(), ttype='bounds') = %s" % (res['t2t'],)
    return None


KEY_HZ = 'C12/date2num/hour-only-UTC-reference'
HOUR_ONLY_Z = re.compile(r'^\S+ \d+ ?(UTC|Z)?$')


def classify(case, failure, model_out):
    # the recorded finding is about DECODING on these calendars; date2num / time2idx going wrong there is another failure
    if case['kind'] == 'cf' and case['cal'] in ('noleap', '365_day', 'all_leap', '366_day') and not (
            failure.startswith('date2num') or failure.startswith('time2idx')):
        return KEY_YL
    return None


def nontrivial(case, res):
    k = case['kind']
    if k == 'cf':
        return len(case['vals']) >= 2
    if k == 'tflag':
        return len(case['flags']) >= 2
    return case.get('n', 1) >= 2


def witnesses():
    return [(KEY_YL, dict(kind='cf', unit='days', cal='noleap', ref='2000-01-01 00:00:00', vals=['1/2', '3/2'], bnd='none')),
            (KEY_YL, dict(kind='cf', unit='seconds', cal='noleap', ref='2000-01-01 00:00:00', vals=['86400', '172800'], bnd='none'))]


def distribution(recs):
    d = {}
    for r in recs:
        c = r['case']
        k = c['kind']
        d[k] = d.get(k, 0) + 1
        if k == 'cf':
            key = 'cal=%s' % c['cal']
            d[key] = d.get(key, 0) + 1
            key = 'unit=%s' % c['unit']
            d[key] = d.get(key, 0) + 1
            if r['impl'].get('ref') is None:
                d['ref_rejected'] = d.get('ref_rejected', 0) + 1
        if 'err' in r['impl']:
            d['impl_err'] = d.get('impl_err', 0) + 1
    return d
