"""C09 — binary files conform to the published layout (independent codec = the Lean model)"""
import struct

import numpy as np

from .. import camx, lib
from .. import landfmt as L
from .. import slabfmt as S

ID = 'C09'
LEAN_MODULE = 'PncProofs.C09'
LEAN_FILE = 'PncProofs/C09.lean'
NAMESPACE = 'Props.C09'
LEAN_CONE = ['PncModel.Generated.UamivLayouts', 'PncModel.Words', 'PncModel.Camx.Landuse', 'PncModel.Camx.WindRead', 'PncModel.Camx.CloudRainRead', 'PncModel.Camx.BoundaryRead', 'PncModel.Camx.UamivRead', 'PncProofs.WindLemmas', 'PncProofs.CloudRainLemmas', 'PncProofs.BoundaryLemmas', 'PncModel.Camx.Uamiv', 'PncModel.Camx.Slab', 'PncProofs.WordsLemmas', 'PncProofs.LanduseLemmas', 'PncProofs.LanduseThms', 'PncProofs.UamivLemmas', 'PncProofs.C09']
LEMMA_FILES = ['PncProofs/WordsLemmas.lean', 'PncProofs/UamivLemmas.lean', 'PncProofs/LanduseLemmas.lean', 'PncProofs/LanduseThms.lean']
REQUIRED_THEOREMS = ['tiles', 'header_counts', 'refDecode_encode', 'slab_tiles', 'slab_record_content', 'cloud_rain_tiles',
                     'cloud_rain_counts', 'wind_tiles', 'wind_step_shape', 'boundary_tiles', 'boundary_counts',
                     'landuse_tiles', 'landuse_counts', 'landuse_read', 'wind_read', 'cloud_rain_read', 'boundary_read', 'uamiv_layout_matches_source']
RULE = ('uamiv files (all four NAME variants, 1-3 species with names up to 10 characters, nx, ny 1-4, nz 1-3, '
        '1-3 steps, begin/end flags with and without ETFLAG, any finite float32 payload incl. denormals and -0): '
        'kind write = library writer bytes vs the Lean encoder and an independent python record walker; kind '
        'read = bytes of the Lean reference encoder read by the library Memmap reader vs the Lean reader model; '
        'read2 = the same through the legacy record reader uamiv.Read on the files it is meaningful for (AVERAGE/INSTANT, '
        'odd hour step, all steps within one day, every count >= 2), dimensions/species/data compared; the writer is fed '
        'float32 and float64 variables; slab formats (one3d, humidity, vertical diffusivity, temperature, height/pressure): '
        'kind swrite = bytes of the library writer (float32 or float64 input) vs the Lean encoder and an independent record '
        'walker (markers tile the file, every record carries the time, date and cells that were written, in the layout\'s order), '
        'kind sread = reference-encoded bytes read by the Memmap reader vs the Lean reader model; cloud/rain files (3- and '
        '5-variable layouts, variables defined in layout or in other orders): kind cwrite = library writer bytes vs the Lean '
        'encoder and the record walker, kind cread = reference-encoded bytes read by the Memmap reader vs the encoded content; wind: kind wwrite = library writer '
        'bytes vs the Lean encoder and the record walker, kind wread = reference-encoded files of 1-9 steps read by both readers vs the encoded content; landuse (new style with 11 or 26 categories and 0-2 of VAR1/LAI/TOPO, old style with 0-1 fields; rows, columns 1-4): '
        'library writer bytes vs the Lean writer model and an independent record walker, reference-encoded bytes through the reader vs the Lean reader model and the encoded content, files cut short are rejected by both; '
        'non-trivial = at least two of nspec, nx*ny, nz, nt are > 1 and pairwise different strides; kind sslice: a reference file read, cut to a window of rows and columns and written again (records of the window, markers included); whole-day and half-day steps on every run; gridded files as a little-endian machine writes them, opened with endian=little; cloud/rain descriptions with leading / trailing blanks')
ASSUMPTIONS = ['numpy tofile/memmap and float32 <-> bits conversion are trusted (exercised incl. denormals, -0)',
               'covered: the uamiv family, the five slab formats and cloud_rain (layout model, reader by oracle); wind (writer; reference-encoded files through both readers, as in C13), lateral_boundary (layout model, reader and write-back by oracle), landuse (writer and reader models, both styles); bpch: see C18']
MIN_NONTRIVIAL = {'quick': 30, 'thorough': 300}


def _gen_wline(rng):
    """one Fortran record written by FortranFileUtil.writeline (the helper the legacy writers, point_source among them,
    call for every record - with ForceBig=False too): items of four bytes each, big-endian whatever the flag says"""
    n = rng.randint(1, 6)
    kinds = [rng.choice('iif') if rng.random() < 0.85 else 's' for _ in range(n)]
    vals = [rng.randint(-2 ** 31, 2 ** 31 - 1) if k == 'i' else (rng.choice([0.5, -1.25, 3.0e7, 1.0, -0.0]) if k == 'f'
                                                                   else rng.choice(['ABCD', 'NO2 ', 'x   ']))
            for k in kinds]
    return dict(kind='wline', kinds=kinds, vals=vals, forcebig=rng.random() < 0.5)


def _wline_payload(case):
    return b''.join(struct.pack('>i', v) if k == 'i' else (struct.pack('>f', v) if k == 'f' else v.encode())
                    for k, v in zip(case['kinds'], case['vals']))


def gen(rng, tier):
    n = 80 if tier == 'quick' else 3000
    out = [_gen_wline(rng) for _ in range(max(6, n // 10))]
    for i in range(n):
        if i % 5 == 4:
            c = camx.gen_uamiv_read_domain(rng) if i % 10 == 4 else camx.gen_uamiv_one_day(rng)
            c['kind'] = 'read2'
        else:
            c = camx.gen_uamiv(rng)
            c['kind'] = 'write' if i % 2 == 0 else 'read'
            if c['kind'] == 'write':
                c['vdtype'] = rng.choice(['f', 'f', 'd'])
                if len(c['species']) >= 2 and rng.random() < 0.4:
                    c['varorder'] = rng.sample(range(len(c['species'])), len(c['species']))
            elif i % 6 == 1:
                c['little'] = True      # the same file as a little-endian machine writes it, opened with endian='little'
        out.append(c)
    for y, j, h in ((2002, 154, 22), (2019, 365, 23), (2003, 59, 21)):
        # an input WITH ETFLAG whose steps end at midnight written the CAMx way, hour 24 of the day that ends (what the
        # library's own reader returns for daily files): the time records keep (that day, 24.)
        import datetime as dt_
        c = camx.gen_uamiv_at(rng, y, j, h, with_etflag=True, tstep=1)
        for i, (d_, t_) in enumerate(c['etflag']):
            if t_ == 0:
                prev = dt_.datetime.strptime('%07d' % d_, '%Y%j') - dt_.timedelta(days=1)
                c['etflag'][i] = [int(prev.strftime('%Y%j')), 240000]
        c.update(kind='write', vdtype='f')
        out.append(c)
    for y, j, h in ((2000, 365, 22), (2000, 366, 22), (2000, 366, 23), (2100 - 100, 365, 23), (1996, 366, 23), (2020, 366, 22)):
        # the end of a century leap year and of ordinary leap years, written from an input without ETFLAG (the writer
        # computes the end of every step itself)
        c = camx.gen_uamiv_at(rng, y, j, h, with_etflag=False, tstep=1)
        c.update(kind='write', vdtype='f')
        out.append(c)
    # files that span the new year 1999 -> 2000 (two-digit years 99365 followed by 00001), read by the library: gridded and
    # meteorological
    c = camx.gen_uamiv_at(rng, 1999, 365, 22, tstep=1)
    while len(c['tflag']) < 3:
        c = camx.gen_uamiv_at(rng, 1999, 365, 22, tstep=1)
    c['kind'] = 'read'
    out.append(c)
    # the first step itself ends in the next year (the step length the reader reports is that of this step)
    c = camx.gen_uamiv_at(rng, rng.choice([2005, 1999, 2019]), 365, 23, tstep=1)
    c['kind'] = 'read'
    out.append(c)
    for fmt in ('temperature', 'humidity', 'height_pressure'):
        # ... and written by the library from a data set whose flags run from 1999 into 2000
        c = S.gen(rng, fmt=fmt, longspan=False)
        c['flags'] = [[99365, 2200], [99365, 2300], [1, 0], [1, 100]][:max(3, len(c['flags']))]
        per = len(c['data'][0])
        c['data'] = [[[camx.rand_f32_bits(rng) for _ in range(c['nx'] * c['ny'])] for _ in range(per)] for _ in c['flags']]
        c['kind'] = 'swrite'
        c['vdtype'] = 'f'
        out.append(c)
    for fmt in ('temperature', 'humidity'):
        c = S.gen(rng, fmt=fmt, longspan=False)
        c['flags'] = [[99365, 2200], [99365, 2300], [1, 0], [1, 100]][:max(3, len(c['flags']))]
        per = len(c['data'][0])
        c['data'] = [[[camx.rand_f32_bits(rng) for _ in range(c['nx'] * c['ny'])] for _ in range(per)] for _ in c['flags']]
        c['kind'] = 'sread'
        c['vdtype'] = 'f'
        out.append(c)
    for name in camx.NAMES:
        # every NAME with several layers and several steps written on every run (3-D gridded emissions included)
        c = camx.gen_uamiv(rng)
        while c['nz'] < 2 or len(c['tflag']) < 2:
            c = camx.gen_uamiv(rng)
        c.update(name=name, kind='write', vdtype=rng.choice(['f', 'd']))
        out.append(c)
    for i in range(n // 2):
        # whole-day and half-day steps (the hour column repeats) on every run
        c = S.gen(rng, longspan=[None, None, 24, None, None, 12, None][i % 7])
        c['kind'] = 'swrite' if i % 2 == 0 else 'sread'
        c['vdtype'] = rng.choice(['f', 'f', 'd'])
        out.append(c)
    for i in range(n // 5):
        # a file that was read, cut to a window of rows and columns and written again: its records must be those of the
        # window (markers included), whatever grid attributes the reader left on the file
        c = S.gen(rng)
        r0, c0 = rng.randrange(c['ny']), rng.randrange(c['nx'])
        c['win'] = [r0, rng.randint(r0 + 1, c['ny']), c0, rng.randint(c0 + 1, c['nx'])]
        c['kind'] = 'sslice'
        out.append(c)
    for i in range(n // 4):
        out.append(_gen_cr(rng, 'cwrite' if i % 2 == 0 else 'cread'))
    for i in range(n // 8):
        c = S.gen_bnd(rng)
        c['kind'] = 'bnd'
        out.append(c)
    for i in range(n // 8):
        c = S.gen_wind(rng)
        c['stag'] = rng.choice([0, 1])          # the writer always emits the three-word header
        c['kind'] = 'wwrite'
        c['vdtype'] = rng.choice(['f', 'd'])
        out.append(c)
    for i in range(max(2, n // 40)):
        # the writer's option tflag names the variable that holds the time stamps (here LTFLAG; the variable TFLAG of the same
        # data set holds other days and hours)
        c = S.gen_wind(rng)
        c['stag'] = rng.choice([0, 1])
        c['kind'] = 'wwrite'
        c['vdtype'] = 'f'
        c['alttflag'] = True
        out.append(c)
    for i in range(n // 8):
        c = S.gen_wind(rng)             # reference encoder -> both library readers (1-9 steps, both header variants)
        c['kind'] = 'wread'
        c['family'] = 'wind'
        out.append(c)
    for i in range(n // 6):
        c = L.gen(rng)                  # landuse: writer and reader, both file styles, 0-2 optional fields
        c['kind'] = 'land'
        out.append(c)
    # GEOS-Chem punch files (the layout, reader and writer checks of C18 on a fresh stream): several categories in one
    # time step, also with the same tracer number
    from ..bpchfmt import gen as _bgen
    for i in range(n // 8):
        c = _bgen(rng)
        # every other file: the first block's (tracer + category offset) has no line in tracerinfo.dat (the reader names it
        # by number and does not scale it, whatever the plain tracer of that number says)
        c['drop_line'] = (i % 2 == 1)
        c['tslice'] = rng.choice([[None, None, 2], [1, None, None], [None, None, -1], [-1, None, None]])
        c['kind'] = 'bpch'
        out.append(c)
    return out


CRV5 = ['CLOUD', 'RAIN', 'SNOW', 'GRAUPEL', 'COD']
CRV3 = ['CLOUD', 'PRECIP', 'COD']


def _gen_cr(rng, kind):
    c = S.gen(rng, 'one3d')
    names = CRV5 if rng.random() < 0.6 else CRV3
    n = c['nx'] * c['ny']
    c['data'] = [[[camx.rand_f32_bits(rng) for _ in range(n)] for _ in range(c['nz'] * len(names))] for _ in c['flags']]
    if rng.random() < 0.5:
        # fields that are zero throughout a layer (no cloud, no rain: the usual case), some of the zeros negative
        for slabs in c['data']:
            for k in range(len(slabs)):
                if rng.random() < 0.4:
                    slabs[k] = [rng.choice([0, 0x80000000]) for _ in range(n)]
                    slabs[k][rng.randrange(n)] = 0x80000000
    order = list(names)
    if rng.random() < 0.5:
        rng.shuffle(order)              # the order in which the input file defines the variables
    c.update(kind=kind, names=names, order=order, desc=rng.choice(['CAMx_V4.3 CLOUD_RAIN', 'CAMx_V4.2 CLOUD_RAIN', 'CAMx_V6.0 CLOUD_RAIN extra'[:24], 'CAMx CLOUD_RAIN     ', ' CAMx_V4.3 CLOUD_RAIN   ', 'CLOUD_RAIN  ',
                                  # lengths that are no multiple of four bytes: the layout model works in words, these are judged by the oracle alone
                                  'CAMx_V4.3 CLOUD_RAIN!', 'CLOUD_RAIN']),
             vdtype=rng.choice(['f', 'f', 'd']))
    return c


def _cr_encode(c):
    n = c['nx'] * c['ny']
    hdr = c['desc'].encode() + struct.pack('>3i', c['nx'], c['ny'], c['nz'])
    out = struct.pack('>i', len(hdr)) + hdr + struct.pack('>i', len(hdr))
    for (d, hhmm), slabs in zip(c['flags'], c['data']):
        out += struct.pack('>ifii', 8, float(hhmm), d, 8)
        for sl in slabs:
            out += struct.pack('>i', 4 * n) + struct.pack('>%dI' % n, *sl) + struct.pack('>i', 4 * n)
    return out


def _cr_line(c):
    steps = '|'.join('%08x:%08x:%s' % (S.f32bits(float(hhmm)), d, ','.join(camx.hexwords(sl) for sl in slabs))
                     for (d, hhmm), slabs in zip(c['flags'], c['data']))
    return 'bin cr-enc desc=%s nx=%d ny=%d nz=%d steps=%s' % (c['desc'].encode().hex(), c['nx'], c['ny'], c['nz'], steps)


def _cr_build(c):
    import numpy as np
    import PseudoNetCDF as pnc
    nt, nz, ny, nx, nv = len(c['flags']), c['nz'], c['ny'], c['nx'], len(c['names'])
    f = pnc.PseudoNetCDFFile()
    f.createDimension('TSTEP', nt).setunlimited(True)
    f.createDimension('LAY', nz)
    f.createDimension('ROW', ny)
    f.createDimension('COL', nx)
    f.createDimension('VAR', nv)
    f.createDimension('DATE-TIME', 2)
    f.FILEDESC = c['desc']
    bits = np.array(c['data'], dtype='>u4').view('>f4').reshape(nt, nz, nv, ny, nx)
    tf = None
    for k in c['order'] + ['TFLAG']:
        if k == 'TFLAG':
            tf = f.createVariable('TFLAG', 'i', ('TSTEP', 'VAR', 'DATE-TIME'))
            for t, (d, hhmm) in enumerate(c['flags']):
                tf[t, :, 0] = d + (2000 if d // 1000 < 70 else 1900) * 1000
                tf[t, :, 1] = hhmm * 100
        else:
            v = f.createVariable(k, c['vdtype'], ('TSTEP', 'LAY', 'ROW', 'COL'))
            v[:] = bits[:, :, c['names'].index(k)]
    return f


def _impl_bnd(case):
    import os
    import numpy as np
    from PseudoNetCDF.pncgen import pncgen
    from PseudoNetCDF.camxfiles.lateral_boundary.Memmap import lateral_boundary
    p = os.path.join(camx.tmpdir(), 'c09b_%d_%d.bin' % (os.getpid(), np.random.randint(1 << 30)))
    o = p + '.out'
    try:
        with lib.pnc_warnings():
            b = S.bnd_encode(case)
            open(p, 'wb').write(b)
            f = lateral_boundary(p)
            v = S.bnd_view(f, case)
            # another boundary file (another grid, other edge definitions) is opened before the first is written back
            import random as _random
            other = S.gen_bnd(_random.Random(len(b)))
            other['nx'], other['ny'] = case['nx'] + 1, case['ny'] + 2
            other['bdata'] = [[[[0] * ((other['ny'] if e < 2 else other['nx']) * other['nz']) for e in range(4)] for _ in other['species']] for _ in other['tflag']]
            p2 = p + '.other'
            open(p2, 'wb').write(S.bnd_encode(other))
            f2 = lateral_boundary(p2)
            f2.variables['TFLAG'][:]
            pncgen(f, o, format='camxfiles.lateral_boundary', verbose=0)
            del f2
            v['hex'] = b.hex()
            v['rewritten'] = open(o, 'rb').read().hex()
            # writing is a query: the object that was written is unchanged and can be written again to the same bytes
            v['tflag_after'] = [[int(a), int(c_)] for a, c_ in np.asarray(f.variables['TFLAG'][:, 0, :])]
            os.remove(o)
            pncgen(f, o, format='camxfiles.lateral_boundary', verbose=0)
            v['rewritten2'] = open(o, 'rb').read().hex()
            return v
    except lib.HarnessError:
        raise
    except Exception as e:
        return dict(err=type(e).__name__, msg=str(e)[:120])
    finally:
        for q in (p, o, p + '.other'):
            if os.path.exists(q):
                os.remove(q)


def _oracle_bnd(case, res):
    if 'err' in res:
        return 'raised %s %s' % (res['err'], res.get('msg'))
    nt = len(case['tflag'])
    if (res['nt'], res['nz'], res['ny'], res['nx']) != (nt, case['nz'], case['ny'], case['nx']):
        return 'library reads dimensions %s' % ((res['nt'], res['nz'], res['ny'], res['nx']),)
    for si, s in enumerate(case['species']):
        for ei, e in enumerate(('WEST', 'EAST', 'SOUTH', 'NORTH')):
            got = res['vars']['%s_%s' % (e, s)]
            for t in range(nt):
                if got[t] != case['bdata'][t][si][ei]:
                    return 'library reads other values for %s_%s step %d than were encoded' % (e, s, t)
    if res['tflag'] != [list(x) for x in case['tflag']]:
        return 'TFLAG %s, encoded %s' % (res['tflag'], case['tflag'])
    if res['etflag'] != [list(x) for x in case['etflag']]:
        return 'ETFLAG %s, encoded %s' % (res['etflag'], case['etflag'])
    try:
        recs = camx.walk_records(bytes.fromhex(res['rewritten']))
    except ValueError as e:
        return 'the file written from the reader\'s content: records do not tile the file: %s' % e
    if res['rewritten'] != res['hex']:
        want = S.bnd_records(case)
        for i, (a, b) in enumerate(zip(recs, want)):
            if a != b:
                return 'written back: record %d differs from the file that was read' % i
        return 'written back: %d records, the file read has %d' % (len(recs), len(want))
    if res.get('tflag_after') is not None and res['tflag_after'] != res['tflag']:
        return 'writing the file changed the TFLAG of the object that was written: %s -> %s' % (res['tflag'], res['tflag_after'])
    if res.get('rewritten2') is not None and res['rewritten2'] != res['rewritten']:
        return 'the same object written a second time gives other bytes than the first time'
    return None


def _impl_wind(case):
    import os
    import numpy as np
    from PseudoNetCDF.pncgen import pncgen
    p = os.path.join(camx.tmpdir(), 'c09w_%d_%d.bin' % (os.getpid(), np.random.randint(1 << 30)))
    try:
        with lib.pnc_warnings():
            f = S.wind_build(case, case['vdtype'])
            kw = {}
            if case.get('alttflag'):
                lt = f.createVariable('LTFLAG', 'i', ('TSTEP', 'VAR', 'DATE-TIME'))
                lt[:] = f.variables['TFLAG'][:]
                tf = f.variables['TFLAG']
                tf[:, :, 0] = tf[:, :, 0] - 1 - (np.arange(tf.shape[0]) % 2)[:, None]      # other days
                tf[:, :, 1] = (tf[:, :, 1] + 50000) % 240000                                 # other hours
                kw['writer_kw'] = dict(tflag='LTFLAG')
            pncgen(f, p, format='camxfiles.wind', verbose=0, **kw)
        return dict(hex=open(p, 'rb').read().hex())
    except lib.HarnessError:
        raise
    except Exception as e:
        return dict(err=type(e).__name__, msg=str(e)[:120])
    finally:
        if os.path.exists(p):
            os.remove(p)


def _oracle_wind(case, res):
    if 'err' in res:
        return 'raised %s %s' % (res['err'], res.get('msg'))
    try:
        recs = camx.walk_records(bytes.fromhex(res['hex']))
    except ValueError as e:
        return 'records do not tile the file: %s' % e
    n = case['nx'] * case['ny']
    per = 2 * case['nz'] + 2
    if len(recs) != per * len(case['flags']):
        return '%d records, expected %d' % (len(recs), per * len(case['flags']))
    for t, ((d, hhmm), slabs) in enumerate(zip(case['flags'], case['data'])):
        h = recs[t * per]
        if len(h) != 12 or struct.unpack('>fii', h) != (float(hhmm), d, case['stag']):
            return 'time header of step %d: %r' % (t, h)
        for k, sl in enumerate(slabs):
            if list(struct.unpack('>%dI' % n, recs[t * per + 1 + k])) != sl:
                return 'step %d record %d does not hold the %s values written for layer %d' % (t, k, 'UV'[k % 2], k // 2)
        if len(recs[t * per + per - 1]) != 4:
            return 'step %d is not closed by a one-word record' % t
    return None


def _impl_cr(case):
    import os
    import numpy as np
    from PseudoNetCDF.pncgen import pncgen
    p = os.path.join(camx.tmpdir(), 'c09c_%d_%d.bin' % (os.getpid(), np.random.randint(1 << 30)))
    try:
        with lib.pnc_warnings():
            if case['kind'] == 'cwrite':
                pncgen(_cr_build(case), p, format='camxfiles.cloud_rain', verbose=0)
                return dict(hex=open(p, 'rb').read().hex())
            b = _cr_encode(case)
            open(p, 'wb').write(b)
            from PseudoNetCDF.camxfiles.cloud_rain.Memmap import cloud_rain
            f = cloud_rain(p)
            out = dict(hex=b.hex(), nt=len(f.dimensions['TSTEP']), nz=len(f.dimensions['LAY']), ny=len(f.dimensions['ROW']),
                       nx=len(f.dimensions['COL']), vars={})
            for k in case['names']:
                arr = np.ascontiguousarray(np.asarray(f.variables[k][:]).astype('>f4')).view('>u4')
                out['vars'][k] = arr.reshape(out['nt'], out['nz'], -1).tolist()
            out['tflag'] = [[int(a), int(b_)] for a, b_ in np.asarray(f.variables['TFLAG'][:, 0, :])]
            return out
    except lib.HarnessError:
        raise
    except Exception as e:
        return dict(err=type(e).__name__, msg=str(e)[:120])
    finally:
        if os.path.exists(p):
            os.remove(p)


def _cr_ambiguous(case):
    """the format does not store the number of variables: a 3-variable file whose data size is also a whole number
    of 5-variable steps cannot be told from a 5-variable file (the reader tries 5 first)"""
    n = case['nx'] * case['ny']
    size = lambda nv: nv * case['nz'] * (n + 2) * 4 + 16
    return len(case['names']) == 3 and (len(case['flags']) * size(3)) % size(5) == 0


def _oracle_cr(case, res):
    if case['kind'] == 'cread' and _cr_ambiguous(case):
        return None
    if 'err' in res:
        return 'raised %s %s' % (res['err'], res.get('msg'))
    n, nv = case['nx'] * case['ny'], len(case['names'])
    if case['kind'] == 'cwrite':
        b = bytes.fromhex(res['hex'])
        try:
            recs = camx.walk_records(b)
        except ValueError as e:
            return 'records do not tile the file: %s' % e
        if len(recs) != 1 + len(case['flags']) * (1 + case['nz'] * nv):
            return '%d records, expected %d' % (len(recs), 1 + len(case['flags']) * (1 + case['nz'] * nv))
        if struct.unpack('>3i', recs[0][-12:]) != (case['nx'], case['ny'], case['nz']):
            return 'header counts %s, content %s' % (struct.unpack('>3i', recs[0][-12:]), (case['nx'], case['ny'], case['nz']))
        k = 1
        for (d, hhmm), slabs in zip(case['flags'], case['data']):
            if struct.unpack('>fi', recs[k]) != (float(hhmm), d):
                return 'time record %s, written %s' % (struct.unpack('>fi', recs[k]), (hhmm, d))
            k += 1
            for z in range(case['nz']):
                for vi, name in enumerate(case['names']):
                    if list(struct.unpack('>%dI' % n, recs[k])) != slabs[z * nv + vi]:
                        return 'the record at the position of %s (layer %d) does not hold the values written for it' % (name, z)
                    k += 1
        return None
    if (res['nt'], res['nz'], res['ny'], res['nx']) != (len(case['flags']), case['nz'], case['ny'], case['nx']):
        return 'library reads dimensions %s' % ((res['nt'], res['nz'], res['ny'], res['nx']),)
    for vi, name in enumerate(case['names']):
        for t in range(res['nt']):
            for z in range(case['nz']):
                if res['vars'][name][t][z] != case['data'][t][z * nv + vi]:
                    return 'library reads other values for %s step %d layer %d than were encoded' % (name, t, z)
    return None


def _windowed(case):
    import copy
    r0, r1, c0, c1 = case['win']
    w = copy.deepcopy(case)
    w['ny'], w['nx'], w['kind'] = r1 - r0, c1 - c0, 'swrite'
    w['data'] = [[[sl[r * case['nx'] + q] for r in range(r0, r1) for q in range(c0, c1)] for sl in slabs] for slabs in case['data']]
    return w


def _impl_slab(case):
    import os
    import numpy as np
    try:
        if case['kind'] == 'sslice':
            from PseudoNetCDF.pncgen import pncgen
            p = os.path.join(camx.tmpdir(), 'c09w_%d_%d.bin' % (os.getpid(), np.random.randint(1 << 30)))
            o = p + '.out'
            open(p, 'wb').write(S.encode(case))
            try:
                with lib.pnc_warnings():
                    f = S.open_reader(case, p, 'memmap')
                    r0, r1, c0, c1 = case['win']
                    g = f.sliceDimensions(ROW=slice(r0, r1), COL=slice(c0, c1))
                    pncgen(g, o, format=S.FORMATS[case['fmt']][4], verbose=0)
                return dict(hex=open(o, 'rb').read().hex())
            finally:
                for q in (p, o):
                    if os.path.exists(q):
                        os.remove(q)
        if case['kind'] == 'swrite':
            return dict(hex=S.write_with_library(case, case['vdtype']).hex())
        b = S.encode(case)
        p = os.path.join(camx.tmpdir(), 'c09s_%d_%d.bin' % (os.getpid(), np.random.randint(1 << 30)))
        open(p, 'wb').write(b)
        try:
            with lib.pnc_warnings():
                v = S.view(S.open_reader(case, p, 'memmap'), case)
        finally:
            os.remove(p)
        v['hex'] = b.hex()
        return v
    except lib.HarnessError:
        raise
    except Exception as e:
        return dict(err=type(e).__name__, msg=str(e)[:120])


def _oracle_slab(case, res):
    if 'err' in res:
        return 'raised %s %s' % (res['err'], res.get('msg'))
    if case['kind'] == 'swrite':
        b = bytes.fromhex(res['hex'])
        try:
            recs = camx.walk_records(b)
        except ValueError as e:
            return 'records do not tile the file: %s' % e
        n = case['nx'] * case['ny']
        want = [(d, hhmm, sl) for (d, hhmm), slabs in zip(case['flags'], case['data']) for sl in slabs]
        if len(recs) != len(want):
            return '%d records, expected %d' % (len(recs), len(want))
        for i, (r, (d, hhmm, sl)) in enumerate(zip(recs, want)):
            if len(r) != 8 + 4 * n:
                return 'record %d has %d bytes, expected %d' % (i, len(r), 8 + 4 * n)
            t, dd = struct.unpack('>fi', r[:8])
            if (t, dd) != (float(hhmm), d):
                return 'record %d carries time/date %s, written %s' % (i, (t, dd), (hhmm, d))
            if list(struct.unpack('>%dI' % n, r[8:])) != sl:
                return 'record %d: cells differ from what was written' % i
        return None
    if (float(res['nt']), float(res['nz'])) != (float(len(case['flags'])), float(case['nz'])):
        return 'library reads nt,nz = %s,%s from a reference file of %d,%d' % (res['nt'], res['nz'], len(case['flags']), case['nz'])
    return None


def impl(case):
    if case.get('kind') == 'bpch':
        from . import c18
        return c18.impl(case)
    if case['kind'] == 'wline':
        from PseudoNetCDF.camxfiles.FortranFileUtil import writeline
        fmt = ''.join('4s' if k == 's' else k for k in case['kinds'])
        vals = [v.encode() if k == 's' else v for k, v in zip(case['kinds'], case['vals'])]
        try:
            return dict(hex=writeline(vals, fmt, ForceBig=case['forcebig']).hex())
        except Exception as e:
            return dict(err=type(e).__name__, msg=str(e)[:120])
    if case['kind'] == 'land':
        return L.impl(case)
    if case['kind'] == 'wread':
        from . import c13
        return c13.impl(case)
    if case['kind'] == 'bnd':
        return _impl_bnd(case)
    if case['kind'] == 'wwrite':
        return _impl_wind(case)
    if case['kind'] in ('cwrite', 'cread'):
        return _impl_cr(case)
    if case['kind'] in ('swrite', 'sread', 'sslice'):
        return _impl_slab(case)
    try:
        if case['kind'] == 'write':
            b = camx.write_with_library(case)
            return dict(hex=b.hex())
        b = camx.ref_encode_uamiv(case)
        if case.get('little'):
            v = camx.read_with_library(camx.to_little_endian(b), 'memmap', endian='little')
        else:
            v = camx.read_with_library(b, 'read' if case['kind'] == 'read2' else 'memmap')
        v['hex'] = b.hex()
        return v
    except lib.HarnessError:
        raise
    except Exception as e:
        return dict(err=type(e).__name__, msg=str(e)[:120])


def to_line(case, res):
    if case.get('kind') == 'bpch':
        from . import c18
        return c18.to_line(case, res)
    if case['kind'] == 'wline':
        return 'bin frame ' + _wline_payload(case).hex()
    if case['kind'] == 'land':
        return L.to_line(case, res)
    if case['kind'] == 'bnd':
        return S.bnd_line(case)
    if case['kind'] in ('wwrite', 'wread'):
        return S.wind_line(case)
    if case['kind'] in ('cwrite', 'cread'):
        return _cr_line(case)
    if case['kind'] == 'swrite':
        return 'bin slab-enc ' + S.lean_steps(case)
    if case['kind'] == 'sslice':
        return 'bin slab-enc ' + S.lean_steps(_windowed(case))
    if case['kind'] == 'sread':
        return 'bin slab-mm %s %d %s' % (S.FORMATS[case['fmt']][0], case['nx'] * case['ny'], res.get('hex') or S.encode(case).hex())
    if case['kind'] == 'write':
        return camx.uamiv_write_line(case)
    return 'bin uamiv-read %s 0' % (res.get('hex') or camx.ref_encode_uamiv(case).hex())


def agree(case, out, res):
    if case.get('kind') == 'bpch':
        from . import c18
        return c18.agree(case, out, res)
    if case['kind'] == 'wline':
        if 'err' in res:
            return 'writeline raised %s %s' % (res['err'], res.get('msg'))
        return None if out == 'ok ' + res['hex'] else 'writeline record %s, model %s' % (res['hex'][:80], out[:80])
    if case['kind'] == 'land':
        return L.agree(case, out, res)
    if case['kind'] == 'wread':
        if out != 'ok ' + res['hex']:
            return 'the python reference encoder and the Lean wind encoder differ'
        return S.wind_model_diff(case, res['hex'], res['memmap'])
    if case['kind'] in ('cread', 'cwrite') and len(case['desc']) % 4:
        return None         # the layout model works in words: such descriptions are judged by the oracle alone
    if case['kind'] == 'cread' and _cr_ambiguous(case):
        return None
    if 'err' in res:
        return None if out.startswith('err') else 'impl raised %s (%s), model %s' % (res['err'], res.get('msg'), out[:60])
    if not out.startswith('ok '):
        return 'model %s, impl returned' % out[:60]
    if case['kind'] == 'cread':
        if out[3:] != res['hex']:
            return 'the python reference encoder and the Lean encoder differ'
        return _cr_model_diff(case, res)
    if case['kind'] == 'bnd':
        if out[3:] != res['hex']:
            return 'the python reference encoder and the Lean encoder differ'
        # the records the reader's own maps present against the Lean reader model on the same bytes
        return S.bnd_model_diff(res['hex'], res)
    if case['kind'] in ('swrite', 'cwrite', 'wwrite', 'sslice'):
        return None if out[3:] == res['hex'] else 'writer bytes differ from the reference encoding (first difference at byte %d)' % _firstdiff(out[3:], res['hex'])
    if case['kind'] == 'sread':
        _, kv = lib.parse_kv('x ' + out[3:])
        for k in ('nt', 'nz'):
            if float(kv[k]) != float(res[k]):
                return '%s model=%s impl=%s' % (k, kv[k], res[k])
        if kv['vars'] != res['vars'] or kv['tflag'] != res.get('tflag'):
            return 'reader view differs from the model (data or time flags)'
        return None
    if case['kind'] == 'write':
        return None if out[3:] == res['hex'] else 'writer bytes differ from the reference encoding (first difference at byte %d)' % _firstdiff(out[3:], res['hex'])
    if case['kind'] == 'read2':
        # the legacy record reader against its own Lean model (UamivRead.read) on the same bytes
        d = camx.record_model_diff(res['hex'], res) if 'hex' in res else None
        if d:
            return d
    return camx.diff_view(out, res)


def _cr_model_diff(case, res):
    """the cloud/rain Memmap reader against the Lean reader model on the same bytes"""
    out = lib.run_model(['bin cr-read ' + res['hex']])[0]
    if not out.startswith('ok '):
        return 'Lean cloud/rain reader model: %s, the library read the file' % out[:40]
    _, kv = lib.parse_kv('x ' + out[3:])
    if (int(kv['nx']), int(kv['ny']), int(kv['nz'])) != (res['nx'], res['ny'], res['nz']):
        return 'grid model=%s,%s,%s reader=%s,%s,%s' % (kv['nx'], kv['ny'], kv['nz'], res['nx'], res['ny'], res['nz'])
    steps = [] if kv['steps'] == '-' else kv['steps'].split('|')
    if len(steps) != res['nt']:
        return 'steps model=%d reader=%d' % (len(steps), res['nt'])
    nv = len(case['names'])
    for t, st in enumerate(steps):
        _, _, slabs = st.split(':')
        rows = slabs.split(',')
        if len(rows) != res['nz'] * nv:
            return 'step %d: model has %d slabs, the reader %d layers x %d variables' % (t, len(rows), res['nz'], nv)
        for z in range(res['nz']):
            for vi, k in enumerate(case['names']):
                r = rows[z * nv + vi]
                ws = [int(r[i:i + 8], 16) for i in range(0, len(r), 8)] if r != '-' else []
                if ws != res['vars'][k][t][z]:
                    return 'step %d layer %d %s: the reader differs from the Lean reader model' % (t, z, k)
    return None


def _firstdiff(a, b):
    for i, (x, y) in enumerate(zip(a, b)):
        if x != y:
            return i // 2
    return min(len(a), len(b)) // 2


def oracle(case, res):
    if case.get('kind') == 'bpch':
        from . import c18
        return c18.oracle(case, res)
    if case['kind'] == 'wline':
        p = _wline_payload(case)
        want = (struct.pack('>i', len(p)) + p + struct.pack('>i', len(p))).hex()
        if 'err' in res:
            return None
        return None if res['hex'] == want else 'writeline(ForceBig=%s) wrote %s, a big-endian record of the %d payload bytes is %s' % (
            case['forcebig'], res['hex'][:60], len(p), want[:60])
    """independent python record walker: markers tile the file, header counts match, content recovered"""
    if case['kind'] == 'land':
        return L.oracle_layout(case, res)
    if case['kind'] == 'bnd':
        return _oracle_bnd(case, res)
    if case['kind'] == 'wread':
        from . import c13
        return c13.oracle(case, res)        # both readers present exactly the encoded steps, layers, U/V values and times
    if case['kind'] == 'wwrite':
        return _oracle_wind(case, res)
    if case['kind'] in ('cwrite', 'cread'):
        return _oracle_cr(case, res)
    if case['kind'] == 'sslice':
        return _oracle_slab(_windowed(case), res)
    if case['kind'] in ('swrite', 'sread'):
        return _oracle_slab(case, res)
    if 'err' in res:
        return 'raised %s %s' % (res['err'], res.get('msg'))
    nspec, nx, ny, nz, nt = len(case['species']), case['nx'], case['ny'], case['nz'], len(case['tflag'])
    if case['kind'] == 'write':
        b = bytes.fromhex(res['hex'])
        try:
            recs = camx.walk_records(b)
        except ValueError as e:
            return 'records do not tile the file: %s' % e
        if len(recs) != 4 + nt * (1 + nspec * nz):
            return '%d records, expected %d' % (len(recs), 4 + nt * (1 + nspec * nz))
        h = struct.unpack('>76i', recs[0][:304]) if len(recs[0]) == 304 else None
        if h is None:
            return 'first record has %d bytes' % len(recs[0])
        if h[71] != nspec:
            return 'header says %d species, file has %d' % (h[71], nspec)
        g = struct.unpack('>15i', recs[1]) if len(recs[1]) == 60 else None
        if g is None or (g[7], g[8], g[9]) != (nx, ny, nz):
            return 'grid header nx,ny,nz = %s, content %s' % (g and g[7:10], (nx, ny, nz))
        names = [recs[3][40 * i:40 * i + 40][0::4].decode().strip() for i in range(nspec)]
        if names != case['species']:
            return 'species names %s, written %s' % (names, case['species'])
        k = 4
        for t in range(nt):
            th = struct.unpack('>ifif', recs[k])
            k += 1
            bd, bt = case['tflag'][t]
            if th[0] != bd % 100000 or th[1] != bt // 10000:
                return 'time header %s of step %d, written %s' % (th, t, case['tflag'][t])
            ed, et = case['etflag'][t]
            if (th[2], th[3]) != (ed % 100000, et // 10000):
                if not (not case['with_etflag'] and _year_end(case['tflag'][t], case['tstep'])):
                    return 'end flag %s of step %d, expected %s' % (th[2:], t, (ed % 100000, et // 10000))
                return 'end flag of a step ending at midnight 31 Dec: %s, expected %s' % (th[2:], (ed % 100000, et // 10000))
            for si in range(nspec):
                for z in range(nz):
                    r = recs[k]
                    k += 1
                    if len(r) != 44 + 4 * nx * ny:
                        return 'data record of %d bytes' % len(r)
                    ws = list(struct.unpack('>%dI' % (nx * ny), r[44:]))
                    if ws != case['data'][t][si][z]:
                        return 'values of %s step %d layer %d differ from what was written' % (case['species'][si], t, z)
        return None
    # read: library presents exactly the encoded content
    if (res['nspec'], res['nx'], res['ny'], res['nz'], res['nt']) != (nspec, nx, ny, nz, nt):
        return 'library reads dimensions %s from a reference file of %s' % (
            (res['nspec'], res['nx'], res['ny'], res['nz'], res['nt']), (nspec, nx, ny, nz, nt))
    want = '|'.join(camx.hexwords([w for spc in step for lay in spc for w in lay]) for step in case['data'])
    if res['data'] != want:
        return 'library reads different values from the reference-encoded file'
    wt = lib.show_list(['%d:%d' % (a, b) for a, b in case['tflag']])
    if case['kind'] == 'read2':
        return None
    if res['tflag'] != wt:
        return 'library reads TFLAG %s from a reference file encoding %s' % (res['tflag'], wt)
    if res.get('tstep_attr') is not None and res['tstep_attr'] != case['tstep'] * 10000:
        # the writer falls back on this attribute for objects without ETFLAG
        return 'library presents TSTEP=%s for a file of %d-hour steps (first step %s to %s)' % (
            res['tstep_attr'], case['tstep'], case['tflag'][0], case['etflag'][0])
    return None


def _year_end(flag, tstep):
    import datetime as dt
    d, t = flag
    a = dt.datetime(d // 1000, 1, 1) + dt.timedelta(days=d % 1000 - 1, hours=t // 10000 + tstep)
    return a.month == 1 and a.day == 1 and a.hour == 0


KEY_CENT = 'C08/ConvertCAMxTime/century-crossing'
KEY_YEND = 'C08/uamiv-write/end-date-year-rollover'


def classify(case, failure, model_out):
    if case['kind'] in ('swrite', 'sread', 'sslice', 'cwrite', 'cread', 'wwrite', 'wread', 'bnd', 'land', 'bpch'):
        return None
    if failure.startswith('end flag of a step ending at midnight 31 Dec'):
        return KEY_YEND
    if 'TFLAG' in failure and _crosses_2000(case):
        return KEY_CENT
    return None


def _crosses_2000(case):
    ys = {d // 1000 for d, t in case['tflag']} | {d // 1000 for d, t in case['etflag']}
    return min(ys) < 2000 <= max(ys)


def nontrivial(case, res):
    if case.get('kind') == 'bpch':
        return 'err' not in res and len(case['blocks']) >= 2
    if case['kind'] == 'wline':
        return len(case['kinds']) >= 2
    if case['kind'] == 'land':
        return L.nontrivial(case, res)
    if case['kind'] == 'bnd':
        return len(case['tflag']) >= 2 or len(case['species']) >= 2
    if case['kind'] in ('swrite', 'sread', 'sslice', 'cwrite', 'cread', 'wwrite', 'wread'):
        return len({case['nz'], case['nx'] * case['ny'], len(case['flags'])} - {1}) >= 2
    dims = [len(case['species']), case['nx'] * case['ny'], case['nz'], len(case['tflag'])]
    return sum(1 for d in dims if d > 1) >= 2


def distribution(recs):
    d = {}
    for r in recs:
        c = r['case']
        d[c['kind']] = d.get(c['kind'], 0) + 1
        if c['kind'] == 'land':
            k = 'land_%s_%dopt' % ('new' if c['new'] else 'old', len(c['opts']))
            d[k] = d.get(k, 0) + 1
        elif c['kind'] in ('bpch', 'wline'):
            pass
        elif 'name' in c:
            d['name_' + c['name']] = d.get('name_' + c['name'], 0) + 1
        else:
            d['fmt_' + c['fmt']] = d.get('fmt_' + c['fmt'], 0) + 1
        if 'err' in r['impl']:
            d['err_' + r['impl']['err']] = d.get('err_' + r['impl']['err'], 0) + 1
    return d
