"""C01 — every operation yields a structurally well-formed file (sequences of operations)"""
import numpy as np

from .. import lib, pfile
from . import c02, c03, c10

ID = 'C01'
LEAN_MODULE = 'PncProofs.C01'
LEAN_FILE = 'PncProofs/C01.lean'
NAMESPACE = 'Props.C01'
LEAN_CONE = ['PncModel.Arr', 'PncModel.File', 'PncModel.Ioapi', 'PncProofs.FiberLemmas', 'PncProofs.C03', 'PncProofs.ArrLemmas', 'PncProofs.C01']
LEMMA_FILES = []
REQUIRED_THEOREMS = ['build_hasShape', 'mapCells_hasShape', 'zipCells_hasShape', 'mask_wf', 'insertDim_wf',
                     'rebuilt_shape', 'subset_wf', 'renameVar_wf', 'binop_wf', 'reorder_wf', 'removeSingleton_wf', 'renameDims_wf', 'renameDim_wf', 'apply_wf', 'applyAxes_spec']
RULE = ('random files (as C02) x random sequences of 1-6 operations (copy, sliceDimensions, applyAlongDimensions, '
        'subsetVariables, renameVariable, renameDimension, renameDimensions (several at once: chains, swaps, equal targets), insertDimension, removeSingleton, reorderDimensions, '
        'stack with itself, file arithmetic with itself and with a dimension-permuted copy, mask) with in-domain arguments plus ~10% out-of-domain '
        'ones; after EVERY step the real file is checked for well-formedness (oracle) and compared completely '
        '(dimensions with unlimited flags, variables, shapes, data, masks, attribute names) with the model; '
        'IOAPI files: the C10 sequences (copy, slice incl. list+integer windows, subset, rename, apply, eval, mask, stack, interpSigma) compared with the IOAPI model and judged by the same well-formedness predicate plus "TSTEP is unlimited"; non-trivial = at least two variables with different dimension sets and an operation that changes a length')
ASSUMPTIONS = ['interpDimension and eval are exercised by C17 / C06 rather than inside these sequences']
MIN_NONTRIVIAL = {'quick': 60, 'thorough': 600}


def _op(rng, st):
    """st: current dims {name: len}, vars {name: dims} (tracked from the model's point of view, best effort)"""
    dims, vs = st['dims'], st['vars']
    names = list(dims)
    k = rng.choice(['copy', 'slice', 'slice', 'apply', 'subset', 'renamevar', 'renamedim', 'renamedims', 'removesingleton',
                    'insertdim', 'reorder', 'stackself', 'binopself', 'maskgt'])
    bad = rng.random() < 0.08
    if k == 'copy' or not names:
        return ['copy']
    if k == 'slice':
        n = rng.choice(names)
        return ['slice', [[n, c02._sel(rng, max(dims[n], 1), rng.choice(['int', 'slice', 'list']))]]]
    if k == 'apply':
        n = 'nosuchdim' if bad else rng.choice(names)
        fn = rng.choice(['sum', 'min', 'max', 'rev', 'sub2', 'cumsum'])
        return ['apply', [[n, fn]]]
    if k == 'subset':
        if not vs:
            return ['copy']
        keys = rng.sample(sorted(vs), rng.randint(1, len(vs)))
        if bad:
            keys.append('nosuchvar')
        return ['subset', keys, rng.random() < 0.3]
    if k == 'renamevar':
        if not vs:
            return ['copy']
        old = 'nosuchvar' if bad else rng.choice(sorted(vs))
        return ['renamevar', old, rng.choice(['RENAMED', 'R2', old])]
    if k == 'renamedim':
        old = 'nosuchdim' if bad else rng.choice(names)
        new = rng.choice(['d_new', 'd_other', 'd_third', rng.choice(names)])
        return ['renamedim', old, new]
    if k == 'renamedims':
        # several dimensions in one call: fresh names, chains and swaps through existing names, the own name,
        # and (sometimes) the same target twice
        olds = rng.sample(names, rng.randint(1, min(3, len(names))))
        if bad:
            olds.append('nosuchdim')
        pool = ['d_new', 'd_other', 'd_third'] + names
        return ['renamedims', [[o, rng.choice(pool)] for o in olds]]
    if k == 'removesingleton':
        return ['removesingleton', rng.choice([None, None, rng.choice(names)])]
    if k == 'insertdim':
        return ['insertdim', rng.choice(['newd', 'extra']), rng.choice([1, 1, 2]), rng.random() < 0.8,
                rng.random() < 0.3, rng.choice([None, None, rng.choice(names)]), rng.choice([None, None, rng.choice(names)])]
    if k == 'reorder':
        order = list(names)
        rng.shuffle(order)
        if bad and len(order) > 1:
            order = order[:-1]
        return ['reorder', order]
    if k == 'stackself':
        return ['stackself', rng.choice(names)]
    if k == 'binopself':
        return ['binopself', rng.choice(['add', 'sub'])]
    return ['maskgt', rng.choice([1001, 2003, 3002, 5])]


def _case(rng):
    spec = pfile.gen_file(rng, maxlen=3)
    for v in spec['vars']:
        if v['dtype'] == 'f':
            v['dtype'] = 'd'
    st = dict(dims={d[0]: d[1] for d in spec['dims']}, vars={v['name']: v['dims'] for v in spec['vars']})
    ops = [_op(rng, st) for _ in range(rng.randint(1, 6))]
    if rng.random() < 0.15 and len(st['dims']) > 1:
        # harness-only last step (not sent to the model, judged by the well-formedness oracle): arithmetic with a
        # file whose variables have the same names but permuted dimensions (numpy broadcasting territory)
        order = list(st['dims'])
        rng.shuffle(order)
        ops.append(['binopperm', rng.choice(['add', 'mul']), order])
    return dict(spec=spec, ops=ops)


def gen(rng, tier):
    n = 300 if tier == 'quick' else 10000
    out = [_case(rng) for _ in range(n)]
    # IOAPI files (the subclass overrides most operations and re-derives dimensions and metadata): the C10 sequences,
    # judged here by the well-formedness predicate and the TSTEP-unlimited clause
    for _ in range(n // 6):
        out.append(dict(family='ioapi', c10=dict(src=c10._src(rng), recipes=[c10._recipe(rng) for _ in range(rng.randint(1, 4))])))
    return out


def _apply(f, op):
    k = op[0]
    if k == 'copy':
        return f.copy()
    if k == 'slice':
        return f.sliceDimensions(newdims=('POINTS',), **{n: c02._py(s) for n, s in op[1]})
    if k == 'apply':
        return f.applyAlongDimensions(**{n: (fn if fn in c03.REDUCERS else c03.PYFN[fn]) for n, fn in op[1]})
    if k == 'subset':
        return f.subsetVariables(list(op[1]), exclude=op[2])
    if k == 'renamevar':
        return f.renameVariable(op[1], op[2])
    if k == 'renamedim':
        return f.renameDimension(op[1], op[2])
    if k == 'renamedims':
        return f.renameDimensions(**{o: n for o, n in op[1]})
    if k == 'removesingleton':
        return f.removeSingleton(op[1])
    if k == 'insertdim':
        return f.insertDimension(newonly=op[3], multionly=op[4], before=op[5], after=op[6], **{op[1]: op[2]})
    if k == 'reorder':
        return f.reorderDimensions(list(f.dimensions), op[1])
    if k == 'stackself':
        return f.stack(f, op[1])
    if k == 'binopself':
        import operator
        return {'add': operator.add, 'sub': operator.sub, 'mul': operator.mul, 'gt': operator.gt}[op[1]](f, f)
    if k == 'binopperm':
        import operator
        other = f.reorderDimensions(list(f.dimensions), [d for d in op[2] if d in f.dimensions] +
                                    [d for d in f.dimensions if d not in op[2]])
        return {'add': operator.add, 'mul': operator.mul}[op[1]](f, other)
    if k == 'maskgt':
        return f.mask(greater=op[1])
    raise ValueError(k)


_wf = pfile.wellformed


def impl(case):
    if case.get('family') == 'ioapi':
        return c10.impl(case['c10'])
    f = pfile.build(case['spec'])
    states = []
    with lib.pnc_warnings():
        for op in case['ops']:
            try:
                with np.errstate(all='ignore'):
                    g = _apply(f, op)
            except Exception as e:
                states.append(dict(err=type(e).__name__, msg=str(e)[:80]))
                break
            un = {k: bool(f.dimensions[k].isunlimited()) for k in f.dimensions}
            states.append(dict(obs=pfile.observe(g), wf=_wf(g), unlim_before=un))
            f = g
    return dict(states=states)


def _tok(op):
    k = op[0]
    if k == 'slice':
        return 'slice@%s@POINTS' % ';'.join('%s=%s' % (n, c02._tok(s)) for n, s in op[1])
    if k == 'apply':
        return 'apply@%s' % ';'.join('%s=%s' % (n, fn) for n, fn in op[1])
    if k == 'subset':
        return 'subset@%s@%d' % ('.'.join(op[1]) or '-', 1 if op[2] else 0)
    if k == 'renamedims':
        return 'renamedims@%s' % ';'.join('%s=%s' % (o, n) for o, n in op[1])
    if k == 'removesingleton':
        return 'removesingleton@%s' % (op[1] or '_')
    if k == 'insertdim':
        return 'insertdim@%s@%d@%d@%d@%s@%s' % (op[1], op[2], 1 if op[3] else 0, 1 if op[4] else 0, op[5] or '_', op[6] or '_')
    if k == 'reorder':
        return 'reorder@%s' % ('.'.join(op[1]) or '-')
    return '@'.join(str(x) for x in op)


def to_line(case, res):
    if case.get('family') == 'ioapi':
        return c10.to_line(case['c10'], res)
    d, v, a = pfile.encode(case['spec'])
    return 'c01 run %s %s %s %s' % (d, v, a, ' '.join(_tok(op) for op in case['ops'] if op[0] != 'binopperm'))


def agree(case, out, res):
    if case.get('family') == 'ioapi':
        return c10.agree(case['c10'], out, res)
    mstates = out.split(' || ')
    for i, (ms, st) in enumerate(zip(mstates, res['states'])):
        if ms == 'err unspec':
            return None
        if 'err' in st:
            if ms.startswith('err'):
                return None
            return 'step %d (%s): impl raised %s (%s), model ok' % (i, case['ops'][i][0], st['err'], st.get('msg'))
        if not ms.startswith('ok '):
            return 'step %d (%s): model %s, impl returned' % (i, case['ops'][i][0], ms[:60])
        d = pfile.diff_obs_numeric(ms[3:], st['obs'])
        if d:
            return 'step %d (%s): %s' % (i, case['ops'][i][0], d)
    nmodel = len([op for op in case['ops'] if op[0] != 'binopperm'])
    if len(mstates) != min(len(res['states']), nmodel):
        return 'model ran %d steps, impl %d' % (len(mstates), len(res['states']))
    return None


def oracle(case, res):
    if case.get('family') == 'ioapi':
        if res.get('init_wf'):
            return 'the %s source file: %s' % (case['c10']['src']['kind'], res['init_wf'])
        for i, st in enumerate(res['states']):
            if 'err' in st:
                return None
            if st['wf']:
                return 'IOAPI file after step %d %s: %s' % (i, res['ops'][i], st['wf'])
            if st['tstep_unlimited'] is False:
                return 'IOAPI file after step %d %s: the TSTEP dimension is not unlimited' % (i, res['ops'][i])
        return None
    for i, st in enumerate(res['states']):
        if 'err' in st:
            return None         # raising is allowed outside the documented domain; in-domain completion is
                                # judged through the model (agree): the model knows the domain
        if st['wf']:
            return 'after step %d (%s): %s' % (i, case['ops'][i][0], st['wf'])
        got = pfile.parse_obs(st['obs'])
        renamed = case['ops'][i][0] in ('renamedim', 'renamedims')
        for k, (ln, u) in got['dims'].items():
            if k in st['unlim_before'] and not renamed:
                if (u == 'u') != st['unlim_before'][k]:
                    return 'after step %d (%s): dimension %s changed its unlimited flag' % (i, case['ops'][i][0], k)
    return None


def classify(case, failure, model_out):
    return None


def nontrivial(case, res):
    if case.get('family') == 'ioapi':
        return c10.nontrivial(case['c10'], res)
    sets = {tuple(sorted(v['dims'])) for v in case['spec']['vars']}
    return len(sets) >= 2 and any(op[0] in ('slice', 'apply', 'stackself', 'insertdim', 'removesingleton') for op in case['ops'])


def distribution(recs):
    d = {}
    for r in recs:
        if r['case'].get('family') == 'ioapi':
            for op, st in zip(r['impl']['ops'], r['impl']['states']):
                key = 'ioapi:' + op[0] + ('!' if 'err' in st else '')
                d[key] = d.get(key, 0) + 1
            continue
        for op, st in zip(r['case']['ops'], r['impl']['states']):
            key = op[0] + ('!' if 'err' in st else '')
            d[key] = d.get(key, 0) + 1
    return d
