"""C01 — every operation yields a structurally well-formed file (sequences of operations)"""
import numpy as np
from fractions import Fraction

from .. import lib, pfile
from . import c02, c03, c06, c10

ID = 'C01'
LEAN_MODULE = 'PncProofs.C01Seq'      # imports PncProofs.C01Files (which imports PncProofs.C01) and PncProofs.C06
LEAN_FILE = 'PncProofs/C01.lean'
MORE_LEAN_FILES = ['PncProofs/C01Files.lean', 'PncProofs/C01Seq.lean']
NAMESPACE = 'Props.C01'
LEAN_CONE = ['PncModel.Arr', 'PncModel.NsStep', 'PncModel.Generated.NamespaceOrder', 'PncModel.File', 'PncModel.Ioapi', 'PncProofs.FiberLemmas', 'PncProofs.C03', 'PncProofs.ArrLemmas', 'PncProofs.C01',
             'PncProofs.C02', 'PncProofs.C04', 'PncProofs.ZipLemmas', 'PncProofs.StackLemmas', 'PncProofs.SliceLemmas', 'PncProofs.C01Files', 'PncProofs.NamesLemmas', 'PncProofs.C06', 'PncProofs.C01Seq']
LEMMA_FILES = ['PncProofs/StackLemmas.lean', 'PncProofs/SliceLemmas.lean', 'PncProofs/ZipLemmas.lean']
REQUIRED_THEOREMS = ['build_hasShape', 'mapCells_hasShape', 'zipCells_hasShape', 'mask_wf', 'insertDim_wf',
                     'rebuilt_shape', 'subset_wf', 'renameVar_wf', 'binop_wf', 'reorder_wf', 'removeSingleton_wf', 'renameDims_wf', 'renameDim_wf', 'apply_wf', 'applyAxes_spec',
                     'stack_wf', 'slice_wf', "slice_wf'", 'insertDim_wf_all', 'stackSelf_wf', 'evalInto_inv', 'step_inv', 'seq_inv', 'seq_wf', 'step_unlim', 'seq_unlim']
RULE = ('random files (as C02) x random sequences of 1-6 operations (copy, sliceDimensions, applyAlongDimensions, '
        'subsetVariables, renameVariable, renameDimension, renameDimensions (several at once: chains, swaps, equal targets), insertDimension, removeSingleton, reorderDimensions, '
        'stack with itself, file arithmetic with itself and with a dimension-permuted copy, mask) with in-domain arguments plus ~10% out-of-domain '
        'ones; after EVERY step the real file is checked for well-formedness (oracle) and compared completely '
        '(dimensions with unlimited flags, variables, shapes, data, masks, attribute names) with the model; '
        'IOAPI files: the C10 sequences (copy, slice incl. list+integer windows, subset, rename, apply, eval, mask, stack, interpSigma) compared with the IOAPI model and judged by the same well-formedness predicate plus "TSTEP is unlimited"; scenarios outside the operation model, judged by the well-formedness predicate alone (getvarpnc on CF files with bounds variables, masked variables with packing attributes through eval / reorderDimensions / arithmetic / slice_dim, IOAPI files built with their own TFLAG and what is derived from them); non-trivial = at least two variables with different dimension sets and an operation that changes a length')
ASSUMPTIONS = ['interpDimension and eval are exercised by C17 / C06 rather than inside these sequences']
MIN_NONTRIVIAL = {'quick': 60, 'thorough': 600}


def _op(rng, st):
    """st: current dims {name: len}, vars {name: dims} (tracked from the model's point of view, best effort)"""
    dims, vs = st['dims'], st['vars']
    names = list(dims)
    k = rng.choice(['copy', 'slice', 'slice', 'apply', 'subset', 'renamevar', 'renamedim', 'renamedims', 'removesingleton',
                    'insertdim', 'reorder', 'stackself', 'binopself', 'maskgt', 'eval'])
    bad = rng.random() < 0.08
    if k == 'copy' or not names:
        return ['copy']
    if k == 'slice':
        n = rng.choice(names)
        return ['slice', [[n, c02._sel(rng, max(dims[n], 1), rng.choice(['int', 'slice', 'list']))]]]
    if k == 'apply':
        n = 'nosuchdim' if bad else rng.choice(names)
        fn = rng.choice(['sum', 'min', 'max', 'rev', 'sub2', 'cumsum'])
        return ['apply', [[n, fn]]]
    if k == 'subset':
        if not vs:
            return ['copy']
        keys = rng.sample(sorted(vs), rng.randint(1, len(vs)))
        if bad:
            keys.append('nosuchvar')
        return ['subset', keys, rng.random() < 0.3]
    if k == 'renamevar':
        if not vs:
            return ['copy']
        old = 'nosuchvar' if bad else rng.choice(sorted(vs))
        return ['renamevar', old, rng.choice(['RENAMED', 'R2', old])]
    if k == 'renamedim':
        old = 'nosuchdim' if bad else rng.choice(names)
        new = rng.choice(['d_new', 'd_other', 'd_third', rng.choice(names)])
        return ['renamedim', old, new]
    if k == 'renamedims':
        # several dimensions in one call: fresh names, chains and swaps through existing names, the own name,
        # and (sometimes) the same target twice
        olds = rng.sample(names, rng.randint(1, min(3, len(names))))
        if bad:
            olds.append('nosuchdim')
        pool = ['d_new', 'd_other', 'd_third'] + names
        return ['renamedims', [[o, rng.choice(pool)] for o in olds]]
    if k == 'removesingleton':
        return ['removesingleton', rng.choice([None, None, rng.choice(names)])]
    if k == 'insertdim':
        # a new name, or the name of an existing dimension (the file's own, possibly unlimited, axis added to the variables
        # that lack it: newonly=True exists for that; the length asked for is then ignored)
        return ['insertdim', rng.choice(['newd', 'extra'] + (names if rng.random() < 0.35 else [])), rng.choice([1, 1, 2]), rng.random() < 0.8,
                rng.random() < 0.3, rng.choice([None, None, rng.choice(names)]), rng.choice([None, None, rng.choice(names)])]
    if k == 'reorder':
        order = list(names)
        rng.shuffle(order)
        if bad and len(order) > 1:
            order = order[:-1]
        return ['reorder', order]
    if k == 'stackself':
        return ['stackself', rng.choice(names)]
    if k == 'binopself':
        return ['binopself', rng.choice(['add', 'sub'])]
    if k == 'eval':
        # `eval('T = expr', inplace=True)` over double variables that started with one dimension tuple (earlier steps may have
        # renamed or removed them: then the name error is the answer of both sides); the target is new or one of them
        fl = sorted(n for n in vs if st['dtype'].get(n) == 'd')
        if not fl:
            return ['copy']
        a = rng.choice(fl)
        same = [n for n in fl if vs[n] == vs[a]]
        other = ['var', rng.choice(same)] if rng.random() < 0.7 else ['lit', str(Fraction(rng.randint(-4, 4), 2))]
        e = ['bin', rng.choice(['add', 'sub', 'mul']), ['var', a], other]
        if rng.random() < 0.3:
            e = ['neg', e]
        if bad:
            e = ['bin', 'add', e, ['var', 'nosuchvar']]
        return ['eval', rng.choice(['NEWV', 'NEWV', a, rng.choice(same)]), e]
    return ['maskgt', rng.choice([1001, 2003, 3002, 5])]


def _case(rng):
    spec = pfile.gen_file(rng, maxlen=3)
    for v in spec['vars']:
        if v['dtype'] == 'f':
            v['dtype'] = 'd'
    st = dict(dims={d[0]: d[1] for d in spec['dims']}, vars={v['name']: v['dims'] for v in spec['vars']},
              dtype={v['name']: v['dtype'] for v in spec['vars']})
    st0 = dict(st['dims'])
    ops = [_op(rng, st) for _ in range(rng.randint(1, 6))]
    if rng.random() < 0.15 and len(st['dims']) > 1:
        # harness-only last step (not sent to the model, judged by the well-formedness oracle): arithmetic with a
        # file whose variables have the same names but permuted dimensions (numpy broadcasting territory)
        order = list(st['dims'])
        rng.shuffle(order)
        ops.append(['binopperm', rng.choice(['add', 'mul']), order])
    case = dict(spec=spec, ops=ops)
    if rng.random() < 0.2:
        # an index list given as a boolean mask over the dimension (the first selection of the sequence)
        for op in ops:
            if op[0] == 'slice' and op[1][0][1][0] == 'l':
                n = st0[op[1][0][0]]
                if n:
                    op[1][0][1] = ['b', sorted(set(i % n for i in op[1][0][1][1])), n]
            break
    if rng.random() < 0.25:
        # the operations that have an in-place form are run in that form (harness-only: the model's answer is the same)
        case['inplace'] = True
    return case


def _scenario(rng):
    """scenarios outside the operation model, judged by the well-formedness predicate on the real objects after every
    step: (a) getvarpnc (pncparse -v, merge, manglenames) on a CF-style file whose dimension coordinates name bounds
    variables with a dimension of their own; (b) masked variables carrying packing attributes through operations that
    store derived arrays (eval, reorderDimensions, file arithmetic, legacy slice_dim); (c) IOAPI files constructed with
    their own TFLAG (from_arrays(..., TFLAG=...), hand-built + updatemeta) and what is derived from them"""
    k = rng.choice(['getvar', 'getvar', 'packed', 'packed', 'ioapi_tflag', 'evalshape', 'ioapi_addvar', 'maskshare', 'subsetcoords',
                    'ndpoints', 'ioapi_scalar'])
    if k == 'ndpoints':
        # the documented N-D form of the pointwise selection: index arrays of one 2-D shape, as many new dimension names
        ny, nx = rng.randint(2, 4), rng.randint(2, 5)
        p, q = rng.randint(1, 3), rng.randint(2, 3)
        return dict(family='scenario', kind=k, nt=rng.randint(1, 3), ny=ny, nx=nx,
                    iy=[[rng.randrange(ny) for _ in range(q)] for _ in range(p)], ix=[[rng.randrange(nx) for _ in range(q)] for _ in range(p)])
    if k == 'ioapi_scalar':
        # a scalar computed from global attributes in an IOAPI file (no variable lends its dimensions), new file or in place
        return dict(family='scenario', kind=k, nt=rng.randint(1, 2), nz=rng.randint(1, 2), ny=rng.randint(1, 3), nx=rng.randint(1, 3),
                    inplace=rng.random() < 0.5, then=rng.choice(['copy', 'none', 'slice']))
    if k == 'subsetcoords':
        # subsetVariables on a file whose list of coordinate names is ahead of (or behind) its variables: a coordinate
        # variable was renamed, a name was registered before the variable exists; the names given as a list or a tuple
        return dict(family='scenario', kind=k, nx=rng.randint(1, 3), ny=rng.randint(1, 3),
                    how=rng.choice(['renamed', 'ahead', 'plain']), astuple=rng.random() < 0.5, exclude=rng.random() < 0.3)
    if k == 'evalshape':
        # eval with its default arguments where the first variable named has fewer dimensions than the result
        return dict(family='scenario', kind=k, nt=rng.randint(1, 2), nl=rng.randint(1, 3), ny=rng.randint(1, 2), nx=rng.randint(1, 3),
                    expr=rng.choice(['WGT = np.asarray(lev)[None, :, None, None] / 2. * TEMP', 'N = float(AREA.max()) ** -1 * TEMP',
                                     'Q = TEMP * 2', 'M = np.asarray(AREA)[None, None, :, :] * TEMP']), coords=rng.random() < 0.5)
    if k == 'ioapi_addvar':
        # a variable is added to an existing IOAPI file before operations that are built on a full copy
        return dict(family='scenario', kind=k, seed=rng.randrange(1 << 30), how=rng.choice(['create', 'copyvar']),
                    ops=[rng.choice(['copy', 'renamedim', 'subset', 'applyrow', 'mask']) for _ in range(rng.randint(1, 2))])
    if k == 'maskshare':
        # mask() of a file with declared coordinates, then an in-place dimension rename on either file: both stay well-formed
        return dict(family='scenario', kind=k, n0=rng.randint(1, 3), n1=rng.randint(1, 3), which=rng.choice(['input', 'result']),
                    coordsarg=rng.random() < 0.3)
    if k == 'getvar':
        nt, nx, ny = rng.randint(1, 3), rng.randint(1, 3), rng.randint(1, 3)
        coords = rng.sample(['time', 'x', 'y'], rng.randint(1, 3))      # dimension coordinates that exist
        bounds = [c for c in coords if rng.random() < 0.7]               # those with a bounds variable
        data = [['A', ['time', 'x']], ['B', ['x']], ['C', ['time', 'y', 'x']], ['D', ['y']]]
        pick = rng.sample([d[0] for d in data], rng.randint(1, 3))
        return dict(family='scenario', kind=k, nt=nt, nx=nx, ny=ny, coords=coords, bounds=bounds, pick=pick,
                    declared=rng.random() < 0.3, unlimited=rng.random() < 0.5,
                    then=rng.choice(['copy', 'slice', 'none']))
    if k == 'packed':
        return dict(family='scenario', kind=k, n0=rng.randint(1, 3), n1=rng.randint(1, 3),
                    attrs=rng.sample(['scale_factor', 'add_offset', 'valid_min', 'units', 'missing_value'], rng.randint(1, 4)),
                    masked=rng.random() < 0.8,
                    ops=[rng.choice(['evalexpr', 'evalname', 'reorder', 'binop', 'slice_dim', 'copy', 'mask', 'apply',
                                     # results of eval / pncexpr that are plain arrays or reduced (either a well-formed file or an
                                     # error), arithmetic on a masked rank-0 variable, a copy under a longer dimension tuple
                                     'evalreduce', 'pncexprreduce', 'evalscalar', 'copyvardims'])
                         for _ in range(rng.randint(1, 3))])
    ops = [rng.choice(['slice_t', 'slice_l', 'apply_l', 'copy', 'subset']) for _ in range(rng.randint(1, 3))]
    if rng.random() < 0.3:
        ops[-1] = 'removesingleton'      # last only: what it returns for a one-layer file is no IOAPI file any more
    return dict(family='scenario', kind=k, nt=rng.randint(1, 3), nz=rng.randint(1, 2), ny=rng.randint(1, 3), nx=rng.randint(1, 3),
                how=rng.choice(['from_arrays', 'from_arrays', 'handbuilt']), nvars=rng.randint(1, 2), ops=ops)


def _impl_scenario(c):
    import PseudoNetCDF as pnc
    states = []

    def rec(g, label):
        st = dict(step=label, wf=_wf(g))
        if c['kind'] in ('ioapi_tflag', 'ioapi_addvar'):
            st['tstep_unlimited'] = bool(g.dimensions['TSTEP'].isunlimited()) if 'TSTEP' in g.dimensions else None
        states.append(st)
    with lib.pnc_warnings(), np.errstate(all='ignore'):
        try:
            if c['kind'] == 'ndpoints':
                f = pnc.PseudoNetCDFFile()
                for dk, n in (('time', c['nt']), ('y', c['ny']), ('x', c['nx'])):
                    f.createDimension(dk, n)
                a = f.createVariable('A', 'd', ('time', 'y', 'x'))
                a[:] = np.arange(a.size, dtype='d').reshape(a.shape)
                m = f.createVariable('M', 'd', ('y', 'x'), fill_value=-999.)
                m[:] = np.ma.masked_greater(np.arange(m.size, dtype='d').reshape(m.shape), m.size - 2)
                rec(f, 'built')
                g = f.sliceDimensions(newdims=('PA', 'PB'), y=np.array(c['iy']), x=np.array(c['ix']))
                rec(g, 'sliceDimensions')
                want = np.arange(a.size, dtype='d').reshape(a.shape)[:, np.array(c['iy']), np.array(c['ix'])]
                got = np.asarray(g.variables['A'][:])
                if got.shape != want.shape or not (got == want).all():
                    states.append(dict(err='Content', msg='A has shape %s, numpy gives %s' % (got.shape, want.shape)))
            elif c['kind'] == 'scalarfunc':
                # a 1-D function that returns a scalar (np.max, a range) along the LEADING dimension: numpy drops the axis, the
                # file keeps it with length 1 (the daily maximum over time)
                f = pnc.PseudoNetCDFFile()
                for dk, n in (('time', c['nt']), ('lev', c['nz']), ('lat', c['ny'])):
                    f.createDimension(dk, n)
                tv = f.createVariable('time', 'd', ('time',))
                tv[:] = np.arange(c['nt'], dtype='d')
                a = f.createVariable('A', 'd', ('time', 'lev', 'lat'))
                a[:] = (np.arange(a.size, dtype='d').reshape(a.shape) * 7) % 11
                b = f.createVariable('B', 'd', ('lev',))
                b[:] = 1
                rec(f, 'built')
                fn = {'max': np.max, 'sum': np.sum, 'range': (lambda x: x[-1] - x[0])}[c['fn']]
                g = f.applyAlongDimensions(time=fn)
                rec(g, 'applyAlongDimensions(time=%s)' % c['fn'])
                want = np.apply_along_axis(fn, 0, (np.arange(a.size, dtype='d').reshape(a.shape) * 7) % 11)[None]
                got = np.asarray(g.variables['A'][:])
                if got.shape != want.shape or not (got == want).all():
                    states.append(dict(err='Content', msg='A has shape %s values %s, numpy gives %s %s' % (
                        got.shape, got.ravel()[:4], want.shape, want.ravel()[:4])))
                rec(g.copy(), 'copy')
            elif c['kind'] == 'pncrename_existing':
                # the functional front end of rename, onto a name that exists already (outside the domain: it raises, or what
                # it returns is well formed)
                from PseudoNetCDF.core._functions import pncrename
                f = pnc.PseudoNetCDFFile()
                f.createDimension('lat', c['ny'])
                f.createDimension('lon', c['nx'])
                v = f.createVariable('V', 'd', ('lat', 'lon'))
                v[:] = 0
                w = f.createVariable('W', 'd', ('lon',))
                w[:] = 1
                rec(f, 'built')
                try:
                    g = pncrename(f, 'd,lat,lon')
                except (ValueError, KeyError):
                    g = None
                if g is not None:
                    rec(g, "pncrename 'd,lat,lon'")
                g = pncrename(f, 'd,lat,y')
                rec(g, "pncrename 'd,lat,y'")
            elif c['kind'] == 'ioapi_points_cf':
                # an IOAPI file that also has the 1-D CF coordinates y(ROW), x(COL); a pointwise ROW / COL selection
                from . import c10 as c10_
                f, _ = c10_.build(dict(kind='arrays', lv=[64, 55, 22, 5], name16=False, nc=c['nx'], nl=1, nr=c['ny'], nt=c['nt'], nv=1,
                                       owntflag=False, sdate=2019365, stime=220000, tstep=10000, withcf=False))
                for k, d, n in (('y', 'ROW', c['ny']), ('x', 'COL', c['nx'])):
                    if k in c['which']:
                        cv = pnc.PseudoNetCDFFile.createVariable(f, k, 'd', (d,))
                        cv[:] = np.arange(n, dtype='d')
                rec(f, 'built')
                g = f.sliceDimensions(ROW=c['iy'], COL=c['ix'])
                rec(g, 'sliceDimensions(ROW=%s, COL=%s)' % (c['iy'], c['ix']))
                rec(g.copy(), 'copy')
            elif c['kind'] == 'stack_disk_one':
                # two files opened from netCDF, the second given to stack as it is (documented: an instance or a list)
                import os
                import tempfile
                import shutil
                d = tempfile.mkdtemp(prefix='pncverif_c01s_')
                try:
                    f = pnc.PseudoNetCDFFile()
                    f.createDimension('t', c['nt']).setunlimited(True)
                    f.createDimension('x', c['nx'])
                    a = f.createVariable('A', 'd', ('t', 'x'))
                    a[:] = np.arange(a.size, dtype='d').reshape(a.shape)
                    b = f.createVariable('B', 'd', ('x',))
                    b[:] = 1
                    p1 = os.path.join(d, 'a.nc')
                    f.save(p1, verbose=0).close()
                    n1, n2 = pnc.pncopen(p1, format='netcdf'), pnc.pncopen(p1, format='netcdf')
                    rec(n1, 'opened')
                    for first, lab in ((n1, 'disk.stack(disk)'), (f, 'memory.stack(disk)')):
                        g = first.stack(n2, 't')
                        rec(g, lab)
                        if g.variables['A'].shape != (2 * c['nt'], c['nx']):
                            states.append(dict(err='Content', msg='%s: A has shape %s' % (lab, g.variables['A'].shape)))
                finally:
                    shutil.rmtree(d, True)
            elif c['kind'] == 'ioapi_scalar':
                from PseudoNetCDF.cmaqfiles._ioapi import ioapi_base
                nt, nz, ny, nx = c['nt'], c['nz'], c['ny'], c['nx']
                f = ioapi_base.from_arrays(fileattrs=dict(SDATE=2019001, STIME=0, TSTEP=10000, XCELL=np.float64(1000.), YCELL=np.float64(500.), XORIG=0., YORIG=0.,
                                                          VGLVLS=np.linspace(1, 0, nz + 1).astype('f'), VGTOP=np.float32(5000)),
                                           O3=np.arange(nt * nz * ny * nx, dtype='f').reshape(nt, nz, ny, nx))
                rec(f, 'from_arrays')
                g = f.eval('AREA = XCELL * YCELL', inplace=c['inplace'])
                rec(g, 'eval')
                if c['then'] == 'copy':
                    rec(g.copy(), 'copy')
                elif c['then'] == 'slice':
                    rec(g.sliceDimensions(ROW=0), 'sliceDimensions')
            elif c['kind'] == 'subsetcoords':
                f = pnc.PseudoNetCDFFile()
                f.createDimension('x', c['nx'])
                f.createDimension('y', c['ny'])
                for name, dims in (('x', ('x',)), ('y', ('y',)), ('A', ('y', 'x')), ('B', ('x',))):
                    v = f.createVariable(name, 'd', dims)
                    v[...] = np.arange(v.size, dtype='d').reshape(v.shape)
                f.setCoords(['x', 'y'])
                rec(f, 'built')
                if c['how'] == 'renamed':
                    f = f.renameVariables(x='xx')
                    rec(f, 'renameVariables')
                elif c['how'] == 'ahead':
                    f.setCoords(['lat'], missing='ignore')
                keys = ('B',) if c['exclude'] else ('A',)
                g = f.subsetVariables(keys if c['astuple'] else list(keys), exclude=c['exclude'])
                rec(g, 'subsetVariables')
                if 'A' not in g.variables or 'B' in g.variables:
                    states.append(dict(err='Content', msg='subsetVariables kept %s' % sorted(g.variables)))
            elif c['kind'] == 'getvar':
                from PseudoNetCDF.core._functions import getvarpnc
                f = pnc.PseudoNetCDFFile()
                lens = dict(time=c['nt'], x=c['nx'], y=c['ny'])
                for d, n in lens.items():
                    dv = f.createDimension(d, n)
                    if d == 'time' and c['unlimited']:
                        dv.setunlimited(True)
                f.createDimension('nv', 2)
                for d in c['coords']:
                    v = f.createVariable(d, 'd', (d,))
                    v[:] = np.arange(lens[d]) + 0.5
                    v.units = 'hours since 2000-01-01' if d == 'time' else 'm'
                    if d in c['bounds']:
                        v.bounds = d + '_bounds'
                        b = f.createVariable(d + '_bounds', 'd', (d, 'nv'))
                        b[:, 0] = np.arange(lens[d])
                        b[:, 1] = np.arange(lens[d]) + 1
                for name, dims in [['A', ['time', 'x']], ['B', ['x']], ['C', ['time', 'y', 'x']], ['D', ['y']]]:
                    v = f.createVariable(name, 'f', tuple(dims))
                    v[...] = np.arange(int(np.prod([lens[d] for d in dims]))).reshape([lens[d] for d in dims])
                    v.units = 'ppb'
                if c['declared']:
                    f.setCoords(list(c['coords']) + [d + '_bounds' for d in c['bounds']])
                rec(f, 'source')
                g = getvarpnc(f, list(c['pick']))
                rec(g, 'getvarpnc %s' % c['pick'])
                if c['then'] == 'copy':
                    rec(g.copy(), 'copy')
                elif c['then'] == 'slice':
                    d0 = list(g.dimensions)[0]
                    rec(g.sliceDimensions(**{d0: 0}), 'slice %s' % d0)
            elif c['kind'] == 'evalshape':
                f = pnc.PseudoNetCDFFile()
                for dk, n in (('time', c['nt']), ('lev', c['nl']), ('lat', c['ny']), ('lon', c['nx'])):
                    f.createDimension(dk, n)
                lv = f.createVariable('lev', 'd', ('lev',))
                lv[:] = np.arange(c['nl']) + 1.
                ar = f.createVariable('AREA', 'd', ('lat', 'lon'))
                ar[:] = 2.
                tv = f.createVariable('TEMP', 'd', ('time', 'lev', 'lat', 'lon'))
                tv[:] = np.arange(c['nt'] * c['nl'] * c['ny'] * c['nx']).reshape(c['nt'], c['nl'], c['ny'], c['nx'])
                if c['coords']:
                    f.setCoords(['lev'])
                rec(f, 'source')
                rec(f.eval(c['expr']), 'eval ' + c['expr'])
            elif c['kind'] == 'ioapi_addvar':
                import random as _r
                from . import c10
                rr = _r.Random(c['seed'])
                src = c10._src(rr)
                src.update(kind='arrays', withcf=False)
                f, _ = c10.build(src)
                rec(f, 'source')
                k0 = [k_ for k_ in f.variables if k_ != 'TFLAG'][0]
                if c['how'] == 'create':
                    nv = f.createVariable('NEWV', 'f', f.variables[k0].dimensions)
                    nv[...] = 1
                    nv.units = 'ppm'.ljust(16)
                    nv.long_name = 'NEWV'.ljust(16)
                    nv.var_desc = 'NEWV'.ljust(80)
                else:
                    f.copyVariable(f.variables[k0], key='NEWV')
                rec(f, 'added a variable (%s)' % c['how'])
                for op in c['ops']:
                    if op == 'copy':
                        f = f.copy()
                    elif op == 'renamedim':
                        f = f.renameDimensions(ROW='ROW')       # a call built on a full copy that renames nothing
                    elif op == 'subset':
                        f = f.subsetVariables([k0, 'NEWV'])
                    elif op == 'applyrow':
                        f = f.applyAlongDimensions(ROW='mean')
                    else:
                        f = f.mask(greater=1e30)
                    rec(f, op)
            elif c['kind'] == 'maskshare':
                f = pnc.PseudoNetCDFFile()
                f.createDimension('lat', c['n0'])
                f.createDimension('lon', c['n1'])
                for dk, n in (('lat', c['n0']), ('lon', c['n1'])):
                    cv = f.createVariable(dk, 'd', (dk,))
                    cv[:] = np.arange(n) * 1.5
                dv = f.createVariable('D', 'd', ('lat', 'lon'))
                dv[:] = np.arange(c['n0'] * c['n1']).reshape(c['n0'], c['n1'])
                f.setCoords(['lat', 'lon'])
                g = f.mask(greater=2, coords=c['coordsarg'])
                rec(g, 'mask')
                if c['which'] == 'input':
                    f.renameDimension('lat', 'y', inplace=True)
                else:
                    g.renameDimensions(lon='x', inplace=True)
                rec(f, 'input after the in-place rename of the %s' % c['which'])
                rec(g, 'mask result after the in-place rename of the %s' % c['which'])
            elif c['kind'] == 'packed':
                f = pnc.PseudoNetCDFFile()
                f.createDimension('a', c['n0'])
                f.createDimension('b', c['n1'])
                kw = dict(fill_value=-999.) if c['masked'] else {}
                P = f.createVariable('P', 'f', ('a', 'b'), **kw)
                vals = np.arange(c['n0'] * c['n1'], dtype='f').reshape(c['n0'], c['n1']) + 1
                P[...] = np.ma.masked_values(vals, 2.) if c['masked'] else vals
                for a in c['attrs']:
                    setattr(P, a, {'scale_factor': 0.5, 'add_offset': 10., 'valid_min': 0., 'units': 'K', 'missing_value': -999.}[a])
                R = f.createVariable('R', 'f', ('b',))
                R[...] = np.arange(c['n1'])
                S = f.createVariable('S', 'f', (), fill_value=-999.)
                S[...] = 4.
                rec(f, 'source')
                for op in c['ops']:
                    if op in ('evalreduce', 'pncexprreduce'):
                        from PseudoNetCDF.core._functions import pncexpr
                        if 'P' not in f.variables or len(f.variables['P'].dimensions) < 2:
                            continue
                        expr = ['Q2 = np.asarray(P).sum(0)', 'Q2 = P.mean(1)', 'Q2 = np.ma.masked_greater(P[:], 3).max(0)',
                                'Q2 = P[0]'][(c['n0'] + c['n1'] + len(c['ops'])) % 4]
                        try:
                            f = f.eval(expr, inplace=False, copyall=True) if op == 'evalreduce' else pncexpr(expr, f)
                        except ValueError:
                            continue        # refusing a result that does not fit its dimensions is fine
                    elif op == 'evalscalar':
                        if 'S' not in f.variables:
                            continue
                        f = f.eval('H = S / 2', inplace=False, copyall=True)
                    elif op == 'copyvardims':
                        if 'R' not in f.variables or f.variables['R'].dimensions != ('b',) or 'a' not in f.dimensions:
                            continue
                        f = f.copy()
                        f.copyVariable(f.variables['R'], key='R2', dimensions=('a', 'b'))
                    elif op == 'evalexpr':
                        f = f.eval('Q = P * 2', inplace=False, copyall=True)
                    elif op == 'evalname':
                        f = f.eval('Q = P', inplace=False, copyall=True)
                    elif op == 'reorder':
                        f = f.reorderDimensions(['a', 'b'], ['b', 'a'])
                    elif op == 'binop':
                        f = f + f
                    elif op == 'slice_dim':
                        from PseudoNetCDF.core._functions import slice_dim
                        f = slice_dim(f, 'a,0,1')
                    elif op == 'mask':
                        f = f.mask(greater=1e9)
                    elif op == 'apply':
                        f = f.applyAlongDimensions(b='max')
                    else:
                        f = f.copy()
                    rec(f, op)
            else:
                from PseudoNetCDF.cmaqfiles._ioapi import ioapi_base
                nt, nz, ny, nx = c['nt'], c['nz'], c['ny'], c['nx']
                names = ['O3', 'NO2'][:c['nvars']]
                tflag = np.zeros((nt, len(names), 2), dtype='i')
                tflag[:, :, 0] = 2019001
                tflag[:, :, 1] = (np.arange(nt) * 10000)[:, None]
                arrs = {k: np.arange(nt * nz * ny * nx, dtype='f').reshape(nt, nz, ny, nx) + i for i, k in enumerate(names)}
                fattrs = dict(SDATE=2019001, STIME=0, TSTEP=10000, NVARS=len(names), NLAYS=nz, NROWS=ny, NCOLS=nx,
                              VGLVLS=np.linspace(1, 0, nz + 1).astype('f'), VGTOP=np.float32(5000), VGTYP=7, GDTYP=2,
                              XORIG=0., YORIG=0., XCELL=1000., YCELL=1000., FTYPE=1, NTHIK=1, GDNAM='G'.ljust(16),
                              UPNAM='U'.ljust(16), FILEDESC='x'.ljust(80), HISTORY=' '.ljust(80), P_ALP=30., P_BET=60., P_GAM=-97.,
                              XCENT=-97., YCENT=40.)
                setattr_list = ''.join(k.ljust(16) for k in names)
                if c['how'] == 'from_arrays':
                    fa = dict(fattrs)
                    fa['VAR-LIST'] = setattr_list
                    f = ioapi_base.from_arrays(fileattrs=fa, TFLAG=tflag, **arrs)
                else:
                    f = ioapi_base()
                    for k_, v_ in fattrs.items():
                        setattr(f, k_, v_)
                    setattr(f, 'VAR-LIST', setattr_list)
                    for d, n in (('TSTEP', nt), ('DATE-TIME', 2), ('LAY', nz), ('VAR', len(names)), ('ROW', ny), ('COL', nx)):
                        f.createDimension(d, n)
                    tv = f.createVariable('TFLAG', 'i', ('TSTEP', 'VAR', 'DATE-TIME'))
                    tv[...] = tflag
                    tv.units = '<YYYYDDD,HHMMSS>'
                    tv.long_name = 'TFLAG'.ljust(16)
                    tv.var_desc = 'TFLAG'.ljust(80)
                    for k_ in names:
                        v = f.createVariable(k_, 'f', ('TSTEP', 'LAY', 'ROW', 'COL'))
                        v[...] = arrs[k_]
                        v.units = 'ppb'.ljust(16)
                        v.long_name = k_.ljust(16)
                        v.var_desc = k_.ljust(80)
                    f.updatemeta()
                rec(f, c['how'])
                for op in c['ops']:
                    if op == 'slice_t':
                        f = f.sliceDimensions(TSTEP=slice(0, max(1, nt - 1)))
                    elif op == 'slice_l':
                        f = f.sliceDimensions(LAY=[0])
                    elif op == 'apply_l':
                        f = f.applyAlongDimensions(LAY='mean')
                    elif op == 'removesingleton':
                        f = f.removeSingleton()
                    elif op == 'subset':
                        f = f.subsetVariables([names[0]])
                    else:
                        f = f.copy()
                    rec(f, op)
        except Exception as e:
            states.append(dict(err=type(e).__name__, msg=str(e)[:100]))
    return dict(states=states)


def gen(rng, tier):
    n = 300 if tier == 'quick' else 10000
    out = [_case(rng) for _ in range(n)]
    out += [_scenario(rng) for _ in range(n // 5)]
    # on every run: sequences that begin with a boolean mask over a dimension (some True, not all)
    got = 0
    for _ in range(200):
        c = _case(rng)
        big = [d for d in c['spec']['dims'] if d[1] >= 2]
        if not big or c.get('inplace'):
            continue
        d = rng.choice(big)
        keep = sorted(rng.sample(range(d[1]), rng.randint(1, d[1] - 1)))
        c['ops'] = [['slice', [[d[0], ['b', keep, d[1]]]]]] + [op for op in c['ops'] if op[0] in ('copy', 'renamevar', 'maskgt', 'binopself')][:2]
        out.append(c)
        got += 1
        if got >= max(3, n // 100):
            break
    # on every run: the functional rename onto an existing name, a pointwise selection of an IOAPI file that has the 1-D CF
    # coordinates, one file from disk as the argument of stack
    for _ in range(max(2, n // 100)):
        ny, nx = rng.randint(2, 4), rng.randint(2, 4)
        out.append(dict(family='scenario', kind='pncrename_existing', ny=ny, nx=nx))
        npts = rng.randint(1, 3)
        out.append(dict(family='scenario', kind='ioapi_points_cf', ny=ny, nx=nx, nt=rng.randint(1, 2), which=rng.choice(['y', 'x', 'yx']),
                        iy=[rng.randrange(ny) for _ in range(npts)], ix=[rng.randrange(nx) for _ in range(npts)]))
        out.append(dict(family='scenario', kind='stack_disk_one', nt=rng.randint(1, 3), nx=rng.randint(1, 3)))
        out.append(dict(family='scenario', kind='scalarfunc', nt=rng.randint(1, 3), nz=rng.randint(1, 3), ny=rng.randint(1, 3),
                        fn=rng.choice(['max', 'sum', 'range'])))
    # IOAPI files (the subclass overrides most operations and re-derives dimensions and metadata): the C10 sequences,
    # judged here by the well-formedness predicate and the TSTEP-unlimited clause
    for _ in range(n // 6):
        out.append(dict(family='ioapi', c10=dict(src=c10._src(rng), recipes=[c10._recipe(rng) for _ in range(rng.randint(1, 4))])))
    return out


def _apply(f, op, inplace=False):
    k = op[0]
    if inplace and k == 'subset' and any(n not in f.variables for n in op[1]):
        inplace = False      # the in-place form ignores names that are no variables (the copying form raises): not specified
    if inplace and k in ('subset', 'renamevar', 'renamedim', 'renamedims', 'insertdim', 'reorder'):
        # the in-place form of the operation: it must leave the receiver as the copying form leaves its result
        kw = dict(inplace=True)
        if k == 'subset':
            return f.subsetVariables(list(op[1]), exclude=op[2], **kw)
        if k == 'renamevar':
            return f.renameVariable(op[1], op[2], **kw)
        if k == 'renamedim':
            return f.renameDimension(op[1], op[2], **kw)
        if k == 'renamedims':
            return f.renameDimensions(**dict(kw, **{o: n for o, n in op[1]}))
        if k == 'insertdim':
            return f.insertDimension(newonly=op[3], multionly=op[4], before=op[5], after=op[6], **dict(kw, **{op[1]: op[2]}))
        if k == 'reorder':
            return f.reorderDimensions(list(f.dimensions), op[1], **kw)
    if k == 'copy':
        return f.copy()
    if k == 'slice':
        return f.sliceDimensions(newdims=('POINTS',), **{n: c02._py(s) for n, s in op[1]})
    if k == 'apply':
        return f.applyAlongDimensions(**{n: (fn if fn in c03.REDUCERS else c03.PYFN[fn]) for n, fn in op[1]})
    if k == 'subset':
        return f.subsetVariables(list(op[1]), exclude=op[2])
    if k == 'renamevar':
        return f.renameVariable(op[1], op[2])
    if k == 'renamedim':
        return f.renameDimension(op[1], op[2])
    if k == 'renamedims':
        return f.renameDimensions(**{o: n for o, n in op[1]})
    if k == 'removesingleton':
        return f.removeSingleton(op[1])
    if k == 'insertdim':
        return f.insertDimension(newonly=op[3], multionly=op[4], before=op[5], after=op[6], **{op[1]: op[2]})
    if k == 'reorder':
        return f.reorderDimensions(list(f.dimensions), op[1])
    if k == 'stackself':
        return f.stack(f, op[1])
    if k == 'binopself':
        import operator
        return {'add': operator.add, 'sub': operator.sub, 'mul': operator.mul, 'gt': operator.gt}[op[1]](f, f)
    if k == 'binopperm':
        import operator
        other = f.reorderDimensions(list(f.dimensions), [d for d in op[2] if d in f.dimensions] +
                                    [d for d in f.dimensions if d not in op[2]])
        return {'add': operator.add, 'mul': operator.mul}[op[1]](f, other)
    if k == 'maskgt':
        return f.mask(greater=op[1])
    if k == 'eval':
        return f.eval('%s = %s' % (op[1], c06._py(op[2])), inplace=True)
    raise ValueError(k)


_wf = pfile.wellformed


def impl(case):
    if case.get('family') == 'scenario':
        return _impl_scenario(case)
    if case.get('family') == 'ioapi':
        return c10.impl(case['c10'])
    f = pfile.build(case['spec'])
    states = []
    with lib.pnc_warnings():
        for op in case['ops']:
            un = {k: bool(f.dimensions[k].isunlimited()) for k in f.dimensions}
            try:
                with np.errstate(all='ignore'):
                    g = _apply(f, op, inplace=bool(case.get('inplace')))
            except Exception as e:
                states.append(dict(err=type(e).__name__, msg=str(e)[:80]))
                break
            states.append(dict(obs=pfile.observe(g), wf=_wf(g), unlim_before=un))
            f = g
    return dict(states=states)


def _tok(op):
    k = op[0]
    if k == 'slice':
        return 'slice@%s@POINTS' % ';'.join('%s=%s' % (n, c02._tok(s)) for n, s in op[1])
    if k == 'apply':
        return 'apply@%s' % ';'.join('%s=%s' % (n, fn) for n, fn in op[1])
    if k == 'subset':
        return 'subset@%s@%d' % ('.'.join(op[1]) or '-', 1 if op[2] else 0)
    if k == 'renamedims':
        return 'renamedims@%s' % ';'.join('%s=%s' % (o, n) for o, n in op[1])
    if k == 'removesingleton':
        return 'removesingleton@%s' % (op[1] or '_')
    if k == 'insertdim':
        return 'insertdim@%s@%d@%d@%d@%s@%s' % (op[1], op[2], 1 if op[3] else 0, 1 if op[4] else 0, op[5] or '_', op[6] or '_')
    if k == 'reorder':
        return 'reorder@%s' % ('.'.join(op[1]) or '-')
    if k == 'eval':
        return 'eval@%s@%s' % (op[1], ','.join(c06._flat(op[2])))
    return '@'.join(str(x) for x in op)


def to_line(case, res):
    if case.get('family') == 'scenario':
        return 'c01 run - - -'          # no model question: judged by the oracle
    if case.get('family') == 'ioapi':
        return c10.to_line(case['c10'], res)
    d, v, a = pfile.encode(case['spec'])
    return 'c01 run %s %s %s %s' % (d, v, a, ' '.join(_tok(op) for op in case['ops'] if op[0] != 'binopperm'))


def agree(case, out, res):
    if case.get('family') == 'scenario':
        return None
    if case.get('family') == 'ioapi':
        return c10.agree(case['c10'], out, res)
    mstates = out.split(' || ')
    for i, (ms, st) in enumerate(zip(mstates, res['states'])):
        if ms == 'err unspec':
            return None
        if case['ops'][i][0] == 'apply' and i > 0 and 'obs' in res['states'][i - 1]:
            # a reduction along a dimension that an earlier step left empty: numpy.ma gives a masked or an unmasked zero
            # depending on whether the (empty) mask array was ever materialised - not specified, not compared further
            prev = pfile.parse_obs(res['states'][i - 1]['obs'])['dims']
            if any(prev.get(n, (1,))[0] == 0 for n, fn in case['ops'][i][1]):
                return None
        if 'err' in st:
            if ms.startswith('err'):
                return None
            return 'step %d (%s): impl raised %s (%s), model ok' % (i, case['ops'][i][0], st['err'], st.get('msg'))
        if not ms.startswith('ok '):
            return 'step %d (%s): model %s, impl returned' % (i, case['ops'][i][0], ms[:60])
        a, b = pfile.parse_obs(ms[3:]), pfile.parse_obs(st['obs'])
        if case['ops'][i][0] == 'eval':
            # the variables of the expression must still have one dimension tuple (a rename can put another variable under
            # one of the names: numpy's stretching is not in the model)
            if i > 0 and 'obs' in res['states'][i - 1]:
                pv = pfile.parse_obs(res['states'][i - 1]['obs'])['vars']
                if len({pv[n]["dims"] for n in c06._all_vars(case['ops'][i][2]) if n in pv}) > 1:
                    return None
        # which attributes the variable made by `eval` carries depends on the class of the array the expression gives and on
        # numpy's propagation rules (C06: not specified): not compared, for it and for what it is renamed to
        tainted = set()
        for op in case['ops'][:i + 1]:
            if op[0] == 'eval':
                tainted.add(op[1])
            elif op[0] == 'renamevar' and op[1] in tainted:
                tainted.add(op[2])
        for t in tainted:
            if t in a['vars'] and t in b['vars']:
                b['vars'][t]['attrs'] = a['vars'][t]['attrs']
        d = pfile.diff_parsed_numeric(a, b)
        if d:
            return 'step %d (%s): %s' % (i, case['ops'][i][0], d)
    nmodel = len([op for op in case['ops'] if op[0] != 'binopperm'])
    if len(mstates) != min(len(res['states']), nmodel):
        return 'model ran %d steps, impl %d' % (len(mstates), len(res['states']))
    return None


def oracle(case, res):
    if case.get('family') == 'scenario':
        for st in res['states']:
            if 'err' in st:
                return 'scenario %s raised %s (%s) after %d steps' % (case['kind'], st['err'], st.get('msg'), len(res['states']) - 1)
            if st['wf']:
                return 'scenario %s, after %s: %s' % (case['kind'], st['step'], st['wf'])
            if st.get('tstep_unlimited') is False:
                return 'scenario %s, after %s: the TSTEP dimension of the IOAPI file is not unlimited' % (case['kind'], st['step'])
        return None
    if case.get('family') == 'ioapi':
        if res.get('init_wf'):
            return 'the %s source file: %s' % (case['c10']['src']['kind'], res['init_wf'])
        for i, st in enumerate(res['states']):
            if 'err' in st:
                return None
            if st['wf']:
                return 'IOAPI file after step %d %s: %s' % (i, res['ops'][i], st['wf'])
            if st['tstep_unlimited'] is False:
                return 'IOAPI file after step %d %s: the TSTEP dimension is not unlimited' % (i, res['ops'][i])
        return None
    for i, st in enumerate(res['states']):
        if 'err' in st:
            return None         # raising is allowed outside the documented domain; in-domain completion is
                                # judged through the model (agree): the model knows the domain
        if st['wf']:
            return 'after step %d (%s): %s' % (i, case['ops'][i][0], st['wf'])
        got = pfile.parse_obs(st['obs'])
        renamed = case['ops'][i][0] in ('renamedim', 'renamedims')
        for k, (ln, u) in got['dims'].items():
            if k in st['unlim_before'] and not renamed:
                if (u == 'u') != st['unlim_before'][k]:
                    return 'after step %d (%s): dimension %s changed its unlimited flag' % (i, case['ops'][i][0], k)
    return None


def classify(case, failure, model_out):
    return None


def nontrivial(case, res):
    if case.get('family') == 'scenario':
        return len(res['states']) >= 2 and 'err' not in res['states'][-1]
    if case.get('family') == 'ioapi':
        return c10.nontrivial(case['c10'], res)
    sets = {tuple(sorted(v['dims'])) for v in case['spec']['vars']}
    return len(sets) >= 2 and any(op[0] in ('slice', 'apply', 'stackself', 'insertdim', 'removesingleton') for op in case['ops'])


def distribution(recs):
    d = {}
    for r in recs:
        if r['case'].get('family') == 'scenario':
            key = 'scenario:' + r['case']['kind'] + ('!' if any('err' in st for st in r['impl']['states']) else '')
            d[key] = d.get(key, 0) + 1
            continue
        if r['case'].get('family') == 'ioapi':
            for op, st in zip(r['impl']['ops'], r['impl']['states']):
                key = 'ioapi:' + op[0] + ('!' if 'err' in st else '')
                d[key] = d.get(key, 0) + 1
            continue
        for op, st in zip(r['case']['ops'], r['impl']['states']):
            key = op[0] + ('!' if 'err' in st else '')
            d[key] = d.get(key, 0) + 1
    return d
