"""C10 — IOAPI metadata stays coherent under every operation (op sequences vs the Lean Ioapi model)"""
import os
from fractions import Fraction

import numpy as np

from .. import lib, pfile

ID = 'C10'
LEAN_MODULE = 'PncProofs.C10'
LEAN_FILE = 'PncProofs/C10.lean'
NAMESPACE = 'Props.C10'
LEAN_CONE = ['PncModel.Generated.IoapiStd', 'PncModel.Cal', 'PncModel.TimeDec', 'PncModel.Arr', 'PncModel.Ioapi', 'PncProofs.IoapiLemmas', 'PncProofs.C10']
LEMMA_FILES = ['PncProofs/IoapiLemmas.lean']
REQUIRED_THEOREMS = ['coherent_updatemeta', 'coherent_restack', 'coherent_create_then_updatemeta', 'create_variable_counterexample', 'copy_novars_counterexample', 'coherent_setvg', 'points_unlists', 'coherent_step', 'coherent_run', 'zero_listed_counterexample', 'std_dims_match_source']
RULE = ('IOAPI files from five sources (variable names of 2 to 16 characters; from_arrays gridded/boundary, from_arrays plus an unlisted 2-D variable, '
        'saved to disk and reopened with the ioapi reader, GRIDDESC text gridded/boundary) x sequences of 1-4 '
        'operations (copy, sliceDimensions with int / unit and strided slice / index-list windows on 1-2 dimensions, subsetVariables, renameVariable, '
        'applyAlongDimensions with reducers and length-changing callables, eval incl. 17-character and existing '
        'names and inplace, mask, stack along TSTEP/LAY with a file or a list of files, the level edges assigned in place on an object that was reduced along LAY before, followed by a function along LAY on the same object; as a last step createVariable in place / copy(variables=False) (both leave a file for the caller to complete: recorded findings, mirrored by the model); a later part of the file stacked in front of an earlier part (the result starts where the receiver starts), interpSigma linear/conserve); after EVERY step the '
        'complete metadata state (NVARS, VAR-LIST, VAR, TFLAG width and rows, variables and their dimensions, '
        'NROWS/NCOLS/NLAYS, VGLVLS, SDATE/STIME/TSTEP, XORIG/YORIG/XCELL/YCELL, dimension lengths) is compared '
        'with the Lean model and the ten equalities of the property are evaluated on the real file (oracle); '
        'non-trivial = a sequence with at least two operations of different kinds that completes; mask with coords=True and conditions that hit date/time flags; structure-only copies; level edges decreasing or increasing; griddesc files with a CF time variable whose time axis is reduced / subsampled')
ASSUMPTIONS = ['negative strides on TSTEP (files running backwards in time) are not generated; a later part stacked in front of an earlier part is generated as a last step only', 'variable data is outside this model (C01-C06); all VAR columns of TFLAG are equal (checked on every observed state)',
               'VGLVLS and origins are float32/float64 in the code and rationals in the model: compared within 1e-6 relative',
               'eval is exercised with single assignments (the order in which several new names are appended follows set iteration order)',
               'TSTEP > 0 files only (time-independent files are not generated)']
MIN_NONTRIVIAL = {'quick': 60, 'thorough': 600}
NPROC = {'quick': 4, 'thorough': 12}
KEY_ZERO = 'C10/zero-listed-variables/VAR-dimension-1'

GD = """' '
'LCC'
2 33.0 45.0 -97.0 -97.0 40.0
' '
'G1'
'LCC' -12000. -8000. 4000. 2000. %d %d 1
' '
"""
STARTS = [(2019365, 220000), (2020059, 230000), (2019059, 233000), (2001001, 0), (2020366, 180000), (2019120, 120000)]


def _src(rng):
    kind = rng.choice(['arrays', 'arrays', 'arrays_bnd', 'arrays_extra', 'disk', 'griddesc', 'griddesc_bnd'])
    sd, st = rng.choice(STARTS)
    return dict(kind=kind, nt=rng.choice([1, 2, 3, 4, 4, 6]), nl=rng.randint(1, 3), nr=rng.randint(1, 3), nc=rng.randint(1, 3),
                nv=rng.randint(1, 3), sdate=sd, stime=st, tstep=rng.choice([10000, 10000, 3000, 240000, 20000]),
                # level edges decreasing upwards (sigma, eta, pressure) or increasing (heights, altitudes)
                lv=sorted(rng.sample(range(0, 65), 4), reverse=rng.random() < 0.7), withcf=rng.random() < 0.3,
                name16=rng.random() < 0.25, owntflag=rng.random() < 0.2)


def _recipe(rng):
    k = rng.choice(['copy', 'slice', 'slice', 'slice2', 'subset', 'rename', 'apply', 'apply', 'eval', 'mask', 'stack',
                    'interp', 'slicerc', 'slicet'])
    return [k] + [rng.randrange(1 << 20) for _ in range(6)]


def gen(rng, tier):
    n = 150 if tier == 'quick' else 4000
    out = [dict(src=_src(rng), recipes=[_recipe(rng) for _ in range(rng.randint(1, 4))]) for _ in range(n)]
    for c in out:
        # a last step after which the file no longer runs forward in time (what later steps would make of its negative
        # time step is outside the domain): a later part stacked in front of an earlier part
        if rng.random() < 0.1:
            c['recipes'].append(['restack'] + [rng.randrange(1 << 20) for _ in range(6)])
        elif rng.random() < 0.1:
            # the level edges assigned in place on an object that was used before, then a function along LAY on that object
            c['recipes'].append(['setvg'] + [rng.randrange(1 << 20) for _ in range(6)])
            c['recipes'].append(['applylay'] + [rng.randrange(1 << 20) for _ in range(6)])
        elif rng.random() < 0.08:
            # the point extraction (two index lists): no variable keeps standard dimensions, none stays listed
            c['recipes'].append(['points'] + [rng.randrange(1 << 20) for _ in range(6)])
        elif rng.random() < 0.1:
            # a harness-only last step (the model stacks one copy): three or four pieces stacked in one call, judged by the
            # coherence predicate on the real file (level edges: one more than layers; flags: one row per step)
            c['recipes'].append(['stackmany'] + [rng.randrange(1 << 20) for _ in range(6)])
        elif rng.random() < 0.1:
            # a harness-only last step: one eval call with two statements, the second assigning to a variable of the input
            # (the model's eval has one); judged by the coherence predicate
            c['recipes'].append(['eval2'] + [rng.randrange(1 << 20) for _ in range(6)])
        elif rng.random() < 0.12:
            # a last step that leaves the file for its caller to complete: createVariable in place, a copy without variables
            c['recipes'].append([rng.choice(['create', 'copynv'])] + [rng.randrange(1 << 20) for _ in range(6)])
    out.append(witnesses()[0][1])
    # on every run: layers (rows, steps) chosen by a boolean mask
    for d, key in (('LAY', 'nl'), ('LAY', 'nl'), ('ROW', 'nr'), ('TSTEP', 'nt')):
        src = _src(rng)
        src.update(kind='arrays', owntflag=False, withcf=False)
        src[key] = 3 if key == 'nl' else rng.randint(3, 4)      # (four level edges are generated)
        a = rng.randint(0, 1)
        keep = list(range(a, rng.randint(a + 1, src[key] - 1 + a)))
        out.append(dict(src=src, recipes=[], ops=[['slice', [[d, ['b', keep, src[key]]]]], ['copy']]))
    # on every run: a gridded CAMx file of one layer with nz = 0 in its header, read as an IOAPI file
    for _ in range(2):
        out.append(dict(src=dict(kind='uamiv2d', seed=rng.randrange(1 << 30), withcf=False, nv=1),
                        recipes=[], ops=[rng.choice([['copy'], ['slice', [['TSTEP', ['s', 0, 1]]]], ['slice', [['ROW', ['s', 0, 1]]]]]),
                                         rng.choice([['copy'], ['mask'], ['stack', 'TSTEP']])]))
    # on every run: a source whose variable list is not in fixed-width fields
    for style in ('strip', 'blank', 'strip', 'blank'):
        src = _src(rng)
        src.update(kind='arrays', name16=False, owntflag=False, withcf=False, nv=rng.randint(2, 3), vlstrip=style)
        out.append(dict(src=src, recipes=[[rng.choice(['copy', 'slice', 'apply', 'mask', 'slicet'])] + [rng.randrange(1 << 20) for _ in range(6)],
                                          [rng.choice(['eval', 'create', 'copy', 'stack'])] + [rng.randrange(1 << 20) for _ in range(6)]]))
    # on every run: a reversed time window of a file whose step is not a whole number of hours (TSTEP is minus the HHMMSS of
    # the step, not the field-wise floor of the negative seconds), then an operation that regenerates the time flags
    for ts in (3000, 13000):
        src = _src(rng)
        src.update(kind='griddesc', withcf=False, nt=rng.choice([3, 4]), tstep=ts, nv=max(src['nv'], 1))
        out.append(dict(src=src, recipes=[], ops=[['slice', [['TSTEP', ['t', None, None, -1]]]], ['subset', ['O3']]]))
    # files that carry a CF time variable (getTimes prefers it) whose time axis is changed without touching SDATE/STIME
    for fn in ('mean', 'every2', 'rev', 'first2'):
        src = _src(rng)
        src.update(kind=rng.choice(['griddesc', 'griddesc_bnd']), withcf=True, nt=rng.choice([3, 4, 6]))
        out.append(dict(src=src, recipes=[], ops=[['apply', 'TSTEP', fn]] + ([['subset', ['O3']]] if rng.random() < 0.5 else [])))
    return out


def build(src):
    import PseudoNetCDF as pnc
    from PseudoNetCDF.cmaqfiles._ioapi import ioapi_base
    kind = src['kind']
    if kind == 'uamiv2d':
        # a CAMx gridded emissions file of one layer whose grid header says nz = 0 (older files), read by the uamiv reader
        # (an IOAPI class): one layer, two level edges
        import random
        from .. import camx
        from PseudoNetCDF.camxfiles.uamiv.Memmap import uamiv
        c = camx.gen_uamiv_emis2d(random.Random(src['seed']))
        c['hdr_nz'] = 0
        p = os.path.join(camx.tmpdir(), 'io2d_%d_%d.uamiv' % (os.getpid(), np.random.randint(1 << 30)))
        open(p, 'wb').write(camx.ref_encode_uamiv(c))
        return uamiv(p), p
    nt, nl, nr, nc = src['nt'], src['nl'], src['nr'], src['nc']
    vg = np.array(src['lv'][:nl + 1], dtype='d') / 64.
    if kind.startswith('griddesc'):
        f = pnc.pncopen(GD % (nc, nr), format='griddesc', GDNAM='G1', VGLVLS=tuple(vg), SDATE=src['sdate'],
                        STIME=src['stime'], TSTEP=src['tstep'], nsteps=nt, FTYPE=1 if kind == 'griddesc' else 2,
                        var_kwds=['O3', 'NO2', 'CO'][:src['nv']], withcf=src['withcf'])
        return f, None
    bnd = kind == 'arrays_bnd'
    kw = {}
    pad = (lambda n: n.ljust(16, 'x')) if src.get('name16') else (lambda n: n)
    for i in range(src['nv']):
        if bnd:
            kw[pad('B%d' % i)] = np.arange(nt * nl * (2 * nr + 2 * nc + 4), dtype='f').reshape(nt, nl, -1) + 1000 * i
        else:
            kw[pad('A%d' % i)] = np.arange(nt * nl * nr * nc, dtype='f').reshape(nt, nl, nr, nc) + 1000 * i
    fa = dict(SDATE=src['sdate'], STIME=src['stime'], TSTEP=src['tstep'], VGLVLS=vg, VGTOP=5000., XORIG=-12000.,
              YORIG=5000., XCELL=1000., YCELL=500., NCOLS=nc, NROWS=nr)
    if bnd:
        fa['FTYPE'] = 2
    if src.get('latlon'):
        # a geographic grid with longitudes counted from 0 to 360 (global model grids), or one that crosses the date line
        fa.update(GDTYP=1, XORIG=src['latlon'], YORIG=-10., XCELL=2.5, YCELL=2.)
    if src.get('owntflag') and not bnd:
        # the time flags are handed over as an array and the start is not named: it is the first flag
        import datetime
        ts = int(src['tstep'])
        t0 = datetime.datetime.strptime('%07d %06d' % (src['sdate'], src['stime']), '%Y%j %H%M%S')
        dt_ = datetime.timedelta(hours=ts // 10000, minutes=ts // 100 % 100, seconds=ts % 100)
        tf = np.zeros((nt, src['nv'], 2), dtype='i')
        for i in range(nt):
            tf[i, :, 0] = int((t0 + i * dt_).strftime('%Y%j'))
            tf[i, :, 1] = int((t0 + i * dt_).strftime('%H%M%S'))
        kw['TFLAG'] = tf
        del fa['SDATE'], fa['STIME']
    f = ioapi_base.from_arrays(fileattrs=fa, **kw)
    if src.get('notflag'):
        # a file whose time axis lives in the header only (assembled by hand, before updatetflag() was ever called)
        del f.variables['TFLAG']
    if src.get('vlstrip'):
        # the variable list names the right variables but lost its fixed width (trailing blanks stripped by an attribute
        # editor, names typed by hand with one blank between them): every operation writes it in 16-character fields again
        vl = getattr(f, 'VAR-LIST')
        setattr(f, 'VAR-LIST', vl.rstrip() if src['vlstrip'] == 'strip' else ' '.join(vl.split()))
    if kind == 'arrays_extra':
        v = f.createVariable('LAT2D', 'f', ('ROW', 'COL'))
        v[:] = 1
        f.updatemeta()
    if kind == 'disk':
        from .. import camx
        p = os.path.join(camx.tmpdir(), 'io_%d_%d.nc' % (os.getpid(), np.random.randint(1 << 30)))
        f.save(p, format='NETCDF3_CLASSIC', verbose=0).close()
        return pnc.pncopen(p, format='ioapi'), p
    return f, None


def obs(f):
    """the model's state tokens, read from the real file"""
    dims = {k: len(v) for k, v in f.dimensions.items()}
    grid = 'ROW' in dims and 'COL' in dims
    vl = getattr(f, 'VAR-LIST', '')
    if len(vl) % 16 == 0:
        names = [vl[i * 16:i * 16 + 16].strip() for i in range(len(vl) // 16)]
    else:
        names = vl.split()
    vs = ['%s:%s' % (k, '.'.join(v.dimensions)) for k, v in f.variables.items() if k != 'TFLAG']
    if 'TFLAG' in f.variables:
        tfm = f.variables['TFLAG'][:]
        tf = np.asarray(np.ma.filled(tfm, -1))       # a masked time flag shows as -1: never a date or a time
        if tf.shape[1] > 0 and not (tf == tf[:, :1, :]).all():
            raise lib.HarnessError('TFLAG columns differ: outside the modelled domain')
        rows = lib.show_list(['%d:%d' % (int(r[0]), int(r[1])) for r in (tf[:, 0, :] if tf.shape[1] else [])])
        tfs = '%d|%s' % (tf.shape[1], rows)
    else:
        tfs = '_'

    def fr(x):
        # a scalar attribute, or the element of a 0-d / one-element array
        return lib.show_rat(Fraction(float(np.asarray(x).ravel()[0])))
    st = dict(grid=1 if grid else 0, nT=dims.get('TSTEP', 0), nL=dims.get('LAY', 0), nR=dims.get('ROW', 0),
              nC=dims.get('COL', 0), nP=dims.get('PERIM', 0), varDim=dims.get('VAR', 0), vars=';'.join(vs) or '-',
              tflag=tfs, nvars=int(getattr(f, 'NVARS', 0)), varlist=lib.show_list(names),
              nrows=int(getattr(f, 'NROWS', 0)), ncols=int(getattr(f, 'NCOLS', 0)), nlays=int(getattr(f, 'NLAYS', 0)),
              vglvls=lib.show_list([fr(x) for x in np.atleast_1d(f.VGLVLS)]), sdate=int(f.SDATE), stime=int(f.STIME),
              tstep=int(f.TSTEP), xorig=fr(f.XORIG), yorig=fr(f.YORIG), xcell=fr(f.XCELL), ycell=fr(f.YCELL))
    return st


ORDER = ['grid', 'nT', 'nL', 'nR', 'nC', 'nP', 'varDim', 'vars', 'tflag', 'nvars', 'varlist', 'nrows', 'ncols', 'nlays',
         'vglvls', 'sdate', 'stime', 'tstep', 'xorig', 'yorig', 'xcell', 'ycell']


def coherent(f):
    """the property's equalities, evaluated on the real object"""
    bad = []
    vl = getattr(f, 'VAR-LIST', None)
    if vl is None:
        return ['no VAR-LIST']
    if len(vl) % 16 != 0:
        bad.append('VAR-LIST has %d characters, not a multiple of 16' % len(vl))
        names = vl.split()
    else:
        names = [vl[i * 16:i * 16 + 16].strip() for i in range(len(vl) // 16)]
    n = len(names)
    if getattr(f, 'NVARS', None) != n:
        bad.append('NVARS %s != %d listed variables' % (getattr(f, 'NVARS', None), n))
    if 'VAR' not in f.dimensions or len(f.dimensions['VAR']) != n:
        bad.append('VAR dimension %s != %d listed variables' % (len(f.dimensions['VAR']) if 'VAR' in f.dimensions else None, n))
    if 'TFLAG' not in f.variables:
        bad.append('no TFLAG')
    else:
        tf = f.variables['TFLAG']
        if tf.shape[1] != n:
            bad.append('TFLAG second axis %d != %d listed variables' % (tf.shape[1], n))
        if tf.shape[0] != len(f.dimensions['TSTEP']):
            bad.append('TFLAG first axis %d != TSTEP %d' % (tf.shape[0], len(f.dimensions['TSTEP'])))
        if np.ma.is_masked(tf[...]):
            bad.append('TFLAG has masked entries')
        elif tf.shape[0] > 0 and tf.shape[1] > 0:
            if int(tf[0, 0, 0]) != int(f.SDATE) or int(tf[0, 0, 1]) != int(f.STIME):
                bad.append('SDATE/STIME %s %s != first time flag %s' % (f.SDATE, f.STIME, np.asarray(tf[0, 0, :]).tolist()))
    std = [('TSTEP', 'LAY', 'ROW', 'COL'), ('TSTEP', 'LAY', 'PERIM')]
    for k in names:
        if k not in f.variables:
            bad.append('listed variable %s does not exist' % k)
        elif tuple(f.variables[k].dimensions) not in std:
            bad.append('listed variable %s has dimensions %s' % (k, f.variables[k].dimensions))
    # the list agrees with the content in the other direction too: a variable that can be listed is
    for k, v in f.variables.items():
        if k not in names and tuple(v.dimensions) in std and len(k) <= 16 and k not in ('TFLAG', 'ETFLAG'):
            bad.append('variable %s has the standard dimensions but is not listed' % k)
    for dk, ak in [('ROW', 'NROWS'), ('COL', 'NCOLS'), ('LAY', 'NLAYS')]:
        if dk in f.dimensions and getattr(f, ak, None) != len(f.dimensions[dk]):
            bad.append('%s %s != dimension %s %d' % (ak, getattr(f, ak, None), dk, len(f.dimensions[dk])))
    if 'LAY' in f.dimensions and len(np.atleast_1d(f.VGLVLS)) != len(f.dimensions['LAY']) + 1:
        bad.append('VGLVLS has %d entries for %d layers' % (len(np.atleast_1d(f.VGLVLS)), len(f.dimensions['LAY'])))
    return bad


FNS = {'id': lambda x: x, 'first2': lambda x: x[:2], 'rev': lambda x: x[::-1], 'every2': lambda x: x[::2],
       'ends': lambda x: x[[0, -1]]}


def resolve(recipe, f):
    """recipe (kind + random integers) -> concrete op for the current file"""
    k, r = recipe[0], recipe[1:]
    dims = {d: len(f.dimensions[d]) for d in ('TSTEP', 'LAY', 'ROW', 'COL', 'PERIM') if d in f.dimensions}
    names = [n for n in f.variables if n != 'TFLAG']
    data = [n for n in names if tuple(f.variables[n].dimensions)[:2] == ('TSTEP', 'LAY')]

    def window(d, a, b, c, second=False):
        L = dims[d]
        if L == 0:
            return ['s', None, None]
        m = c % 11
        if m == 8:
            st = [2, 3, -1, -2][b % 4]     # a reversed time window too: its TSTEP is minus the HHMMSS of the step
            return ['t', None, None, st] if a % 2 else ['t', a % L, None, st]
        if m >= 9:
            if second:       # index lists on two dimensions select points, not a window: at most one list
                return ['i', a % (2 * L) - L] if a % 3 else ['s', None, None]
            n = 1 + a % L
            if m == 9:
                return ['l', sorted({(a + 3 * j) % L for j in range(n)})]
            wrap = [(a + j) % L - L for j in range(n)]
            return ['l', sorted(wrap) if d == 'TSTEP' else wrap]       # a time axis running backwards is outside the domain
        if m < 3:
            return ['i', a % (2 * L) - L]
        lo = a % L
        hi = lo + 1 + b % (L - lo)
        if m == 3:
            return ['s', lo - L, hi if hi < L else None]
        if m == 4:
            return ['s', None, hi]
        if m == 5:
            return ['s', lo, None]
        if m == 6:
            return ['s', lo, hi - L if hi < L else None]
        return ['s', lo, hi]
    if k == 'copy':
        return ['copy', r[0] % 3 == 0]
    if k == 'setvg':
        nl = dims.get('LAY', 0)
        if nl < 1:
            return ['copy']
        cur = [float(x) for x in np.atleast_1d(f.VGLVLS)]
        inner = sorted({1 + (r[0] + 7 * j) % 62 for j in range(nl - 1)})
        while len(inner) < nl - 1:
            inner = sorted(set(inner) | {1 + (max(inner or [0]) + 1) % 62})
        lv = [0] + inner + [64]
        if cur[0] > cur[-1]:
            lv = lv[::-1]
        return ['setvg', ['%d/64' % x for x in lv]]
    if k == 'applylay':
        return ['apply', 'LAY', ['mean', 'min', 'max', 'sum', 'id', 'first2', 'rev', 'every2', 'ends'][r[1] % 9]]
    if k == 'points':
        if not ('ROW' in dims and 'COL' in dims and dims['ROW'] and dims['COL']):
            return ['copy']
        n = 1 + r[0] % 3
        return ['points', [(r[1] + j) % dims['ROW'] for j in range(n)], [(r[2] + 2 * j) % dims['COL'] for j in range(n)]]
    if k == 'create':
        return ['create', ['NEWC', 'N234567890123456'][r[0] % 2]]
    if k == 'copynv':
        return ['copynv']
    if k == 'slicet':
        # index lists along TSTEP: unevenly spaced, increasing (the selected TFLAG rows are kept, not regenerated)
        L = dims.get('TSTEP', 0)
        if L < 3:
            return ['copy']
        idx = sorted({r[0] % L, r[1] % L, r[2] % L, (r[0] + 1) % L})
        if len(idx) < 2:
            idx = [0, L - 1]
        return ['slice', [['TSTEP', ['l', idx]]]]
    if k == 'slicerc':
        # one index list next to an integer, a one-cell window or a second integer on the two horizontal axes:
        # still a window of the grid (only two lists select points)
        if not ('ROW' in dims and 'COL' in dims and dims['ROW'] and dims['COL']):
            return ['copy']
        d1, d2 = ('ROW', 'COL') if r[0] % 2 else ('COL', 'ROW')
        L1, L2 = dims[d1], dims[d2]
        n = 1 + r[1] % L1
        lst = ['l', sorted({(r[1] + 3 * j) % L1 for j in range(n)})]
        i2 = r[2] % L2
        other = [['i', i2], ['i', i2 - L2], ['s', i2, i2 + 1], ['s', None, None]][r[3] % 4]
        first = lst if r[4] % 4 else ['i', r[1] % L1]
        return ['slice', [[d1, first], [d2, other]]]
    if k in ('slice', 'slice2'):
        ds = sorted(dims)
        d1 = ds[r[0] % len(ds)]
        kw = [[d1, window(d1, r[1], r[2], r[3])]]
        if k == 'slice2' and len(ds) > 1:
            d2 = [d for d in ds if d != d1][r[4] % (len(ds) - 1)]
            kw.append([d2, window(d2, r[5], r[1], r[2], second=True)])
        return ['slice', kw]
    if k == 'subset':
        if not names:
            return ['copy']
        ks = [n for i, n in enumerate(names) if (r[0] >> i) & 1] or [names[r[1] % len(names)]]
        return ['subset', ks]
    if k == 'rename':
        if not data:
            return ['copy']
        o = data[r[0] % len(data)]
        # names stay valid identifiers (eval); the last choice: onto another listed variable, which it replaces
        return ['rename', o, [('R' + o)[:16], 'RENAMED', 'Y' * 17, 'R234567890123456',
                              data[(r[0] + 1) % len(data)] if len(data) > 1 else 'RENAMED'][r[1] % 5]]
    if k == 'apply':
        ds = sorted(dims)
        return ['apply', ds[r[0] % len(ds)], ['mean', 'min', 'max', 'sum', 'id', 'first2', 'rev', 'every2', 'ends'][r[1] % 9]]
    if k == 'eval':
        if not data:
            return ['copy']
        o = data[r[0] % len(data)]
        return ['eval', ['NEWV', 'X' * 17, o, 'NEWV'][r[1] % 4], o, r[2] % 3 == 0]
    if k == 'mask':
        return ['mask', recipe[1] % 3 == 0, recipe[2] % 3]      # coords=True and other conditions in a third of the cases
    if k == 'stack':
        return ['stack', ['TSTEP', 'LAY'][r[0] % 2], r[1] % 3 == 0]
    if k == 'stackmany':
        return ['stackmany', ['LAY', 'TSTEP', 'LAY'][r[0] % 3], 2 + r[1] % 2]
    if k == 'eval2':
        if len(data) < 2:
            return ['copy']
        a, b = data[r[0] % len(data)], data[(r[0] + 1) % len(data)]
        return ['eval2', ['OX = %s + %s; %s = %s / 2' % (a, b, b, b), '%s = %s * 1; %s = %s * 2' % (a, a, b, a)][r[1] % 2]]
    if k == 'restack':
        # files stacked against the order of time: the later part of the file first
        L = dims.get('TSTEP', 0)
        if L < 2:
            return ['copy']
        return ['restack', 1 + r[0] % (L - 1), r[1] % 3 == 0]
    n = 1 + r[0] % 4
    lv = sorted(set([64, 0] + [r[1 + i] % 64 for i in range(n - 1)]), reverse=True)
    return ['interp', ['%d/64' % x for x in lv], ['linear', 'conserve'][r[5] % 2]]


def _short(op):
    """half of the windows, subsets and functions along a dimension go through the short names of the methods (f.slice,
    f.subset, f.apply): chosen by the operation itself, so that a case replays"""
    import json
    import zlib
    return zlib.crc32(json.dumps(op, sort_keys=True, default=str).encode()) % 2 == 1


def apply_op(f, op):
    k = op[0]
    if k == 'copy':
        return f.copy(data=False) if (len(op) > 1 and op[1]) else f.copy()      # a structure-only copy keeps coherent metadata too
    if k == 'setvg':
        # the object has been used for a reduction along LAY before (whatever it may remember from that must not matter)
        try:
            f.applyAlongDimensions(LAY='mean')
        except Exception:
            pass
        f.VGLVLS = np.array([float(Fraction(x)) for x in op[1]], dtype='f')
        return f
    if k == 'create':
        std = ('TSTEP', 'LAY', 'PERIM') if 'PERIM' in f.dimensions else ('TSTEP', 'LAY', 'ROW', 'COL')
        v = f.createVariable(op[1], 'f', std)          # in place, standard dimensions of the file type
        v[...] = 1
        return f
    if k == 'copynv':
        return f.copy(variables=False)
    if k == 'points':
        return f.sliceDimensions(ROW=list(op[1]), COL=list(op[2]))
    if k == 'slice':
        kw = {}
        for d, w in op[1]:
            if w[0] == 'b':
                # a boolean mask over the dimension (layers chosen by a condition): the list of its True positions
                m = np.zeros(w[2], dtype=bool)
                m[list(w[1])] = True
                kw[d] = m
                continue
            kw[d] = w[1] if w[0] in 'il' else (slice(w[1], w[2]) if w[0] == 's' else slice(w[1], w[2], w[3]))
            if w[0] == 'i' and len(w) > 2:
                kw[d] = np.int64(w[1])          # an integer that is not a python int (argmin arithmetic, array element)
        return f.slice(**kw) if _short(op) else f.sliceDimensions(**kw)
    if k == 'subset':
        return f.subset(list(op[1])) if _short(op) else f.subsetVariables(list(op[1]))
    if k == 'rename':
        return f.renameVariable(op[1], op[2])
    if k == 'apply':
        return (f.apply if _short(op) else f.applyAlongDimensions)(**{op[1]: FNS.get(op[2], op[2])})
    if k == 'eval':
        return f.eval('%s = %s * 2' % (op[1], op[2]), inplace=op[3])
    if k == 'mask':
        if len(op) > 1:
            # value conditions that also hit date/time flags when coordinates are included
            kw = [dict(greater=5), dict(values=0), dict(greater=1e6)][op[2]]
            return f.mask(coords=bool(op[1]), **kw)
        return f.mask(greater=5)
    if k == 'stack':
        return f.stack([f.copy()] if len(op) > 2 and op[2] else f.copy(), op[1])
    if k == 'stackmany':
        return f.stack([f.copy() for _ in range(op[2])], op[1])
    if k == 'eval2':
        return f.eval(op[1])
    if k == 'restack':
        later, earlier = f.sliceDimensions(TSTEP=slice(op[1], None)), f.sliceDimensions(TSTEP=slice(None, op[1]))
        return later.stack([earlier] if len(op) > 2 and op[2] else earlier, 'TSTEP')
    if k == 'interp':
        return f.interpSigma(np.array([float(Fraction(x)) for x in op[1]]), interptype=op[2])
    raise ValueError(k)


def impl(case):
    with lib.pnc_warnings():
        f, path = build(case['src'])
        try:
            res = dict(init=obs(f), init_bad=coherent(f), init_wf=pfile.wellformed(f), ops=[], states=[])
            ops = case.get('ops')
            for i in range(len(ops) if ops is not None else len(case['recipes'])):
                op = ops[i] if ops is not None else resolve(case['recipes'][i], f)
                res['ops'].append(op)
                try:
                    with np.errstate(all='ignore'):
                        g = apply_op(f, op)
                except lib.HarnessError:
                    raise
                except Exception as e:
                    res['states'].append(dict(err=type(e).__name__, msg=str(e)[:100]))
                    break
                res['states'].append(dict(st=obs(g), bad=coherent(g), wf=pfile.wellformed(g),
                                          tstep_unlimited=bool(g.dimensions['TSTEP'].isunlimited()) if 'TSTEP' in g.dimensions else None))
                f = g
            return res
        finally:
            if path and os.path.exists(path):
                os.remove(path)


def tok(op):
    k = op[0]
    if k == 'slice':
        def o(v):
            return '_' if v is None else str(v)

        def w(x):
            if x[0] == 'i':
                return 'i:%d' % x[1]
            if x[0] == 's':
                return 's:%s:%s' % (o(x[1]), o(x[2]))
            if x[0] == 't':
                return 't:%s:%s:%d' % (o(x[1]), o(x[2]), x[3])
            return 'l:' + '.'.join(str(v) for v in x[1])
        return 'slice@' + ';'.join('%s~%s' % (d, w(x)) for d, x in op[1])
    if k == 'subset':
        return 'subset@' + ('.'.join(op[1]) or '-')
    if k == 'rename':
        return 'rename@%s@%s' % (op[1], op[2])
    if k == 'apply':
        return 'apply@%s@%s' % (op[1], op[2])
    if k == 'eval':
        return 'eval@%s@%s@%d' % (op[1], op[2], 1 if op[3] else 0)
    if k == 'stack':
        return 'stack@' + op[1]
    if k == 'setvg':
        return 'setvg@' + ','.join(op[1])
    if k == 'create':
        return 'create@' + op[1]
    if k == 'restack':
        return 'restack@%d' % op[1]
    if k == 'interp':
        return 'interp@' + ','.join(op[1])
    return k


def to_line(case, res):
    st = res['init']
    return 'c10 run %s ops=%s' % (' '.join('%s=%s' % (k, st[k]) for k in ORDER),
                                  '|'.join(tok(op) for op in res['ops'] if op[0] not in ('stackmany', 'eval2')) or 'copy')


def diff_state(mtext, st):
    _, kv = lib.parse_kv('x ' + mtext)
    for k in ORDER:
        a, b = kv[k], str(st[k])
        if k == 'vars':
            if sorted(a.split(';')) != sorted(b.split(';')):
                return 'variables model=%s impl=%s' % (a, b)
        elif k in ('vglvls', 'xorig', 'yorig', 'xcell', 'ycell'):
            xa = [] if a == '-' else [Fraction(x) for x in a.split(',')]
            xb = [] if b == '-' else [Fraction(x) for x in b.split(',')]
            if len(xa) != len(xb) or any(abs(x - y) > Fraction(1, 10 ** 6) * max(1, abs(x)) for x, y in zip(xa, xb)):
                return '%s model=%s impl=%s' % (k, a, b)
        elif a != b:
            return '%s model=%s impl=%s' % (k, a, b)
    return None


def agree(case, out, res):
    if case['src']['kind'] == 'uamiv2d':
        return None     # the reader's own variables (ETFLAG) are outside the model: judged by the coherence predicate
    mstates = out.split(' || ')
    if not res['ops'] or (case['src']['kind'].startswith('griddesc') and case['src']['withcf']):
        return None     # files with a CF `time` variable decode times from it, not from TFLAG: oracle only
    for i, st in enumerate(res['states']):
        if res['ops'][i][0] in ('stackmany', 'eval2'):
            break           # harness-only last step: judged by the oracle
        if i >= len(mstates):
            return 'model stopped after %d steps (%s)' % (len(mstates), mstates[-1][:40])
        ms = mstates[i]
        if 'err' in st:
            if ms.startswith('err') or case['src']['kind'] not in ('arrays', 'arrays_bnd', 'arrays_extra'):
                return None
            return 'step %d %s: impl raised %s (%s), model ok' % (i, res['ops'][i], st['err'], st.get('msg'))
        if not ms.startswith('ok '):
            return 'step %d %s: model %s, impl returned a file' % (i, res['ops'][i], ms[:40])
        d = diff_state(ms[3:], st['st'])
        if d:
            return 'step %d %s: %s' % (i, res['ops'][i], d)
    return None


def oracle(case, res):
    init_bad = [b for b in res['init_bad'] if not (case['src'].get('vlstrip') and b.startswith('VAR-LIST has'))]
    if init_bad:
        return 'the %s source file is not coherent: %s' % (case['src']['kind'], '; '.join(init_bad))
    for i, st in enumerate(res['states']):
        if 'err' in st:
            return None
        if st['bad']:
            return 'after step %d %s: %s' % (i, res['ops'][i], '; '.join(st['bad']))
    return None


KEY_CREATE = 'C10/createVariable-in-place/VAR-dimension-stale'
KEY_COPYNV = 'C10/copy-without-variables/stale-VAR-LIST'


def _parts(failure):
    return [t.strip() for t in failure.split(': ', 1)[1].split(';')] if ': ' in failure else []


def classify(case, failure, model_out):
    import re
    # the two calls that leave a file for the caller to complete (recorded findings): exactly the stale counts they leave
    m = re.match(r"after step (\d+) \['(create|copynv)'", failure)
    if m:
        parts = _parts(failure)
        if m.group(2) == 'create':
            ok = parts and all(re.fullmatch(r'VAR dimension (\d+) != (\d+) listed variables', t) or
                               re.fullmatch(r'TFLAG second axis (\d+) != (\d+) listed variables', t) for t in parts)
            nums = [re.findall(r'\d+', t) for t in parts]
            if ok and all(int(a) + 1 == int(b) or (int(a) == 1 and int(b) == 1) for a, b in nums):
                return KEY_CREATE
        else:
            ok = parts and all(re.fullmatch(r'NVARS 0 != (\d+) listed variables', t) or
                               re.fullmatch(r'listed variable \S+ does not exist', t) for t in parts)
            if ok and sum(1 for t in parts if t.startswith('listed variable')) == int(re.findall(r'\d+', parts[0])[1]):
                return KEY_COPYNV
        return None
    # the recorded finding: a file with no listed variable keeps VAR (and TFLAG's second axis) at length 1
    if 'NVARS' not in failure and 'VAR dimension 1 != 0 listed' in failure and 'TFLAG second axis 1 != 0 listed' in failure \
            and failure.count(';') == 1:
        return KEY_ZERO
    return None


def classify_full(case, failure, model_out, res, diff):
    # a listed finding is mirrored by the model: it is that finding only while the implementation still agrees with the model
    if diff:
        return None
    return classify(case, failure, model_out)


def nontrivial(case, res):
    done = [op[0] for op, st in zip(res['ops'], res['states']) if 'err' not in st]
    return len(set(done)) >= 2


def witnesses():
    src = dict(kind='arrays', nt=2, nl=2, nr=2, nc=2, nv=1, sdate=2019365, stime=220000, tstep=10000, lv=[64, 32, 16, 0],
               withcf=False)
    return [(KEY_ZERO, dict(src=src, recipes=[], ops=[['eval', 'X' * 17, 'A0', False]])),
            (KEY_CREATE, dict(src=src, recipes=[], ops=[['create', 'NEWC']])),
            (KEY_COPYNV, dict(src=src, recipes=[], ops=[['copynv']]))]


def distribution(recs):
    d = {}
    for r in recs:
        d['src:' + r['case']['src']['kind']] = d.get('src:' + r['case']['src']['kind'], 0) + 1
        for op, st in zip(r['impl']['ops'], r['impl']['states']):
            key = op[0] + ('!' if 'err' in st else '')
            d[key] = d.get(key, 0) + 1
    return d
