"""C19 — ICARTT (ffi1001) write/read round trip"""
import os
from fractions import Fraction

import numpy as np

from .. import lib

ID = 'C19'
LEAN_MODULE = 'PncProofs.C19'
LEAN_FILE = 'PncProofs/C19.lean'
NAMESPACE = 'Props.C19'
LEAN_CONE = ['PncModel.Icartt', 'PncProofs.C19']
LEMMA_FILES = []
REQUIRED_THEOREMS = ['header_count', 'declared_counts', 'read_write', 'second_cycle', 'mask_preserved']
RULE = ('1-D time-series files (1-6 records, 1-4 dependent variables incl. names with "/", values over 30 orders of '
        'magnitude, negative, zero, values that need rounding to 7 digits; missing codes -999 ... -99999999, 9999999, '
        'non-integer codes; the independent variable first, second or last among the input\'s variables; array fill value equal to or different from missing_value; variables with masked cells and no missing_value attribute (the default code -999 is declared and written); 0-8 header attributes incl. '
        'all optional standard ones): the text written by the library is parsed by an independent line tokenizer and '
        'compared line by line with the Lean writer model; the file read back by the library (explicit format and '
        'auto-detection) is compared with the Lean reader model applied to those lines; oracle: names/order, units, '
        'codes, masks, values to 7 significant digits, declared counts, second write/read cycle; non-trivial = at '
        'least 2 records, 2 dependent variables, one missing cell and one attribute; units containing parentheses; two files of 999-2001 records per run')
ASSUMPTIONS = ['the text of a number (%.6e) and its parsing by numpy.genfromtxt are outside the model: every written value is '
               'checked numerically against the source to 7 significant digits',
               'attribute keys without ":" and values without leading/trailing white space or line breaks; unmasked values do not equal the missing code']
MIN_NONTRIVIAL = {'quick': 40, 'thorough': 400}
NPROC = {'quick': 4, 'thorough': 12}

HEADS = ['PI_NAME', 'ORGANIZATION_NAME', 'SOURCE_DESCRIPTION', 'MISSION_NAME', 'VOLUME_INFO']
EXTRA = ['TIME_INTERVAL', 'PI_CONTACT_INFO', 'PLATFORM', 'REVISION', 'DATA_INFO', 'LOCATION', 'R0', 'OTHER_COMMENTS', 'STIPULATIONS_ON_USE']
ATTRVAL = {'VOLUME_INFO': '1, 1', 'TIME_INTERVAL': '60', 'REVISION': 'R0', 'PI_NAME': 'Doe, Jane', 'R0': 'first: version',
           'OTHER_COMMENTS': '', 'STIPULATIONS_ON_USE': '', 'LLOD_FLAG': '-8888', 'LLOD_VALUE': '0.01',
           # two limits, whatever the number of variables is (one for all / one per variable / neither: then no limit is known)
           'ULOD_FLAG': '-7777', 'ULOD_VALUE': '5.0, 10.0'}
VALS = [0., 1.5, -2.25, 1234567., 1e-20, -3.3e15, 123456789., 0.1, 1 / 3., 2 / 3., 99999995., -0.000123456749]
CODES = [-999, -9999, -99999, -8888.5, 9999999, -9999999, -99999999, -999.25, -9999999999999, -9999999999.5]      # also codes spelt with more characters than a formatted value


def gen(rng, tier):
    n = 150 if tier == 'quick' else 4000
    out = []
    # long files (an hour of 1 Hz data): 1-2 per quick run
    nlong = 2 if tier == 'quick' else 12
    for i_ in range(n + nlong):
        nrec = rng.randint(1, 6) if i_ < n else rng.choice([1001, 1000, 2001, 1500, 999])
        deps = []
        for i in range(rng.randint(1, 4)):
            code = rng.choice(CODES)
            nocode = rng.random() < 0.15        # no missing_value attribute: the writer's default code (-999) stands for the masked cells
            if nocode:
                code = -999
            elif rng.random() < 0.12:
                code = rng.choice([0, 0.0])          # zero is a legal missing-value code (counts that are never zero)
            near = [code * (1 - 5e-6), code * (1 + 3e-6), code + 0.05 * (1 if abs(code) < 1e5 else 1000)]   # close to the code, different at 7 digits
            if code == 0:
                near = [0.05, -0.003, 1e-20]
            nm = rng.choice(['O3', 'NO2_ppbv', 'CO', 'Alt/m', 'T', 'Cloud_Flag', 'pH_index']) + str(i)
            deps.append(dict(name=nm, unit=rng.choice(['ppbv', 'm', 'K', 'molec cm-3', 'unknown', 'mol/(m2 s)', 'ug/m3 (STP)', '(dimensionless)',
                                                       # no units at all (a flag, a counter); units spelt like the variable itself
                                                       '', nm.replace('/', '_'),
                                                       # text beyond ASCII (the file is written in the encoding of the locale)
                                                       u'\u00b5g m-3', u'\u00b0C']),
                             vscale=rng.choice([None, None, None, None, 0.5, 1000., 2]),     # a `scale` attribute on the input variable
                             code=code, nocode=nocode, fill=rng.choice([code, code, -7777, 1e20]),
                             vals=[rng.choice([x for x in VALS if x != code] + near + [rng.uniform(-1, 1) * 10 ** rng.randint(-8, 8)]) for _ in range(nrec)],
                             mask=[rng.random() < 0.25 for _ in range(nrec)]))
        attrs = rng.sample(HEADS + EXTRA, rng.randint(0, 8))
        if nrec >= 2 and nrec < 10 and rng.random() < 0.15:
            # a value of the independent variable equals the first dependent variable's missing code (a code such as 3660 is
            # unusual, not illegal): line 12 declares codes for the dependent variables only
            deps[0].update(code=3600 + 60 * rng.randrange(nrec), nocode=False)
            deps[0]['fill'] = deps[0]['code']
        if rng.random() < 0.2:
            # detection-limit flags with a numeric limit in the header, and cells that hold the flag: they are values
            # (sometimes the flag alone: no per-variable limit is given)
            attrs = [a for a in attrs if a not in ('LLOD_FLAG', 'LLOD_VALUE')] + (
                ['LLOD_FLAG', 'LLOD_VALUE'] if rng.random() < 0.7 else ['LLOD_FLAG'])
            for d_ in deps:
                if not d_['mask'][0]:
                    d_['vals'][0] = -8888.
        if rng.random() < 0.15:
            attrs = [a for a in attrs if not a.startswith('ULOD')] + ['ULOD_FLAG', 'ULOD_VALUE']
        out.append(dict(nrec=nrec, deps=deps, attrs=attrs, iunit=rng.choice(['s', 'seconds since midnight', None, 'Start_UTC']),
                        wdate=rng.random() < 0.8, tdtype=rng.choice(['d', 'd', 'f', 'i']),
                        ipos=rng.choice([0, 0, 1, len(deps)])))      # where the independent variable sits among the input's variables
    # on every run: dependent variables whose names are contained in the name of the independent variable (Start_UTC); missing
    # codes that are the default fill values of netCDF doubles / the largest float32 (what a variable that came from netCDF
    # carries), with missing cells
    for names, codes in ((['UTC', 'Start', 't'], [-9999, -9999, -9999]),
                         (['O3', 'CO'], [9.969209968386869e+36, 3.4028234663852886e+38]),
                         (['UTC', 'NO2'], [3.402823e+38, 9.969209968386869e+36])):
        nrec = rng.randint(3, 6)
        deps = [dict(name=nm, unit='ppbv', vscale=None, code=cd, nocode=False, fill=cd,
                     vals=[float(rng.randint(1, 90)) for _ in range(nrec)], mask=[i % 2 == 1 for i in range(nrec)])
                for nm, cd in zip(names, codes)]
        out.append(dict(nrec=nrec, deps=deps, attrs=[], iunit='s', wdate=True, tdtype='d', ipos=0))
    # on every run: a header comment of several lines (as a file with continuation lines gives after it was read): the counts
    # in the output are those of the lines that are written, so the output re-opens (oracle only: the text model has
    # one line per comment)
    for k in range(2):
        c = dict(out[k])
        c['multiline'] = ['PI_CONTACT_INFO', 'OTHER_COMMENTS'][k]
        c['attrs'] = [a for a in c['attrs'] if a != c['multiline'] and not a.startswith('LLOD')] + [c['multiline']]
        out.append(c)
    return out


def build(case):
    import PseudoNetCDF as pnc
    f = pnc.PseudoNetCDFFile()
    n = case['nrec']
    f.createDimension('POINTS', n)
    f.SDATE = '2019, 07, 04'
    if case['wdate']:
        f.WDATE = '2020, 01, 02'
    f.INDEPENDENT_VARIABLE = 'Start_UTC'
    def mkindep():
        tv = f.createVariable('Start_UTC', case.get('tdtype', 'd'), ('POINTS',))
        tv[:] = np.arange(n) * 60. + 3600
        if case['iunit'] is not None:
            tv.units = case['iunit']
    ipos = min(case.get('ipos', 0), len(case['deps']))
    for k, d in enumerate(case['deps']):
        if k == ipos:
            mkindep()
        v = f.createVariable(d['name'], 'd', ('POINTS',), fill_value=d['fill'])
        v[:] = np.ma.masked_array(np.array(d['vals'], dtype='d'), mask=np.array(d['mask']))
        v.units = d['unit']
        if d.get('vscale') is not None:
            v.scale = d['vscale']
        if not d.get('nocode'):
            v.missing_value = d['code']
    if ipos == len(case['deps']):
        mkindep()
    for a in case['attrs']:
        setattr(f, a, ATTRVAL.get(a, 'text of %s' % a))
    if case.get('multiline'):
        setattr(f, case['multiline'], 'first line\nsecond line\n  third line')
    return f


def hs(s):
    return s.encode().hex() if s else '~'


def _dec(tok):
    """exact decimal value of a number as written"""
    return lib.show_rat(Fraction(tok.strip()))


def tokenize(text):
    """independent line tokenizer written from the format description (not from the reader)"""
    lines = text.split('\n')
    while lines and lines[-1].strip() == '':
        lines.pop()
    out = []
    a, b = [t.strip() for t in lines[0].split(',')]
    if b != '1001':
        raise ValueError('first line %r' % lines[0])
    out.append('F:%d' % int(a))
    for k in range(1, 8):
        out.append('T:' + hs(lines[k].strip()))
    iv = [t.strip() for t in lines[8].split(',', 1)]
    out.append('I:%s:%s' % (hs(iv[0]), hs(iv[1]) if len(iv) > 1 else '_'))
    nd = int(lines[9])
    out.append('C:%d' % nd)
    sc = [t.strip() for t in lines[10].split(',')]
    if any(float(t) != 1 for t in sc):
        raise ValueError('scale line %r' % lines[10])
    out.append('S:%d' % len(sc))
    cd = [t.strip() for t in lines[11].split(',')]
    out.append('M:' + lib.show_list(['%s=%s' % (hs(t), _dec(t)) for t in cd]))
    pos = 12
    for k in range(nd):
        nm, un = [t.strip() for t in lines[pos].split(',', 1)]
        out.append('D:%s:%s' % (hs(nm), hs(un)))
        pos += 1
    ns = int(lines[pos])
    out.append('C:%d' % ns)
    pos += 1 + ns
    nu = int(lines[pos])
    out.append('C:%d' % nu)
    pos += 1
    for k in range(nu):
        key, val = lines[pos].split(':', 1)
        out.append('A:%s:%s' % (hs(key.strip()), hs(val.strip())))
        pos += 1
    out.append('N:' + lib.show_list([hs(t.strip()) for t in lines[pos].split(',')]))
    pos += 1
    for ln in lines[pos:]:
        out.append('R:' + lib.show_list([_dec(t) for t in ln.split(',')]))
    return out


def view(g, case=None):
    """the model's showFile form of a file read by the library"""
    indep = g.INDEPENDENT_VARIABLE
    heads = [g.PI_NAME, g.ORGANIZATION_NAME, g.SOURCE_DESCRIPTION, g.MISSION_NAME, g.VOLUME_INFO,
             '%s %s' % (g.SDATE, g.WDATE), g.TIME_INTERVAL]
    deps = []
    for k, v in g.variables.items():
        if k == indep:
            continue
        arr = v[:]
        m = np.ma.getmaskarray(arr).tolist()
        # the double nearest to a 7-digit decimal prints back as that decimal
        cells = ['_' if mm else lib.show_rat(Fraction('%.6e' % x)) for x, mm in zip(np.ma.getdata(arr).tolist(), m)]
        deps.append('%s|%s|%s|%s|%s' % (hs(k), hs(v.units), hs(str(v.missing_value)), lib.show_rat(Fraction(float(v.missing_value))),
                                        lib.show_list(cells)))
    iv = g.variables[indep]
    known = set(HEADS + ['SDATE', 'WDATE', 'TIME_INTERVAL', 'INDEPENDENT_VARIABLE', 'TFLAG', 'fmt', 'n_header_lines',
                         'INDEPENDENT_VARIABLE_DEFINITION', 'INDEPENDENT_VARIABLE_UNITS'])
    attrs = ['%s=%s' % (hs(k), hs(str(getattr(g, k)))) for k in g.ncattrs() if k not in known]
    im = np.ma.getmaskarray(iv[:]).tolist()
    return dict(head=[hs(str(h)) for h in heads], indep=hs(indep), iunit=hs(iv.units),
                icells=['_' if mm else lib.show_rat(Fraction('%.6e' % x)) for x, mm in zip(np.ma.getdata(iv[:]).tolist(), im)],
                deps=deps, attrs=attrs)


def _impl_multiline(case):
    from .. import camx
    from PseudoNetCDF.icarttfiles.ffi1001 import ffi1001, ncf2ffi1001
    import PseudoNetCDF as pnc
    with lib.pnc_warnings():
        f = build(case)
        p = os.path.join(camx.tmpdir(), 'c19m_%d_%d.ict' % (os.getpid(), np.random.randint(1 << 30)))
        try:
            res = dict(ml=True)
            try:
                ncf2ffi1001(f, p).close()
                text = open(p).read().split('\n')
                nh = int(text[0].split(',')[0])
                res['names_line'] = text[nh - 1] if nh - 1 < len(text) else None
                g = ffi1001(p)
                res['deps'] = {k: [None if m else float(x) for x, m in zip(np.ma.getdata(g.variables[k][:]).tolist(),
                                                                          np.ma.getmaskarray(g.variables[k][:]).tolist())]
                               for k in g.variables if k != g.INDEPENDENT_VARIABLE}
                res['auto'] = type(pnc.pncopen(p)).__name__
                ncf2ffi1001(g, p + '.2').close()
                g2 = ffi1001(p + '.2')
                res['deps2'] = {k: [None if m else float(x) for x, m in zip(np.ma.getdata(g2.variables[k][:]).tolist(),
                                                                           np.ma.getmaskarray(g2.variables[k][:]).tolist())]
                                for k in g2.variables if k != g2.INDEPENDENT_VARIABLE}
            except lib.HarnessError:
                raise
            except Exception as e:
                res['err'] = type(e).__name__
                res['msg'] = str(e)[:120]
            return res
        finally:
            for q in (p, p + '.2'):
                if os.path.exists(q):
                    os.remove(q)


def impl(case):
    if case.get('multiline'):
        return _impl_multiline(case)
    from .. import camx
    from PseudoNetCDF.icarttfiles.ffi1001 import ffi1001, ncf2ffi1001
    import PseudoNetCDF as pnc
    with lib.pnc_warnings():
        f = build(case)
        p = os.path.join(camx.tmpdir(), 'c19_%d_%d.ict' % (os.getpid(), np.random.randint(1 << 30)))
        p2 = p + '.2'
        try:
            res = {}
            try:
                ncf2ffi1001(f, p).close()
                text = open(p).read()
                res['text'] = text
                res['lines'] = tokenize(text)
                g = ffi1001(p)
                res['view'] = view(g)
                try:
                    h = pnc.pncopen(p)
                    res['auto'] = type(h).__name__
                except Exception as e:
                    res['auto'] = 'raised %s' % type(e).__name__
                # the same text under other names: ICARTT is comma separated text (.csv, .txt), or no suffix at all
                import shutil
                res['auto_as'] = {}
                for suf in ('.csv', '.txt', ''):
                    q = p[:-4] + '_copy' + suf
                    shutil.copyfile(p, q)
                    try:
                        res['auto_as'][suf] = type(pnc.pncopen(q)).__name__
                    except Exception as e:
                        res['auto_as'][suf] = 'raised %s' % type(e).__name__
                    finally:
                        os.remove(q)
                ncf2ffi1001(g, p2).close()
                g2 = ffi1001(p2)
                res['view2'] = view(g2)
                res['lines2'] = tokenize(open(p2).read())
                # the file that was read gets another time unit (values converted), is written and read again: the units on
                # line 9 are those of the variable as it is now
                try:
                    g3 = ffi1001(p)
                    iv = g3.variables[g3.INDEPENDENT_VARIABLE]
                    iv[:] = iv[:] / 3600.
                    iv.units = 'hours'
                    p3 = p + '.3'
                    ncf2ffi1001(g3, p3).close()
                    g4 = ffi1001(p3)
                    iv4 = g4.variables[g4.INDEPENDENT_VARIABLE]
                    res['retimed'] = dict(units=str(iv4.units), vals=[float(x) for x in np.ma.getdata(iv4[:]).tolist()])
                    os.remove(p3)
                except lib.HarnessError:
                    raise
                except Exception as e:
                    res['retimed'] = dict(err='%s %s' % (type(e).__name__, str(e)[:80]))
            except lib.HarnessError:
                raise
            except Exception as e:
                res['err'] = type(e).__name__
                res['msg'] = str(e)[:120]
            return res
        finally:
            for q in (p, p2):
                if os.path.exists(q):
                    os.remove(q)


def _file_tokens(case):
    """the source file in the model's parseFile form; values are the exact decimals of '%.6e'"""
    heads = [ATTRVAL.get(a, 'text of %s' % a) if a in case['attrs'] else 'Unknown' for a in HEADS[:4]]
    heads.append(ATTRVAL['VOLUME_INFO'] if 'VOLUME_INFO' in case['attrs'] else '1, 1')
    heads.append('DATES')          # replaced below: the date line depends on today's date when WDATE is absent
    heads.append(ATTRVAL['TIME_INTERVAL'] if 'TIME_INTERVAL' in case['attrs'] else '0')
    deps = []
    for d in case['deps']:
        cells = ['_' if m else lib.show_rat(Fraction('%.6e' % v)) for v, m in zip(d['vals'], d['mask'])]
        deps.append('%s|%s|%s|%s|%s' % (hs(d['name']), hs(d['unit']), hs(str(d['code'])), lib.show_rat(Fraction(str(d['code']))),
                                        lib.show_list(cells)))
    ig = set(HEADS + ['TIME_INTERVAL'])
    attrs = ['%s=%s' % (hs(a), hs(ATTRVAL.get(a, 'text of %s' % a))) for a in case['attrs'] if a not in ig]
    # ncattrs order: SDATE, [WDATE], INDEPENDENT_VARIABLE were set first and are ignored; the rest in insertion order
    icells = [lib.show_rat(Fraction('%.6e' % (i * 60. + 3600))) for i in range(case['nrec'])]
    return heads, ('indep=%s iunit=%s icells=%s deps=%s attrs=%s' % (
        hs('Start_UTC'), hs(case['iunit']) if case['iunit'] is not None else '_', lib.show_list(icells), ';'.join(deps),
        lib.show_list(attrs)))


def to_line(case, res):
    if case.get('multiline'):
        return 'c19 read lines=F:0'
    # two model questions in one case: (1) the writer's lines for the source file, (2) the reader on those lines;
    # the harness sends (2) for the lines the LIBRARY wrote and checks (1) in agree() through a second request
    if 'lines' not in res:
        return 'c19 read lines=F:0'
    return 'c19 read %s' % '§'.join(res['lines'])


def _model_write(case, res):
    heads, rest = _file_tokens(case)
    # the date line is taken from the library output (today's date when WDATE is missing)
    date_tok = res['lines'][6][2:]
    hd = [hs(h) for h in heads]
    hd[5] = date_tok
    return lib.run_model(['c19 write head=%s %s' % (lib.show_list(hd), rest)])[0]


def agree(case, out, res):
    if case.get('multiline'):
        return None
    if 'err' in res:
        return 'impl raised %s (%s)' % (res['err'], res.get('msg'))
    mw = _model_write(case, res)
    if not mw.startswith('ok '):
        return 'model writer: ' + mw[:60]
    ml = mw[3:].split('§')
    for i, (a, b) in enumerate(zip(ml, res['lines'])):
        if a != b:
            return 'line %d written by the library differs from the writer model: model=%s impl=%s' % (i + 1, a[:80], b[:80])
    if len(ml) != len(res['lines']):
        return 'library wrote %d lines, writer model %d' % (len(res['lines']), len(ml))
    if not out.startswith('ok '):
        return 'reader model: %s, the library read the file' % out[:40]
    _, kv = lib.parse_kv('x ' + out[3:])
    v = res['view']
    for k, got in (('head', lib.show_list(v['head'])), ('indep', v['indep']), ('iunit', v['iunit']),
                   ('icells', lib.show_list(v['icells'])), ('deps', ';'.join(v['deps']) or '-'),
                   ('attrs', lib.show_list(v['attrs']))):
        want = kv[k]
        if k == 'head':
            # the reader normalises the date line into two attributes; compare the other six lines
            w = want.split(',')
            g = got.split(',')
            if w[:5] + w[6:] != g[:5] + g[6:]:
                return 'header lines model=%s impl=%s' % (want[:120], got[:120])
            continue
        if k == 'deps':
            # the missing code is a decimal text in the file and a double in the library: compared as doubles (a code such as
            # 9.969209968386869e+36 is no whole number of the binary format)
            def canon(txt):
                out_ = []
                for dep in txt.split(';'):
                    fs = dep.split('|')
                    if len(fs) >= 4:
                        fs[3] = repr(float(Fraction(fs[3])))
                    out_.append('|'.join(fs))
                return ';'.join(out_)
            want, got = canon(want), canon(got)
        if want != got:
            return 'reader %s: model=%s impl=%s' % (k, want[:160], got[:160])
    return None


def _sig7(a, b):
    if a == b:
        return True
    return abs(a - b) <= 5.0000001e-7 * max(abs(a), abs(b))


def oracle(case, res):
    if 'err' in res:
        return 'write/read of an in-domain file raised %s %s' % (res['err'], ' '.join(str(res.get('msg')).split()))
    if case.get('multiline'):
        names = [t.strip() for t in (res['names_line'] or '').split(',')]
        if names != ['Start_UTC'] + [d['name'] for d in case['deps']]:
            return 'a comment of several lines: the declared header length does not point at the column-name line (%r)' % (res['names_line'] or '')[:60]
        if res['auto'] != 'ffi1001':
            return 'a comment of several lines: automatic format detection gives %s' % res['auto']
        if res['deps'] != res['deps2']:
            return 'a comment of several lines: a second write / read cycle changed the data'
        return None
    v = res['view']
    text = res['text'].split('\n')
    nh = int(text[0].split(',')[0])
    names = [t.strip() for t in text[nh - 1].split(',')]
    if names != ['Start_UTC'] + [d['name'] for d in case['deps']]:
        return 'line %d (declared header length) is not the column-name line: %r' % (nh, text[nh - 1][:60])
    if int(text[9]) != len(case['deps']):
        return 'declared %s dependent variables, wrote %d' % (text[9], len(case['deps']))
    if res['auto'] != 'ffi1001':
        return 'automatic format detection: %s' % res['auto']
    for suf, nm in res.get('auto_as', {}).items():
        if nm != 'ffi1001':
            return "automatic format detection of the same text under the suffix '%s': %s" % (suf, nm)
    if len(v['deps']) != len(case['deps']):
        return '%d dependent variables read, %d written' % (len(v['deps']), len(case['deps']))
    for d, got in zip(case['deps'], v['deps']):
        nm, un, cs, cv, cells = got.split('|')
        if bytes.fromhex(nm).decode() != d['name'].replace('/', '_'):
            return 'variable %s read as %s' % (d['name'], bytes.fromhex(nm).decode())
        und = '' if un == '~' else bytes.fromhex(un).decode()
        if und != d['unit']:
            return 'unit of %s: %r read, %r written' % (d['name'], und, d['unit'])
        if Fraction(cv) != Fraction(float(d['code'])):
            return 'missing code of %s: %s read, %s written' % (d['name'], cv, d['code'])
        cl = cells.split(',')
        for i, (c, x, m) in enumerate(zip(cl, d['vals'], d['mask'])):
            if (c == '_') != m:
                if not m and _sig7(float(x), float(d['code'])):
                    continue        # out of domain: the value equals the code to 7 digits
                return '%s record %d: missing=%s read, %s written' % (d['name'], i, c == '_', m)
            if c != '_' and not _sig7(float(Fraction(c)), x):
                return '%s record %d: %s read, %r written' % (d['name'], i, c, x)
    want_unit = case['iunit'] if case['iunit'] is not None else 'Start_UTC'
    if bytes.fromhex(v['iunit']).decode() != want_unit:
        return 'unit of the independent variable: %s read, %s written' % (bytes.fromhex(v['iunit']).decode(), case['iunit'])
    if '_' in v['icells']:
        return 'a value of the independent variable is read as missing (%s): line 12 declares codes for the dependent variables only' % v['icells']
    rt = res.get('retimed')
    if rt is not None:
        if 'err' in rt:
            return 'the file with its time axis converted to hours could not be written and read: ' + rt['err']
        want = [(i * 60. + 3600) / 3600. for i in range(case['nrec'])]
        if rt['units'] != 'hours' or any(not _sig7(a, b) for a, b in zip(rt['vals'], want)):
            return 'time axis converted to hours, written and read: units %r values %s, expected hours %s' % (rt['units'], rt['vals'][:3], want[:3])
    # second cycle changes no data
    if res['view2']['deps'] != v['deps'] or res['view2']['icells'] != v['icells']:
        return 'a second write/read cycle changed the data'
    return None


def classify(case, failure, model_out):
    return None


def nontrivial(case, res):
    return ('view' in res and case['nrec'] >= 2 and len(case['deps']) >= 2 and any(any(d['mask']) for d in case['deps'])
            and len(case['attrs']) >= 1)


def distribution(recs):
    d = {}
    for r in recs:
        c = r['case']
        for k in ('nrec',):
            d['%s=%d' % (k, c[k])] = d.get('%s=%d' % (k, c[k]), 0) + 1
        d['ndep=%d' % len(c['deps'])] = d.get('ndep=%d' % len(c['deps']), 0) + 1
        d['nattrs=%d' % len(c['attrs'])] = d.get('nattrs=%d' % len(c['attrs']), 0) + 1
        for dd in c['deps']:
            k = 'code=%s' % dd['code']
            d[k] = d.get(k, 0) + 1
    return d
