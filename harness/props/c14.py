"""C14 — truncated binary files are never silently misread (uamiv, slab formats, bpch)"""
import contextlib
import io
import json
import os
import shutil
import tempfile

import numpy as np

from .. import bpchfmt as B
from .. import camx, lib
from .. import slabfmt as S

ID = 'C14'
LEAN_MODULE = 'PncProofs.C14'
LEAN_FILE = 'PncProofs/C14.lean'
NAMESPACE = 'Props.C14'
LEAN_CONE = ['PncModel.Words', 'PncModel.Camx.Uamiv', 'PncModel.Camx.Slab', 'PncModel.Camx.WindRead', 'PncModel.Camx.BoundaryRead', 'PncProofs.BoundaryLemmas', 'PncProofs.BoundaryPrefix', 'PncProofs.WindLemmas', 'PncProofs.WindPrefix', 'PncProofs.PrefixLemmas', 'PncProofs.SlabLemmas', 'PncProofs.C13', 'PncProofs.C14']
LEMMA_FILES = ['PncProofs/PrefixLemmas.lean']
REQUIRED_THEOREMS = ['prefix_safe', 'odd_cut_raises', 'slab_prefix_safe', 'boundary_prefix_safe', 'wind_prefix_safe', 'wind_prefix_steps', 'leading_take', 'take_flatten_uniform']
RULE = ('three families. (1) small generated uamiv files (1-2 species, 1-2 layers, 1-2x1-2 cells, 1-3 steps) cut at byte offsets: '
        'quick = every record boundary +-{0,1,2,3,4} bytes and 40 random offsets per file; thorough = EVERY byte '
        'offset of each file; compared: raise/no-raise and the complete view (dimension counts, species, '
        'TFLAG/ETFLAG, every data word) with the Lean reader model; oracle: exposes only complete leading '
        'steps identical to the full file. (2) slab formats (one3d, humidity, vertical diffusivity, temperature, '
        'height/pressure; 2-4 steps): every record boundary +-{0..4} bytes and random offsets (thorough: every byte); '
        'the Memmap reader against the Lean reader model on the prefix and the same oracle. (3) bpch (bpch1): every '
        'block boundary +-{0..4} bytes and random offsets; oracle: leading steps identical to the full file, or - for a '
        'cut at a block boundary inside the first step, where the prefix is itself a valid file with fewer tracers - '
        'identical data of the tracers present. (4) wind (Memmap reader): cuts around every step boundary and random offsets, '
        'oracle as above plus "returns within 5 s"; (5) lateral boundary files (Memmap reader, mode r and r+ alternating): cuts around every record boundary and random offsets; oracle as above plus "the file on disk keeps its size"; non-trivial = cut inside the time-step region; bpch prefixes in modes r and r+ (the file on disk keeps its size); wind: both header variants on every run, cuts at every record boundary of the first two steps')
ASSUMPTIONS = ['numpy.memmap raises when offset+shape exceeds the file (modelled as error)',
               'the theorems are about the uamiv (prefix_safe, odd_cut_raises), slab (slab_prefix_safe), wind (wind_prefix_safe) and lateral-boundary (boundary_prefix_safe) reader models; each model is tied to its reader by the '
               'correspondence on every cut point; bpch by the oracle only; cloud_rain is not in this check (its variable count is not stored: some prefixes are valid files of the other variant)']
MIN_NONTRIVIAL = {'quick': 40, 'thorough': 400}
NPROC = {'quick': 1, 'thorough': 12}

_CACHE = {}


def _file_bytes(spec):
    key = json.dumps(spec, sort_keys=True)
    if key not in _CACHE:
        b = camx.ref_encode_uamiv(spec)
        full = camx.read_with_library(b)
        _CACHE[key] = (b, full)
        if len(_CACHE) > 8:
            _CACHE.pop(next(iter(_CACHE)))
    return _CACHE[key]


def gen(rng, tier):
    out = []
    nfiles = 3 if tier == 'quick' else 10
    for fi in range(nfiles):
        spec = camx.gen_uamiv(rng, maxdim=2, maxsteps=3)
        spec['species'] = spec['species'][:2]
        spec['nz'] = min(spec['nz'], 2)
        nt = len(spec['tflag'])
        spec['data'] = [[[[camx.rand_f32_bits(rng) for _ in range(spec['nx'] * spec['ny'])] for _ in range(spec['nz'])]
                         for _ in spec['species']] for _ in range(nt)]
        nspec, cells, nz = len(spec['species']), spec['nx'] * spec['ny'], spec['nz']
        off = 4 * (103 + 10 * nspec)
        blk = 4 * (6 + nspec * nz * (13 + cells))
        size = off + nt * blk
        if tier == 'thorough':
            cuts = list(range(0, size))
        else:
            marks = [0, 312, 380, 404, off - 4, off] + [off + t * blk + d for t in range(nt + 1) for d in (0, 24)] + \
                    [off + t * blk + 24 + k * 4 * (13 + cells) for t in range(nt) for k in range(nspec * nz)]
            cuts = set()
            for mk in marks:
                for d in (-4, -3, -2, -1, 0, 1, 2, 3, 4):
                    if 0 <= mk + d < size:
                        cuts.add(mk + d)
            for _ in range(40):
                cuts.add(rng.randrange(size))
            cuts = sorted(cuts)
        for n in cuts:
            out.append(dict(spec=spec, cut=n))
        if fi == 0:
            # the same prefixes opened for update (mode r+): nothing is fabricated, the file on disk keeps its size
            for n in cuts[::3]:
                out.append(dict(spec=spec, cut=n, mode='r+'))
    # slab formats
    fmts = ['temperature', 'height_pressure', rng.choice(['one3d', 'humidity', 'vertical_diffusivity'])]
    if tier != 'quick':
        fmts = fmts * 2 + sorted(S.FORMATS)
    for fmt in fmts:
        while True:
            c = S.gen(rng, fmt, longspan=False)
            if c['nz'] >= 2 and len(c['flags']) >= 3:      # cuts on record boundaries inside a later step are the interesting ones
                break
        c['nx'], c['ny'] = min(c['nx'], 2), min(c['ny'], 2)
        c['data'] = [[sl[:c['nx'] * c['ny']] for sl in slabs] for slabs in c['data']]
        rec = 4 * (c['nx'] * c['ny'] + 4)
        size = rec * len(c['data'][0]) * len(c['flags'])
        if tier == 'thorough':
            cuts = range(size)
        else:
            cuts = {k * rec + d for k in range(size // rec + 1) for d in (-4, -3, -2, -1, 0, 1, 2, 3, 4) if 0 <= k * rec + d < size}
            cuts |= {rng.randrange(size) for _ in range(30)}
        for n in sorted(cuts):
            out.append(dict(family='slab', spec=c, cut=n))
    # wind (oracle only; a reader that does not return within 5 s is reported)
    for fi in range(2 if tier == 'quick' else 6):
        while True:
            c = S.gen_wind(rng)
            # both header variants on every run, each with several layers
            if c['nz'] >= 2 and (c['stag'] is None) == (fi % 2 == 0):
                break
        c['nx'], c['ny'] = 2, 2
        c['data'] = [[sl[:4] for sl in slabs] for slabs in c['data']]
        size = len(S.wind_encode(c))
        per = (8 if c['stag'] is None else 12) + 8 + 2 * c['nz'] * 24 + 12
        if tier == 'thorough':
            cuts = range(size)
        else:
            cuts = {t * per + d for t in range(len(c['flags']) + 1) for d in range(-4, 48) if 0 <= t * per + d < size}
            # every record boundary inside the first two steps (the end of each layer's U and V record)
            hl = 16 if c['stag'] is None else 20
            cuts |= {t * per + hl + k * 24 + d for t in range(min(2, len(c['flags']))) for k in range(2 * c['nz'] + 2)
                     for d in (-4, 0, 4) if 0 <= t * per + hl + k * 24 + d < size}
            cuts |= {rng.randrange(size) for _ in range(40)}
        for n in sorted(cuts):
            out.append(dict(family='wind', spec=c, cut=n))
    # lateral boundary files (Memmap reader, read-only and in-place modes; oracle only)
    for fi in range(2 if tier == 'quick' else 5):
        while True:
            c = S.gen_bnd(rng)
            if len(c['tflag']) >= 2 + fi % 2:       # whole leading steps are the prefixes that open
                break
        c['species'] = c['species'][:2]
        c['nz'] = min(c['nz'], 2)
        c['bdata'] = [[[e[:(c['ny'] if ei < 2 else c['nx']) * c['nz']] for ei, e in enumerate(sp)] for sp in step[:2]] for step in c['bdata']]
        recs = S.bnd_records(c)
        marks, pos = [0], 0
        for r in recs:
            pos += len(r) + 8
            marks.append(pos)
        size = pos
        if tier == 'thorough':
            cuts = range(size)
        else:
            cuts = {mk + d for mk in marks for d in (-4, -1, 0, 1, 4, 12) if 0 <= mk + d < size}
            cuts |= {rng.randrange(size) for _ in range(30)}
        for n in sorted(cuts):
            out.append(dict(family='bnd', spec=c, cut=n, mode='r+' if n % 2 else 'r'))
    # bpch
    for fi in range(2 if tier == 'quick' else 8):
        c = B.gen(rng)
        c['nx'], c['ny'] = min(c['nx'], 2), 1
        for t in range(c['nt']):
            for bi, b in enumerate(c['blocks']):
                c['data'][t][bi] = c['data'][t][bi][:c['nx'] * c['ny'] * b['nz']]
        raw = B.encode(c)
        size = len(raw)
        marks = [0, 48, 136]
        pos = 136
        for t in range(c['nt']):
            for b in c['blocks']:
                pos += 44 + 176 + 8 + 4 * c['nx'] * c['ny'] * b['nz']
                marks.append(pos)
        if tier == 'thorough':
            cuts = range(size)
        else:
            cuts = {mk + d for mk in marks for d in (-4, -3, -2, -1, 0, 1, 2, 3, 4) if 0 <= mk + d < size}
            cuts |= {rng.randrange(size) for _ in range(30)}
        for n in sorted(cuts):
            out.append(dict(family='bpch', spec=c, cut=n, mode='r+' if n % 2 else 'r'))
            if n in marks or n % 5 == 0:
                out.append(dict(family='bpch', spec=c, cut=n, mode='r', entry='master'))
            if c['nt'] >= 2 and n in marks[3:]:
                # the documented option timeslice as a list of step numbers, the last step of the full file among them
                out.append(dict(family='bpch', spec=c, cut=n, mode='r', timeslice=[0, c['nt'] - 1]))
    return out


def _slab_full(spec):
    key = 'slab' + json.dumps(spec, sort_keys=True)
    if key not in _CACHE:
        b = S.encode(spec)
        _CACHE[key] = (b, _slab_read(spec, b))
    return _CACHE[key]


def _slab_read(spec, b):
    p = os.path.join(camx.tmpdir(), 'c14s_%d_%d.bin' % (os.getpid(), np.random.randint(1 << 30)))
    open(p, 'wb').write(b)
    try:
        return S.view(S.open_reader(spec, p, 'memmap'), spec)
    finally:
        os.remove(p)


class _Timeout(Exception):
    pass


def _wind_read(spec, b):
    import signal

    def handler(*a):
        raise _Timeout()
    p = os.path.join(camx.tmpdir(), 'c14w_%d_%d.bin' % (os.getpid(), np.random.randint(1 << 30)))
    open(p, 'wb').write(b)
    old = signal.signal(signal.SIGALRM, handler)
    signal.alarm(5)
    try:
        return S.wind_view(S.wind_open(spec, p, 'memmap'), spec)
    except _Timeout:
        return dict(hang=True)
    finally:
        signal.alarm(0)
        signal.signal(signal.SIGALRM, old)
        os.remove(p)


def _wind_full(spec):
    key = 'wind' + json.dumps(spec, sort_keys=True)
    if key not in _CACHE:
        b = S.wind_encode(spec)
        _CACHE[key] = (b, _wind_read(spec, b))
    return _CACHE[key]


class _ReadError(Exception):
    """a reader raised on a prefix: the exception and the size the file on disk has afterwards"""
    def __init__(self, e, size_after):
        Exception.__init__(self, str(e))
        self.name, self.size_after = type(e).__name__, size_after


def _uamiv_read(b, mode):
    """the gridded Memmap reader opened in a given mode on a file of its own"""
    from PseudoNetCDF.camxfiles.uamiv.Memmap import uamiv
    p = os.path.join(camx.tmpdir(), 'c14u_%d_%d.bin' % (os.getpid(), np.random.randint(1 << 30)))
    open(p, 'wb').write(b)
    try:
        try:
            with lib.pnc_warnings():
                f = uamiv(p, mode=mode)
                v = camx.view_of_reader(f)
            del f
        except lib.HarnessError:
            raise
        except Exception as e:
            raise _ReadError(e, os.path.getsize(p))
        v['size_after'] = os.path.getsize(p)
        return v
    finally:
        os.remove(p)


def _bnd_read(spec, b, mode='r'):
    from PseudoNetCDF.camxfiles.lateral_boundary.Memmap import lateral_boundary
    p = os.path.join(camx.tmpdir(), 'c14l_%d_%d.bin' % (os.getpid(), np.random.randint(1 << 30)))
    open(p, 'wb').write(b)
    try:
        try:
            f = lateral_boundary(p, mode=mode)
            v = S.bnd_view(f, spec)
            del f
        except lib.HarnessError:
            raise
        except Exception as e:
            raise _ReadError(e, os.path.getsize(p))
        v['size_after'] = os.path.getsize(p)
        return v
    finally:
        os.remove(p)


def _bnd_full(spec):
    key = 'bnd' + json.dumps(spec, sort_keys=True)
    if key not in _CACHE:
        b = S.bnd_encode(spec)
        _CACHE[key] = (b, _bnd_read(spec, b))
    return _CACHE[key]


def _oracle_bnd(case, res):
    b, full = _bnd_full(case['spec'])
    v = res['view']
    if v['size_after'] != case['cut']:
        return 'opening a prefix of %d bytes (mode %s) changed the file on disk to %d bytes' % (case['cut'], case.get('mode'), v['size_after'])
    for k in ('nz', 'ny', 'nx'):
        if v[k] != full[k]:
            return 'prefix of %d bytes presents %s=%s, the full file %s' % (case['cut'], k, v[k], full[k])
    k = v['nt']
    if k > full['nt']:
        return 'prefix presents %d steps, the full file has %d' % (k, full['nt'])
    for name, rows in v['vars'].items():
        if rows != full['vars'][name][:k]:
            return 'prefix of %d bytes (mode %s): %s differs from the first %d steps of the full file' % (case['cut'], case.get('mode'), name, k)
    if v['tflag'] != full['tflag'][:k] or v['etflag'] != full['etflag'][:k]:
        return 'prefix presents time flags %s, the full file %s' % (v['tflag'], full['tflag'])
    return None


def _bpch_read(spec, b, mode='r', entry='bpch1', timeslice=None):
    from PseudoNetCDF.geoschemfiles._bpch import bpch1
    from . import c18
    if entry == 'master':
        # the public reader: it tries the memory-mapped reader and falls back on the block-walking one
        from PseudoNetCDF.geoschemfiles._bpchmaster import bpch as bpch1
    d = tempfile.mkdtemp(prefix='c14b_', dir=camx.tmpdir())
    try:
        p = os.path.join(d, 'a.bpch')
        open(p, 'wb').write(b)
        B.tables(spec, d)
        with contextlib.redirect_stdout(io.StringIO()):
            try:
                f = bpch1(p, noscale=True, mode=mode, **({} if timeslice is None else dict(timeslice=list(timeslice))))
                v = c18.view(f, spec)
                del f
            except lib.HarnessError:
                raise
            except Exception as e:
                raise _ReadError(e, os.path.getsize(p))
            v['size_after'] = os.path.getsize(p)
            return v
    finally:
        shutil.rmtree(d, True)


def _bpch_full(spec):
    key = 'bpch' + json.dumps(spec, sort_keys=True)
    if key not in _CACHE:
        b = B.encode(spec)
        _CACHE[key] = (b, _bpch_read(spec, b))
    return _CACHE[key]


def impl(case):
    fam = case.get('family', 'uamiv')
    if fam != 'uamiv':
        with lib.pnc_warnings():
            b, full = {'slab': _slab_full, 'bpch': _bpch_full, 'wind': _wind_full, 'bnd': _bnd_full}[fam](case['spec'])
            p = b[:case['cut']]
            try:
                if fam == 'bpch':
                    v = _bpch_read(case['spec'], p, case.get('mode', 'r'), case.get('entry', 'bpch1'), case.get('timeslice'))
                elif fam == 'bnd':
                    v = _bnd_read(case['spec'], p, case.get('mode', 'r'))
                else:
                    v = {'slab': _slab_read, 'bpch': _bpch_read, 'wind': _wind_read}[fam](case['spec'], p)
                return dict(view=v, hex=p.hex())
            except lib.HarnessError:
                raise
            except _ReadError as e:
                return dict(err=e.name, msg=str(e)[:100], hex=p.hex(), size_after=e.size_after)
            except Exception as e:
                return dict(err=type(e).__name__, msg=str(e)[:100], hex=p.hex())
    b, full = _file_bytes(case['spec'])
    p = b[:case['cut']]
    try:
        v = _uamiv_read(p, case['mode']) if case.get('mode') else camx.read_with_library(p)
        return dict(view=v, hex=p.hex())
    except lib.HarnessError:
        raise
    except _ReadError as e:
        return dict(err=e.name, msg=str(e)[:100], hex=p.hex(), size_after=e.size_after)
    except Exception as e:
        return dict(err=type(e).__name__, msg=str(e)[:100], hex=p.hex())


def to_line(case, res):
    fam = case.get('family', 'uamiv')
    if fam == 'slab':
        h = res['hex']
        n = len(h) // 8
        c = case['spec']
        return 'bin slab-mm %s %d %s' % (S.FORMATS[c['fmt']][0], c['nx'] * c['ny'], h[:8 * n] or '-')
    if fam == 'wind':
        h = res['hex']
        n = len(h) // 8
        c = case['spec']
        return 'bin wind-read %d %s' % (c['nx'] * c['ny'], h[:8 * n] or '-')
    if fam == 'bnd':
        h = res['hex']
        n = len(h) // 8
        return 'bin bnd-read %s' % (h[:8 * n] or '-')
    if fam == 'bpch':
        return 'bin slab-mm one3d 1 -'          # no model question for bpch prefixes (oracle only)
    h = res['hex']
    n = len(h) // 8
    return 'bin uamiv-read %s %d' % (h[:8 * n] or '-', (len(h) // 2) % 4)


def agree(case, out, res):
    fam = case.get('family', 'uamiv')
    if fam == 'bpch':
        return None
    if fam == 'bnd':
        # the Memmap boundary reader (its own record maps) against its Lean model on the prefix
        if len(res['hex']) % 8 != 0:
            return None if 'err' in res else 'a file of %d bytes was opened' % (len(res['hex']) // 2)
        if 'err' in res:
            return None if out.startswith('err') else 'impl raised %s (%s), the Lean reader model reads the prefix' % (res['err'], res.get('msg'))
        if not out.startswith('ok '):
            return 'Lean reader model %s, impl returned %s steps' % (out[:40], res['view'].get('nt'))
        return None if out[3:] == res['view']['raw'] else 'records of the Memmap reader differ from the Lean reader model on a prefix of %d bytes' % case['cut']
    if fam == 'wind':
        # the Memmap wind reader against its Lean model on the prefix
        if res.get('view', {}).get('hang'):
            return None         # judged by the oracle
        if len(res['hex']) % 8 != 0:
            return None if 'err' in res else 'a file of %d bytes was opened' % (len(res['hex']) // 2)
        if 'err' in res:
            return None if out.startswith('err') else 'impl raised %s (%s), the Lean reader model reads the prefix' % (res['err'], res.get('msg'))
        return S.wind_model_diff(case['spec'], res['hex'], res['view']) if out.startswith('ok ') else \
            'Lean reader model %s, impl returned %s steps' % (out[:40], res['view'].get('nt'))
    if fam == 'slab':
        if len(res['hex']) % 8 != 0:
            # a cut inside a word: numpy cannot map the file as float32 — must raise
            return None if 'err' in res else 'a file of %d bytes was opened' % (len(res['hex']) // 2)
        if 'err' in res:
            return None if out.startswith('err') else 'impl raised %s (%s), model presents %s' % (res['err'], res.get('msg'), out[:60])
        if not out.startswith('ok '):
            return 'model %s, impl returned %s steps' % (out[:40], res['view'].get('nt'))
        _, kv = lib.parse_kv('x ' + out[3:])
        v = res['view']
        for k in ('nt', 'nz'):
            if float(kv[k]) != float(v[k]):
                return '%s model=%s impl=%s' % (k, kv[k], v[k])
        if kv['vars'] != v['vars'] or kv['tflag'] != v.get('tflag'):
            return 'prefix view differs from the model'
        return None
    if 'err' in res:
        return None if out.startswith('err') else 'impl raised %s (%s), model presents %s' % (res['err'], res.get('msg'), out[:60])
    if not out.startswith('ok '):
        return 'model %s, impl returned %s steps' % (out[:40], res['view'].get('nt'))
    return camx.diff_view(out, res['view'])


def _oracle_slab(case, res):
    b, full = _slab_full(case['spec'])
    v = res['view']
    nt = len(case['spec']['flags'])
    if not float(v['nt']).is_integer() or float(v['nz']) != float(full['nz']) or v['nt'] > nt:
        return 'prefix of %d bytes presents nt=%s nz=%s (full file %s, %s)' % (case['cut'], v['nt'], v['nz'], full['nt'], full['nz'])
    k = int(v['nt'])
    fv = dict(x.split('~') for x in full['vars'].split(';'))
    for x in v['vars'].split(';'):
        name, hx = x.split('~')
        n = len(fv[name]) // nt
        if hx != fv[name][:n * k]:
            return 'prefix of %d bytes presents data of %s that differ from the first %d steps' % (case['cut'], name, k)
    if v.get('tflag') != ','.join(full['tflag'].split(',')[:k]):
        return 'prefix presents time flags %s, the full file %s' % (v.get('tflag'), full['tflag'])
    return None


def _oracle_wind(case, res):
    b, full = _wind_full(case['spec'])
    v = res['view']
    if v.get('hang'):
        return 'the reader did not return within 5 s on a prefix of %d bytes' % case['cut']
    nt = len(case['spec']['flags'])
    k = int(v['nt'])
    if v['nz'] != full['nz'] or k > nt:
        return 'prefix of %d bytes presents nt=%s nz=%s' % (case['cut'], v['nt'], v['nz'])
    for name in ('U', 'V'):
        per = len(full['vars'][name]) // nt
        if v['vars'][name] != full['vars'][name][:per * k]:
            return 'prefix of %d bytes presents %s data that differ from the first %d steps' % (case['cut'], name, k)
    if v.get('tflag') != full['tflag'][:k]:
        return 'prefix presents time flags %s, the full file %s' % (v.get('tflag'), full['tflag'])
    return None


def _oracle_bpch(case, res):
    b, full = _bpch_full(case['spec'])
    v = res['view']
    if v.get('size_after') is not None and v['size_after'] != case['cut']:
        return 'opening a prefix of %d bytes (mode %s) changed the file on disk to %d bytes' % (case['cut'], case.get('mode'), v['size_after'])
    nt = case['spec']['nt']
    k = len(v['tau0'])
    if case.get('timeslice') is not None:
        # the times asked for by number: those steps of the full file, or an error
        ts = case['timeslice']
        if v['tau0'] != [full['tau0'][i] for i in ts] or v['tau1'] != [full['tau1'][i] for i in ts]:
            return 'prefix of %d bytes, timeslice=%s: time bounds %s, steps %s of the full file have %s' % (
                case['cut'], ts, v['tau0'], ts, [full['tau0'][i] for i in ts])
        for a, f_ in zip(v['vars'], full['vars']):
            n = len(f_['bits']) // nt
            if a['key'] == f_['key'] and a['bits'] != [w for i in ts for w in f_['bits'][n * i:n * (i + 1)]]:
                return 'prefix of %d bytes, timeslice=%s: data of %s are not those of steps %s of the full file' % (case['cut'], ts, a['key'], ts)
        return None
    if k > nt or v['tau0'] != full['tau0'][:k] or v['tau1'] != full['tau1'][:k]:
        return 'prefix of %d bytes presents time bounds %s' % (case['cut'], v['tau0'])
    if len(v['vars']) != len(full['vars']):
        # a cut exactly at the end of a block of the first step leaves a complete file with fewer tracers; any other cut does not
        c = case['spec']
        ends, pos = [], 136
        for b_ in c['blocks']:
            pos += 44 + 176 + 8 + 4 * c['nx'] * c['ny'] * b_['nz']
            ends.append(pos)
        if k != 1 or case['cut'] not in ends or len(v['vars']) != ends.index(case['cut']) + 1:
            return 'prefix of %d bytes presents %d tracers over %d steps, the full file has %d (blocks of the first step end at %s)' % (
                case['cut'], len(v['vars']), k, len(full['vars']), ends)
    for a, f_ in zip(v['vars'], full['vars']):
        n = len(f_['bits']) // nt
        if a['key'] != f_['key'] or a['bits'] != f_['bits'][:n * k] or a['shape'][0] != k:
            return 'prefix of %d bytes presents data of %s that differ from the first %d steps' % (case['cut'], a['key'], k)
    return None


def oracle(case, res):
    sz = res.get('size_after', (res.get('view') or {}).get('size_after') if isinstance(res.get('view'), dict) else None)
    if sz is not None and sz != case['cut']:
        return 'opening a prefix of %d bytes (mode %s)%s changed the file on disk to %d bytes' % (
            case['cut'], case.get('mode'), ' raised, and' if 'err' in res else '', sz)
    if 'err' in res:
        return None
    fam = case.get('family', 'uamiv')
    if fam == 'slab':
        return _oracle_slab(case, res)
    if fam == 'bpch':
        return _oracle_bpch(case, res)
    if fam == 'wind':
        return _oracle_wind(case, res)
    if fam == 'bnd':
        return _oracle_bnd(case, res)
    b, full = _file_bytes(case['spec'])
    v = res['view']
    if 'inconsistent' in v:
        return 'prefix of %d bytes opens without error but %s' % (case['cut'], v['inconsistent'])
    for k in ('nspec', 'nx', 'ny', 'nz', 'species'):
        if v[k] != full[k]:
            return 'prefix of %d bytes presents %s=%s, the full file %s' % (case['cut'], k, v[k], full[k])
    k = v['nt']
    if k > full['nt']:
        return 'prefix presents %d steps, the full file has %d' % (k, full['nt'])
    if v['data'].split('|')[:k] != full['data'].split('|')[:k] or v['data'].count('|') != k - 1:
        return 'prefix of %d bytes presents data that differ from the first %d steps of the full file' % (case['cut'], k)
    if v['tflag'].split(',')[:k] != full['tflag'].split(',')[:k]:
        return 'prefix presents time flags %s, the full file %s' % (v['tflag'], full['tflag'])
    return None


def classify(case, failure, model_out):
    return None


def nontrivial(case, res):
    if case.get('family', 'uamiv') != 'uamiv':
        return case['cut'] > 140
    nspec = len(case['spec']['species'])
    return case['cut'] > 4 * (103 + 10 * nspec)


def distribution(recs):
    d = {'errors': 0, 'ok_steps': {}}
    for r in recs:
        if 'err' in r['impl']:
            d['errors'] += 1
            d['err_' + r['impl']['err']] = d.get('err_' + r['impl']['err'], 0) + 1
        elif r['case'].get('family', 'uamiv') != 'uamiv':
            d['ok_' + r['case']['family']] = d.get('ok_' + r['case']['family'], 0) + 1
        elif 'inconsistent' in r['impl']['view']:
            d['inconsistent'] = d.get('inconsistent', 0) + 1
        else:
            k = r['impl']['view']['nt']
            d['ok_steps'][k] = d['ok_steps'].get(k, 0) + 1
    return d
