"""C14 — truncated binary files are never silently misread (uamiv Memmap reader; more formats to follow)"""
import json

from .. import camx, lib

ID = 'C14'
LEAN_MODULE = 'PncProofs.C14'
LEAN_FILE = 'PncProofs/C14.lean'
NAMESPACE = 'Props.C14'
LEAN_CONE = ['PncModel.Words', 'PncModel.Camx.Uamiv', 'PncProofs.PrefixLemmas', 'PncProofs.C14']
LEMMA_FILES = ['PncProofs/PrefixLemmas.lean']
REQUIRED_THEOREMS = ['prefix_safe', 'odd_cut_raises']
RULE = ('small generated uamiv files (1-2 species, 1-2 layers, 1-2x1-2 cells, 1-3 steps) cut at byte offsets: '
        'quick = every record boundary +-{0,1,2,3,4} bytes and 40 random offsets per file; thorough = EVERY byte '
        'offset of each file; compared: raise/no-raise and the complete view (dimension counts, species, '
        'TFLAG/ETFLAG, every data word) with the Lean reader model; oracle: exposes only complete leading '
        'steps identical to the full file; non-trivial = cut inside the time-step region')
ASSUMPTIONS = ['numpy.memmap raises when offset+shape exceeds the file (modelled as error)',
               'covers the uamiv Memmap reader; lateral_boundary / meteorological / bpch readers are not yet in this check']
MIN_NONTRIVIAL = {'quick': 40, 'thorough': 400}
NPROC = {'quick': 1, 'thorough': 12}

_CACHE = {}


def _file_bytes(spec):
    key = json.dumps(spec, sort_keys=True)
    if key not in _CACHE:
        b = camx.ref_encode_uamiv(spec)
        full = camx.read_with_library(b)
        _CACHE[key] = (b, full)
        if len(_CACHE) > 8:
            _CACHE.pop(next(iter(_CACHE)))
    return _CACHE[key]


def gen(rng, tier):
    out = []
    nfiles = 3 if tier == 'quick' else 10
    for fi in range(nfiles):
        spec = camx.gen_uamiv(rng, maxdim=2, maxsteps=3)
        spec['species'] = spec['species'][:2]
        spec['nz'] = min(spec['nz'], 2)
        nt = len(spec['tflag'])
        spec['data'] = [[[[camx.rand_f32_bits(rng) for _ in range(spec['nx'] * spec['ny'])] for _ in range(spec['nz'])]
                         for _ in spec['species']] for _ in range(nt)]
        nspec, cells, nz = len(spec['species']), spec['nx'] * spec['ny'], spec['nz']
        off = 4 * (103 + 10 * nspec)
        blk = 4 * (6 + nspec * nz * (13 + cells))
        size = off + nt * blk
        if tier == 'thorough':
            cuts = list(range(0, size))
        else:
            marks = [0, 312, 380, 404, off - 4, off] + [off + t * blk + d for t in range(nt + 1) for d in (0, 24)] + \
                    [off + t * blk + 24 + k * 4 * (13 + cells) for t in range(nt) for k in range(nspec * nz)]
            cuts = set()
            for mk in marks:
                for d in (-4, -3, -2, -1, 0, 1, 2, 3, 4):
                    if 0 <= mk + d < size:
                        cuts.add(mk + d)
            for _ in range(40):
                cuts.add(rng.randrange(size))
            cuts = sorted(cuts)
        for n in cuts:
            out.append(dict(spec=spec, cut=n))
    return out


def impl(case):
    b, full = _file_bytes(case['spec'])
    p = b[:case['cut']]
    try:
        v = camx.read_with_library(p)
        return dict(view=v, hex=p.hex())
    except lib.HarnessError:
        raise
    except Exception as e:
        return dict(err=type(e).__name__, msg=str(e)[:100], hex=p.hex())


def to_line(case, res):
    h = res['hex']
    n = len(h) // 8
    return 'bin uamiv-read %s %d' % (h[:8 * n] or '-', (len(h) // 2) % 4)


def agree(case, out, res):
    if 'err' in res:
        return None if out.startswith('err') else 'impl raised %s (%s), model presents %s' % (res['err'], res.get('msg'), out[:60])
    if not out.startswith('ok '):
        return 'model %s, impl returned %s steps' % (out[:40], res['view'].get('nt'))
    return camx.diff_view(out, res['view'])


def oracle(case, res):
    if 'err' in res:
        return None
    b, full = _file_bytes(case['spec'])
    v = res['view']
    if 'inconsistent' in v:
        return 'prefix of %d bytes opens without error but %s' % (case['cut'], v['inconsistent'])
    for k in ('nspec', 'nx', 'ny', 'nz', 'species'):
        if v[k] != full[k]:
            return 'prefix of %d bytes presents %s=%s, the full file %s' % (case['cut'], k, v[k], full[k])
    k = v['nt']
    if k > full['nt']:
        return 'prefix presents %d steps, the full file has %d' % (k, full['nt'])
    if v['data'].split('|')[:k] != full['data'].split('|')[:k] or v['data'].count('|') != k - 1:
        return 'prefix of %d bytes presents data that differ from the first %d steps of the full file' % (case['cut'], k)
    if v['tflag'].split(',')[:k] != full['tflag'].split(',')[:k]:
        return 'prefix presents time flags %s, the full file %s' % (v['tflag'], full['tflag'])
    return None


def classify(case, failure, model_out):
    return None


def nontrivial(case, res):
    nspec = len(case['spec']['species'])
    return case['cut'] > 4 * (103 + 10 * nspec)


def distribution(recs):
    d = {'errors': 0, 'ok_steps': {}}
    for r in recs:
        if 'err' in r['impl']:
            d['errors'] += 1
            d['err_' + r['impl']['err']] = d.get('err_' + r['impl']['err'], 0) + 1
        elif 'inconsistent' in r['impl']['view']:
            d['inconsistent'] = d.get('inconsistent', 0) + 1
        else:
            k = r['impl']['view']['nt']
            d['ok_steps'][k] = d['ok_steps'].get(k, 0) + 1
    return d
