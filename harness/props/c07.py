"""C07 — saving to netCDF and reopening reproduces the file"""
import os
from fractions import Fraction

import json
import numpy as np

from .. import lib

ID = 'C07'
LEAN_MODULE = 'PncProofs.C07'
LEAN_FILE = 'PncProofs/C07.lean'
NAMESPACE = 'Props.C07'
LEAN_CONE = ['PncModel.NcStore', 'PncProofs.C07']
LEMMA_FILES = []
REQUIRED_THEOREMS = ['cell_roundtrip', 'var_roundtrip', 'file_roundtrip', 'second_cycle', 'mask_lost_counterexample', 'default_fill_counterexample']
RULE = ('[derived] variables replaced by ones derived from them with another value type (var * 0.5, astype) are saved with the type of their values; [second cycle] every reopened file (a netcdf-class object whose variables live on disk) is saved and reopened once more and must come back unchanged; ' +
        'random files (1-3 dimensions, optional unlimited first dimension - several unlimited dimensions in NETCDF4 -, 1-5 variables of every dtype the flavour '
        'can store incl. char, rank 0-3, masked variables whose fill is given as fill_value / missing_value / '
        '_FillValue / both (equal or different) / by no attribute at all (netCDF default fill), str / float / int / array attributes on variables and file, a '
        'leading-underscore attribute) x four netCDF flavours x complevel 0/4: save() then pncopen(format=netcdf); '
        'the reopened file (dimensions, attributes with values, variable dtypes, dimension tuples, cells and masks) is '
        'compared with the Lean model of save+reopen and, independently, with the source file itself (oracle); '
        'non-trivial = at least one masked variable with a masked cell and one unmasked variable; the flavour of the file on disk must be the requested one, also when the output path already holds a file (another flavour, empty); attribute names that are python attributes of netCDF4 objects (path, name, mask, scale, parent); kind big: an unmasked or masked variable of 8-17 MiB')
ASSUMPTIONS = ['netCDF4-python/HDF5/zlib store and return values bit-exactly and auto-mask as modelled (readCell): observed on every run, not proved',
               'attribute names interpreted by netCDF4-python (valid_range, valid_min/max, scale_factor, add_offset) are outside the domain',
               'attribute values are opaque tokens in the model (identity); python ints are compared by value (NETCDF3 stores int32)']
MIN_NONTRIVIAL = {'quick': 40, 'thorough': 400}
NPROC = {'quick': 4, 'thorough': 12}

FLAVOURS = ['NETCDF3_CLASSIC', 'NETCDF3_64BIT_OFFSET', 'NETCDF4_CLASSIC', 'NETCDF4']
DTS = {'NETCDF3_CLASSIC': ['f', 'd', 'i', 'h', 'b', 'c'], 'NETCDF3_64BIT_OFFSET': ['f', 'd', 'i', 'h', 'b', 'c'],
       'NETCDF4_CLASSIC': ['f', 'd', 'i', 'h', 'b', 'c'],
       'NETCDF4': ['f', 'd', 'i', 'h', 'b', 'c', 'q', 'B', 'H', 'I', 'Q']}
VATTRS = {'units': 'ppb', 'long_name': 'x y', 'gain': 1.5, 'vrange': [0.5, 5.0], 'flag': ('i4', 3), 'count': 7,
          'small': ('i2', 12), 'tiny': ('i1', -3), 'ratio': ('f4', 0.25),
          # attributes netCDF tools give a meaning: a quantisation hint (the data are not to be rounded on writing) and a
          # valid maximum above every value, stored as float32 whatever the variable's type
          'least_significant_digit': ('i4', 0), 'valid_max': ('f4', 250.5),
          # names that are python attributes of netCDF4.Variable
          'scale': 0.5, 'path': 'x/y', 'name': 'nm', 'parent': 'none',
          # a double underscore inside a name (NCO__version style), text beyond ASCII
          'cell__methods': 'time: mean', 'comment': u'\u00b5g m-3 (Universit\u00e4t)'}
GATTRS = {'title': 'hello world', 'version': ('f4', 1.25), 'levels': ('i4', [1, 2, 3]), 'n': 5, '_private': 'x',
          'big': ('i8', 2 ** 40), 'shorts': ('i2', [1, 2]), 'half': ('f4', 0.5),
          # names that are python attributes of netCDF4.Dataset
          'path': 'a/b', 'name': 'fname', 'mask': 'land', 'scale': 2.5, 'parent': 'p',
          # a double underscore inside a name, text beyond ASCII
          'grid__mapping': 'lcc', 'institution': u'Universit\u00e4t \u00b0C',
          # a variable list in IOAPI style that names a variable the file does not have (left by subsetVariables / rename): attributes
          # are values, they are written as they are
          'VAR-LIST': 'V0              NOSUCHVAR       ', 'NVARS': ('i4', 2)}


def gen(rng, tier):
    n = 160 if tier == 'quick' else 3000
    out = []
    for _ in range(n):
        fl = rng.choice(FLAVOURS)
        nd = rng.randint(1, 3)
        dims = [[nm, rng.randint(1, 3), ((i == 0 or fl == 'NETCDF4') and rng.random() < 0.4)]
                for i, nm in enumerate(['t', 'y', 'x'][:nd])]        # NETCDF4 may have several unlimited dimensions
        dims.append(['s', 4, False])
        vs = []
        for vi in range(rng.randint(1, 5)):
            dt = rng.choice(DTS[fl])
            names = [d[0] for d in dims[:-1]]
            if dt == 'c':
                vd = rng.sample(names, rng.randint(0, 1)) + ['s']
                vs.append(dict(name='C%d' % vi, dt='c', dims=vd, how=None, attrs=[], seed=rng.randrange(1000)))
                continue
            vd = [nm for nm in names if nm in rng.sample(names, rng.randint(0, nd))]
            how = rng.choice([None, None, 'fill_value', 'missing_value', '_FillValue', 'both_same', 'both_diff', 'nofill'])
            if how == 'nofill' and dt in 'bB':
                how = None          # one-byte types have no default fill that is masked on reading
            fv = rng.choice([99, 7, 120] if dt in 'bBHIQ' else [-999, -1, 99, 0, 7])
            vs.append(dict(name='V%d' % vi, dt=dt, dims=vd, how=how, fv=fv, attrs=rng.sample(sorted(VATTRS), rng.randint(0, 3)),
                           seed=rng.randrange(1000), nmask=rng.randint(0, 2), hit_fill=rng.random() < 0.05,
                           # a plain variable without any fill one of whose cells holds netCDF's default fill value of the
                           # type (a cell never written): read as masked, it has to stay masked through the second cycle
                           hit_default=(how is None and dt not in 'bB' and rng.random() < 0.25),
                           # nan / inf in cells of a masked float variable that are NOT masked: they are values
                           naninf=(how is not None and dt in 'fd' and rng.random() < 0.2),
                           # the variable is replaced by one derived from it whose values have another type (arithmetic with
                           # a float, astype): the type that is saved is the type of the values
                           derive=(rng.choice(['half', 'astype']) if how in (None, 'fill_value') and vd and rng.random() < 0.2 else None)))
            if vs[-1]['hit_default'] or vs[-1]['naninf']:
                # netCDF4 hides cells above a valid_max on reading: not next to cells that hold the default fill, inf or nan
                vs[-1]['attrs'] = [a for a in vs[-1]['attrs'] if a != 'valid_max']
            if vs[-1]['derive'] and how:
                # values 10..99(.25), halved 5..49.6: a fill outside both (a cell that merely equals the fill is read as missing)
                vs[-1]['fv'] = 120 if dt in 'bBHIQ' else -999
        # the unlimited dimension needs a variable, otherwise netCDF cannot store its length
        for d in dims:
            if d[2] and not any(d[0] in v['dims'] for v in vs):
                d[2] = False
        ga = rng.sample([k for k in sorted(GATTRS) if k != 'big' or fl == 'NETCDF4'], rng.randint(0, 4))
        out.append(dict(flavour=fl, complevel=rng.choice([0, 0, 4]), dims=dims, vars=vs, gattrs=ga,
                        # the output path may exist already: an earlier save in another flavour, an empty temporary file
                        preexist=rng.choice([None, None, None, 'empty', 'NETCDF4', 'NETCDF3_CLASSIC'])))
    # variables of more than 8 MiB (writers may work in slabs): oracle only, the model is not asked
    for i in range(1 if tier == 'quick' else 6):
        out.append(dict(kind='big', flavour=rng.choice(FLAVOURS), complevel=0, lead=rng.choice([25, 17, 33]),
                        dt=rng.choice(['d', 'd', 'f']), masked=rng.random() < 0.3))
    out.append(witnesses()[0][1])
    # values handed over as strided views of big-endian buffers; the stale variable list
    extra = []
    for c in out:
        if c.get('kind') is None and len(extra) < max(6, n // 10) and any(
                v['how'] is None and v['dims'] and v['dt'] in 'fdih' and not v.get('derive') for v in c['vars']):
            c2 = json.loads(json.dumps(c))
            for v in c2['vars']:
                if v['how'] is None and v['dims'] and v['dt'] in 'fdih' and not v.get('derive'):
                    v['layout'] = 'be_strided'
            if len(extra) % 2 == 0:
                c2['gattrs'] = sorted(set(c2['gattrs']) | {'VAR-LIST', 'NVARS'})
            extra.append(c2)
    return out + extra


def _val(spec):
    if isinstance(spec, tuple):
        return np.array(spec[1], dtype=spec[0])[()] if not isinstance(spec[1], list) else np.array(spec[1], dtype=spec[0])
    if isinstance(spec, list):
        return np.array(spec)
    return spec


def _vattr(v, a):
    """the value of variable attribute a: the unit text also padded to 16 characters (IOAPI / CAMx), with a trailing newline
    or all blank - the characters are the value"""
    if a == 'units' and v.get('seed', 0) % 4:
        return ['ppb', 'ppmV            ', 'K\n', '                '][v['seed'] % 4]
    return _val(VATTRS[a])


def build(case):
    import PseudoNetCDF as pnc
    f = pnc.PseudoNetCDFFile()
    dl = {}
    for nm, ln, un in case['dims']:
        d = f.createDimension(nm, ln)
        dl[nm] = ln
        if un:
            d.setunlimited(True)
    for v in case['vars']:
        shape = tuple(dl[d] for d in v['dims'])
        size = int(np.prod(shape)) if shape else 1
        if v['dt'] == 'c':
            var = f.createVariable(v['name'], 'c', tuple(v['dims']))
            var[...] = np.array([b'a', b'b', b'Z', b' '])[(np.arange(size) + v['seed']) % 4].reshape(shape)
            continue
        how = v['how']
        kw = {}
        if how in ('fill_value', 'both_same', 'both_diff'):
            kw['fill_value'] = v['fv']
        var = f.createVariable(v['name'], v['dt'], tuple(v['dims']), **kw)
        vals = ((np.arange(size) + 10 + v['seed'] % 50) % 100).astype(v['dt']).reshape(shape)
        if v['dt'] in 'fd':
            vals = vals + np.array(0.25, dtype=v['dt'])
        if how is not None:
            m = np.zeros(shape, bool)
            if m.size:
                for k in range(v['nmask']):
                    m.flat[(v['seed'] + 3 * k) % m.size] = True
            if v.get('hit_fill') and m.size > 1:
                vals.flat[(v['seed'] + 1) % m.size] = v['fv']        # an unmasked cell that equals the fill
            if v.get('naninf') and m.size > 1:
                free = [j for j in range(m.size) if not m.flat[j]]
                for j, x in zip(free[:2], [[np.nan, np.inf], [-np.inf, np.nan]][v['seed'] % 2]):
                    vals.flat[j] = x
            arr = np.ma.masked_array(vals, mask=m)
            if how in ('fill_value', 'both_same', 'both_diff'):
                var[...] = arr
            elif how == 'nofill':
                # masked cells and no attribute that names a fill: netCDF's default fill value of the type stands for them
                del f.variables[v['name']]
                var = f.createVariable(v['name'], v['dt'], tuple(v['dims']), values=arr)
                for a in v['attrs']:
                    setattr(var, a, _vattr(v, a))
                continue
            else:
                # a masked array in a variable created without fill_value
                f.variables[v['name']] = var = pnc.PseudoNetCDFVariable(f, v['name'], v['dt'], tuple(v['dims']), values=arr)
            fvd = np.array(v['fv']).astype(v['dt'])[()]
            if how in ('missing_value', 'both_same'):
                # the attribute may be stored with another type than its variable (float64 on a float32 variable)
                var.missing_value = np.float64(fvd) if (v['dt'] == 'f' and v['seed'] % 2 == 0 and how == 'missing_value') else fvd
            if how == '_FillValue':
                var._FillValue = fvd
            if how == 'both_diff':
                var.missing_value = np.array(v['fv'] + 1).astype(v['dt'])[()]
        else:
            if v.get('hit_default') and vals.size:
                import netCDF4
                key = np.dtype(v['dt']).str[1:]
                vals.flat[v['seed'] % vals.size] = netCDF4.default_fillvals[key]
            var[...] = vals
            if v.get('layout') == 'be_strided' and vals.ndim >= 1 and v['dt'] in 'fdih':
                # the values as a strided view of a big-endian buffer (what the memory-mapped readers of Fortran records hand out)
                buf = np.zeros(shape[:-1] + (shape[-1] * 2,), dtype='>' + np.dtype(v['dt']).str[1:])
                buf[..., ::2] = vals
                del f.variables[v['name']]
                var = f.createVariable(v['name'], v['dt'], tuple(v['dims']), values=buf[..., ::2])
        for a in v['attrs']:
            setattr(var, a, _vattr(v, a))
        if v.get('derive') == 'half':
            f.variables[v['name']] = var * 0.5
        elif v.get('derive') == 'astype':
            f.variables[v['name']] = var.astype('f' if v['dt'] == 'd' else 'd')
    for a in case['gattrs']:
        setattr(f, a, _val(GATTRS[a]))
    return f


def _tok(x):
    a = np.asarray(x)
    if a.dtype.kind in 'SU' or isinstance(x, str):
        return 's.' + str(x).encode().hex()
    # the storage type of an attribute is part of its value: float32 / float64, and the narrow integer types
    # (python ints come back as int32 or int64 depending on the flavour: compared by value)
    if a.dtype.kind == 'f':
        kind = 'f%d' % a.dtype.itemsize
    else:
        kind = ('%s%d' % (a.dtype.kind, a.dtype.itemsize)) if a.dtype.itemsize < 4 else 'i'
    return kind + '.' + '_'.join(lib.show_rat(Fraction(float(v)) if kind[0] == 'f' else Fraction(int(v))).replace('/', 'd')
                                 for v in np.atleast_1d(a).tolist())


DTN = {'float32': 'f4', 'float64': 'f8', 'int8': 'i1', 'int16': 'i2', 'int32': 'i4', 'int64': 'i8', 'uint8': 'u1',
       'uint16': 'u2', 'uint32': 'u4', 'uint64': 'u8'}


def _num(x):
    if isinstance(x, (float, np.floating)) and not np.isfinite(x):
        return 'nan' if x != x else ('inf' if x > 0 else '-inf')        # outside the rationals of the model: oracle only
    return lib.show_rat(Fraction(float(x))) if isinstance(x, (float, np.floating)) else lib.show_rat(Fraction(int(x)))


def _finite_only(text):
    """the observation without the variables that hold nan / inf (the model's numbers are rationals)"""
    toks = text.split(' ')
    out = []
    for t in toks:
        if t.startswith('vars=') and t != 'vars=-':
            keep = [v for v in t[5:].split(';') if not any(c in ('nan', 'inf', '-inf') for c in v.split('|')[-1].split(','))]
            t = 'vars=' + (';'.join(keep) or '-')
        out.append(t)
    return ' '.join(out)


def _ga(o, a):
    """an attribute by name: through getncattr where it exists (names like path / name / scale are python attributes of
    netCDF4 objects)"""
    try:
        return o.getncattr(a)
    except Exception:
        return getattr(o, a)


def obs(f):
    ds = ['%s:%d:%s' % (k, len(d), 'u' if d.isunlimited() else 'f') for k, d in f.dimensions.items()]
    ga = ['%s:%s' % (k, _tok(_ga(f, k))) for k in f.ncattrs()]
    vs = []
    for k, v in f.variables.items():
        arr = v[...]
        dtn = np.dtype(v.dtype)
        dt = 'c' if dtn.kind == 'S' else DTN[dtn.name]
        at = ['%s:%s' % (a, _tok(_ga(v, a))) for a in v.ncattrs() if a not in ('missing_value', 'fill_value', '_FillValue')]
        fills = []
        for a in ('missing_value', 'fill_value', '_FillValue'):
            # `_FillValue` is not listed by PseudoNetCDF's ncattrs(), but the writer looks it up with hasattr
            has = a in v.ncattrs() or (a == '_FillValue' and '_FillValue' in getattr(v, '__dict__', {}))
            if a == '_FillValue' and not has and isinstance(v, np.ma.MaskedArray) and 'fill_value' not in v.ncattrs():
                # an in-memory masked variable without a fill attribute: the writer's hasattr(pvar, 'fill_value') finds
                # numpy's own fill_value (1e20 / 999999 ...), which becomes the disk _FillValue without being an attribute
                fills.append(_num(np.asarray(v.fill_value).astype(v.dtype)[()]))
                continue
            fills.append(_num(np.asarray(getattr(v, a))[()]) if has else '_')
        m = np.ma.getmaskarray(arr).ravel().tolist()
        d = np.ma.getdata(arr).ravel().tolist()
        if dt == 'c':
            cells = ['_' if mm else str(x[0] if len(x) else 0) for x, mm in zip(d, m)]
        else:
            cells = ['_' if mm else _num(x) for x, mm in zip(d, m)]
        vs.append('%s|%s|%s|%s|%s|%s|%s|%d|%s' % (k, dt, '.'.join(v.dimensions) or '-', lib.show_list(at), fills[0], fills[1],
                                                 fills[2], 1 if isinstance(arr, np.ma.MaskedArray) else 0, lib.show_list(cells)))
    return 'dims=%s gattrs=%s vars=%s' % (lib.show_list(ds), lib.show_list(ga), ';'.join(vs) or '-')


def _impl_big(case):
    import PseudoNetCDF as pnc
    from .. import camx
    p = os.path.join(camx.tmpdir(), 'c07b_%d_%d.nc' % (os.getpid(), np.random.randint(1 << 30)))
    try:
        with lib.pnc_warnings():
            f = pnc.PseudoNetCDFFile()
            shape = (case['lead'], 250, 250 if case['dt'] == 'd' else 500)
            for nm, n in zip('tyx', shape):
                f.createDimension(nm, n)
            vals = (np.arange(int(np.prod(shape))) % 9973).astype(case['dt']).reshape(shape)
            if case['masked']:
                v = f.createVariable('BIG', case['dt'], ('t', 'y', 'x'), fill_value=-999)
                vals = np.ma.masked_array(vals, mask=(vals == 17))
            else:
                v = f.createVariable('BIG', case['dt'], ('t', 'y', 'x'))
            v[...] = vals
            f.save(p, format=case['flavour'], verbose=0).close()
            g = pnc.pncopen(p, format='netcdf')
            got = g.variables['BIG'][...]
            res = dict(big=True, shape=list(np.shape(got)), want=list(shape),
                       same_mask=bool(np.array_equal(np.ma.getmaskarray(got), np.ma.getmaskarray(vals))),
                       same_data=bool(np.array_equal(np.ma.getdata(got)[~np.ma.getmaskarray(vals)], np.ma.getdata(vals)[~np.ma.getmaskarray(vals)])),
                       nmasked=int(np.ma.getmaskarray(got).sum()), nmasked_src=int(np.ma.getmaskarray(vals).sum()))
            g.close()
            return res
    except lib.HarnessError:
        raise
    except Exception as e:
        return dict(big=True, err=type(e).__name__, msg=str(e)[:100])
    finally:
        if os.path.exists(p):
            os.remove(p)


def impl(case):
    from .. import camx
    if case.get('kind') == 'big':
        return _impl_big(case)
    with lib.pnc_warnings():
        f = build(case)
        src = obs(f)
        p = os.path.join(camx.tmpdir(), 'c07_%d_%d.nc' % (os.getpid(), np.random.randint(1 << 30)))
        p2 = p[:-3] + '_again.nc'
        try:
            import PseudoNetCDF as pnc
            try:
                pre = case.get('preexist')
                if pre == 'empty':
                    open(p, 'wb').close()
                elif pre:
                    import netCDF4
                    d0 = netCDF4.Dataset(p, 'w', format=pre)
                    d0.createDimension('old', 2)
                    d0.leftover = 'from an earlier save'
                    d0.close()
                o = f.save(p, format=case['flavour'], complevel=case['complevel'], verbose=0)
                o.close()
                g = pnc.pncopen(p, format='netcdf')
                out = obs(g)
                flav = str(g.file_format)
                # second cycle: the reopened file (a netcdf-class object, its variables live on disk) saved again and reopened
                second = None
                try:
                    g.save(p2, format=case['flavour'], complevel=case['complevel'], verbose=0).close()
                    g2 = pnc.pncopen(p2, format='netcdf')
                    second = dict(out=obs(g2), flavour=str(g2.file_format))
                    g2.close()
                except lib.HarnessError:
                    raise
                except Exception as e:
                    second = dict(err='%s %s' % (type(e).__name__, str(e)[:100]))
                g.close()
            except lib.HarnessError:
                raise
            except Exception as e:
                return dict(src=src, err=type(e).__name__, msg=str(e)[:100])
            return dict(src=src, out=out, flavour=flav, second=second)
        finally:
            for q in (p, p2):
                if os.path.exists(q):
                    os.remove(q)


def to_line(case, res):
    if case.get('kind') == 'big':
        return 'c07 nop'
    return 'c07 rt %s %s' % (case['flavour'], _finite_only(res['src']))


def _parse(text):
    _, kv = lib.parse_kv('x ' + text)
    vs = {}
    order = []
    if kv['vars'] != '-':
        for t in kv['vars'].split(';'):
            n, dt, ds, at, m, f, u, ma, cs = t.split('|')
            vs[n] = dict(dt=dt, dims=ds, attrs=at, missing=m, fill=f, ufill=u, cells=cs)
            order.append(n)
    return dict(dims=kv['dims'], gattrs=kv['gattrs'], vars=vs, order=order)


def _diff(a, b, what=('dt', 'dims', 'attrs', 'missing', 'fill', 'ufill', 'cells')):
    if a['dims'] != b['dims']:
        return 'dimensions %s vs %s' % (a['dims'], b['dims'])
    if a['gattrs'] != b['gattrs']:
        return 'global attributes %s vs %s' % (a['gattrs'], b['gattrs'])
    if a['order'] != b['order']:
        return 'variables %s vs %s' % (a['order'], b['order'])
    for k in a['order']:
        for fld in what:
            if a['vars'][k][fld] != b['vars'][k][fld]:
                return 'variable %s %s: %s vs %s' % (k, fld, a['vars'][k][fld][:120], b['vars'][k][fld][:120])
    return None


def agree(case, out, res):
    if case.get('kind') == 'big':
        return None
    if 'err' in res:
        return None if out.startswith('err') else 'impl raised %s (%s), model %s' % (res['err'], res.get('msg'), out[:60])
    if not out.startswith('ok '):
        return 'model %s, impl saved and reopened' % out[:60]
    fin = _finite_only(res['src'])
    names = {v.split('|')[0] for v in fin.split('vars=')[1].split(' ')[0].split(';')} if 'vars=-' not in fin else set()
    reopened = _parse(res['out'])
    reopened['order'] = [k for k in reopened['order'] if k in names]
    d = _diff(_parse(out[3:]), reopened)
    return ('model vs reopened: ' + d) if d else None


def oracle(case, res):
    """the reopened file against the SOURCE file (no model): equality up to the _FillValue attribute netCDF adds
    and the attributes whose names start with an underscore, which the writer skips by design"""
    if 'err' in res:
        return 'saving a representable file raised %s %s' % (res['err'], res.get('msg'))
    if case.get('kind') == 'big':
        if res['shape'] != res['want']:
            return 'a %s variable of shape %s reopened with shape %s' % (case['dt'], res['want'], res['shape'])
        if not res['same_mask']:
            return 'a %s variable of shape %s: %d cells masked after reopening, %d in the source' % (case['dt'], res['want'], res['nmasked'], res['nmasked_src'])
        if not res['same_data']:
            return 'a %s variable of shape %s reopened with other values' % (case['dt'], res['want'])
        return None
    if res.get('flavour') != case['flavour']:
        return 'format=%s was requested, the file on disk is %s (the path %s)' % (
            case['flavour'], res.get('flavour'), 'held a %s file before' % case['preexist'] if case.get('preexist') else 'was new')
    a, b = _parse(res['src']), _parse(res['out'])
    a['gattrs'] = lib.show_list([t for t in ([] if a['gattrs'] == '-' else a['gattrs'].split(',')) if not t.startswith('_')])
    # out of domain: an unmasked value equal to a fill value cannot be stored unmasked in netCDF
    skip = {v['name'] for v in case['vars'] if (v.get('hit_fill') and v.get('how')) or v.get('hit_default')}
    for k in list(a['vars']):
        if k in skip:
            a['vars'][k]['cells'] = b['vars'].get(k, {}).get('cells')
    d = _diff(a, b, what=('dt', 'dims', 'attrs', 'missing', 'fill', 'cells'))
    if d:
        return d
    # second cycle: what was reopened is a file like any other - saved again it must come back unchanged
    sec = res.get('second')
    if sec is not None:
        if 'err' in sec:
            return 'the reopened file could not be saved again: ' + sec['err']
        if sec['flavour'] != case['flavour']:
            return 'second cycle: format=%s was requested, the file on disk is %s' % (case['flavour'], sec['flavour'])
        c = _parse(sec['out'])
        d2 = _diff(b, c, what=('dt', 'dims', 'attrs', 'missing', 'fill', 'cells'))
        if d2:
            return 'second save/open cycle changed the file: ' + d2
    return None


def classify(case, failure, model_out):
    return None


def nontrivial(case, res):
    if case.get('kind') == 'big':
        return 'err' not in res
    return 'out' in res and any(v.get('how') and v.get('nmask') for v in case['vars']) and any(not v.get('how') for v in case['vars'])


def witnesses():
    case = dict(flavour='NETCDF4_CLASSIC', complevel=0, dims=[['y', 3, False], ['s', 4, False]], gattrs=['title'],
                vars=[dict(name='V0', dt='f', dims=['y'], how='both_diff', fv=-999, attrs=['units'], seed=1, nmask=1, hit_fill=False),
                      dict(name='V1', dt='i', dims=['y'], how=None, fv=0, attrs=[], seed=2, nmask=0, hit_fill=False)])
    return [(None, case)]


def distribution(recs):
    d = {}
    for r in recs:
        c = r['case']
        d[c['flavour']] = d.get(c['flavour'], 0) + 1
        if c.get('kind') == 'big':
            d['big'] = d.get('big', 0) + 1
            continue
        d['preexist:%s' % c.get('preexist')] = d.get('preexist:%s' % c.get('preexist'), 0) + 1
        for v in c['vars']:
            k = 'dt:%s' % v['dt']
            d[k] = d.get(k, 0) + 1
            k = 'how:%s' % v.get('how')
            d[k] = d.get(k, 0) + 1
    return d
