"""C13 — memory-mapped and record-based CAMx readers agree"""
import os

import numpy as np

from .. import camx, lib
from .. import slabfmt as S

ID = 'C13'
LEAN_MODULE = 'PncProofs.C13'
LEAN_FILE = 'PncProofs/C13.lean'
NAMESPACE = 'Props.C13'
LEAN_CONE = ['PncModel.Words', 'PncModel.Camx.Uamiv', 'PncModel.Camx.Slab', 'PncModel.Camx.SlabRead', 'PncModel.Camx.UamivRead', 'PncModel.Camx.WindRecRead', 'PncProofs.WordsLemmas', 'PncProofs.SlabLemmas', 'PncProofs.SlabReadLemmas',
             'PncProofs.BridgeLemmas', 'PncProofs.UamivReadLemmas', 'PncProofs.UamivReadEncode', 'PncProofs.WindLemmas', 'PncProofs.WindRecLemmas', 'PncProofs.WindRecThm', 'PncProofs.C13']
LEMMA_FILES = ['PncProofs/SlabLemmas.lean', 'PncProofs/BridgeLemmas.lean', 'PncProofs/SlabReadLemmas.lean', 'PncProofs/UamivReadLemmas.lean', 'PncProofs/UamivReadEncode.lean', 'PncProofs/WindRecLemmas.lean', 'PncProofs/WindRecThm.lean']
REQUIRED_THEOREMS = ['chunk_records', 'leading_eq', 'mm_decode_encode', 'single_step_rejected', 'read_decode_encode', 'readers_agree', 'read_temp_decode_encode', 'readers_agree_temperature', 'uamiv_readers_agree_words', 'uamiv_read_encode', 'exUamiv_oneDay', 'wind_readers_agree', 'wind_readers_agree_one', 'exWind_reg']
RULE = ('wind files (both time-header variants, 1-9 time steps) and files of the formats that have both reader families and a uniform layout (one3d, humidity, vertical '
        'diffusivity, temperature, height/pressure: 2-4 steps, 1-3 layers, 1-4 rows and columns, hour steps of 1 or 3 '
        'incl. midnight and year-end starts, also 6, 12 and 24 hour steps over up to 6 steps (several midnights), readers called with and without rows/columns, any float32 payload; gridded average files in the domain of the record '
        'reader): the bytes of the python reference encoder (= the Lean encoder, compared) are read by the Memmap '
        'reader and by the Read reader; both views (dimension lengths, data of every variable as float32 bits, time '
        'flags where both define them) are compared with the Lean reader model and with each other; non-trivial = at '
        'least two of nz, ny*nx, nt differ from each other and from 1; height/pressure and temperature readers also opened with only rows or only columns; species names contained in earlier names')
ASSUMPTIONS = ['wind: layout (Lean encoder), the Memmap reader against its Lean model (Wind.read: header variant from the first marker, layers from the run of data records, steps from the file size; theorem Wind.read_encode) and both readers against the encoded content; grids of at least 4 cells (records of 4, 8 or 12 bytes are indistinguishable from the closing / header records)',
               'record readers: the one3d family, height/pressure and temperature are modelled (SlabRead.lean: layer count, step, end search / last record, '
               'timerange, record positions over integer HHMM arithmetic) and proved to present the written content on regular time '
               'axes (read_decode_encode, readers_agree, read_temp_decode_encode, readers_agree_temperature); Python float division int(a/b) and a//b are taken to equal integer truncating / floor division '
               'for these magnitudes; the wind record reader is modelled too (WindRecRead.lean: RecordFile.next by markers, layer count up to the second time header, end search in jumps of 2*layers+1 records, byte positions) and proved (wind_readers_agree: files of at least two steps on a regular axis)',
               'uamiv record reader: modelled (UamivRead.lean: header walk by markers, step from the first time record, count from the file header with the 24/2400 heuristic, EMISSIONS/AIRQUALITY special cases, timerange, byte positions) and compared with the real reader on every generated gridded file, also those it misreads or rejects; theorems uamiv_readers_agree_words (any file with standard headers and a time axis inside one day) and uamiv_read_encode; the agreement oracle runs on AVERAGE/INSTANT files inside one day (1, 2, 3, 4, 6 hour steps, any counts) and on 2-D emission files']
MIN_NONTRIVIAL = {'quick': 40, 'thorough': 400}
NPROC = {'quick': 4, 'thorough': 12}


def gen(rng, tier):
    n = 100 if tier == 'quick' else 3000
    out = []
    for i in range(n):
        if i % 5 == 3:
            c = S.gen_wind(rng)
            c['family'] = 'wind'
            if i % 20 == 18 and len(c['flags']) >= 3:
                # an irregular time axis: outside the property's domain, inside the models' - readers against their models only
                fl = [list(x) for x in c['flags']]
                k = rng.choice(['late', 'dup', 'back', 'gap'])
                if k == 'late':
                    fl[-1][1] = (fl[-1][1] + 100) % 2400
                elif k == 'dup':
                    fl[-1] = list(fl[-2])
                elif k == 'back':
                    fl[-1] = list(fl[0])
                else:
                    fl[1][1] = (fl[1][1] + 200) % 2400
                c['flags'] = fl
                c['irregular'] = k
        elif i % 5 == 4:
            sub = (i // 5) % 4
            if sub == 3:
                # any gridded file (all four NAME variants, steps over midnight and the year end, even hour steps): outside
                # the domain where the record reader is meaningful, inside its model - only reader against model
                c = camx.gen_uamiv(rng) if rng.random() < 0.6 else camx.gen_uamiv_at(
                    rng, 2001, rng.randint(1, 365), rng.choice([0, 3, 20, 22]), tstep=rng.choice([1, 2, 3, 4, 6]))
                c['anyfile'] = True
            else:
                c = [camx.gen_uamiv_read_domain, camx.gen_uamiv_one_day, camx.gen_uamiv_emis2d][sub](rng)
            c['family'] = 'uamiv'
            c['sibling'] = rng.random() < 0.5
        else:
            # every format with every kind of time axis on every run: the format cycles with the case number, the
            # step class (hourly / 12 h / whole days / 6 h) with the round
            fmts = sorted(S.FORMATS)
            c = S.gen(rng, fmt=fmts[(i // 5 * 3 + i % 5) % len(fmts)], longspan=[False, 12, False, 24, False, 6][(i // 25) % 6])
            c['family'] = 'slab'
            # both reader families accept a call without rows and columns for these formats
            c['noshape'] = c['fmt'] != 'height_pressure' and rng.random() < 0.25
            if not c['noshape'] and c['fmt'] in ('height_pressure', 'temperature') and rng.random() < 0.35:
                c['partial'] = rng.choice(['rows', 'cols'])     # only one of rows / columns given: the other is inferred
            if i % 15 in (2, 6) and len(c['flags']) >= 3:
                # outside the property's domain, inside the model's: an irregular time axis (the record readers
                # extrapolate the first step); only the record reader is compared with its Lean model here
                fl = [list(x) for x in c['flags']]
                k = rng.choice(['late', 'dup', 'back', 'gap'])
                if k == 'late':
                    fl[-1][1] = (fl[-1][1] + 100) % 2400
                elif k == 'dup':
                    fl[-1] = list(fl[-2])
                elif k == 'back':
                    fl[-1] = list(fl[0])
                else:
                    fl[1][1] = (fl[1][1] + 200) % 2400
                c['flags'] = fl
                c['irregular'] = k
                c['noshape'] = False
                c.pop('partial', None)
        out.append(c)
    # on every run: wind files on grids of two or three cells whose data records are as long as the OTHER kind of time header
    # (two cells under the three-word header, three cells under the two-word header); the remaining small grids are ambiguous
    # by their sizes (DESIGN, C08 block)
    for cells, stags in ((2, [0, 1]), (3, [None])):
        c = S.gen_wind(rng)
        c['family'] = 'wind'
        c['nx'], c['ny'] = rng.choice([(cells, 1), (1, cells)])
        c['stag'] = rng.choice(stags)
        c['data'] = [[[camx.rand_f32_bits(rng) for _ in range(cells)] for _ in range(2 * c['nz'])] for _ in c['flags']]
        out.append(c)
    return out


def _read(c, path, which):
    try:
        with lib.time_limit(8):
            f = S.open_reader(c, path, which)
            return S.view(f, c)
    except lib.HarnessError:
        raise
    except Exception as e:
        return dict(err='%s %s' % (type(e).__name__, str(e)[:80]))


def impl(case):
    with lib.pnc_warnings():
        if case['family'] == 'uamiv':
            b = camx.ref_encode_uamiv(case)
            res = dict(hex=b.hex())
            if case.get('sibling') and len(case['species']) >= 2:
                # another file of the same grid with the same species in another order is opened first in this process: what
                # the readers say about this file must not depend on it
                sib = dict(case, species=case['species'][1:] + case['species'][:1])
                try:
                    camx.read_with_library(camx.ref_encode_uamiv(sib), 'memmap')
                    camx.read_with_library(camx.ref_encode_uamiv(sib), 'read')
                except lib.HarnessError:
                    raise
                except Exception:
                    pass
            for which in ('memmap', 'read'):
                try:
                    with lib.time_limit(8):
                        res[which] = camx.read_with_library(b, which)
                except lib.HarnessError:
                    raise
                except Exception as e:
                    res[which] = dict(err='%s %s' % (type(e).__name__, str(e)[:80]))
            return res
        if case['family'] == 'wind':
            b = S.wind_encode(case)
            p = os.path.join(camx.tmpdir(), 'c13w_%d_%d.bin' % (os.getpid(), np.random.randint(1 << 30)))
            open(p, 'wb').write(b)
            res = dict(hex=b.hex())
            try:
                for which in ('memmap', 'read'):
                    try:
                        with lib.time_limit(8):
                            res[which] = S.wind_view(S.wind_open(case, p, which), case)
                    except lib.HarnessError:
                        raise
                    except Exception as e:
                        res[which] = dict(err='%s %s' % (type(e).__name__, str(e)[:80]))
                return res
            finally:
                os.remove(p)
        b = S.encode(case)
        p = os.path.join(camx.tmpdir(), 'c13_%d_%d.bin' % (os.getpid(), np.random.randint(1 << 30)))
        open(p, 'wb').write(b)
        try:
            res = dict(hex=b.hex(), memmap=_read(case, p, 'memmap'), read=_read(case, p, 'read'))
            if not (case.get('noshape') or case.get('partial') or case.get('irregular') or case.get('anyfile')):
                # the record reader given a RecordFile object that another reader has used already (its cursor is somewhere in
                # the file): the same answer
                try:
                    with lib.time_limit(8):
                        from PseudoNetCDF.camxfiles.FortranFileUtil import RecordFile
                        cls = S._cls(S.FORMATS[case['fmt']][3])
                        rf = RecordFile(p)
                        first = cls(rf, case['ny'], case['nx'])
                        S.view(first, case)
                        res['read_again'] = S.view(cls(rf, case['ny'], case['nx']), case)
                except lib.HarnessError:
                    raise
                except Exception as e:
                    res['read_again'] = dict(err='%s %s' % (type(e).__name__, str(e)[:80]))
            return res
        finally:
            os.remove(p)


def to_line(case, res):
    if case['family'] == 'wind':
        return S.wind_line(case)
    if case['family'] == 'uamiv':
        return 'bin uamiv-read %s 0' % res['hex']
    return 'bin slab-mm %s %d %s' % (S.FORMATS[case['fmt']][0], case['nx'] * case['ny'], res['hex'])


def _diff_slab(kv, v, with_tflag):
    if 'err' in v:
        return 'raised ' + v['err']
    for k in ('nt', 'nz'):
        if float(kv[k]) != float(v[k]):
            return '%s model=%s impl=%s' % (k, kv[k], v[k])
    if kv['vars'] != v['vars']:
        return 'variable data differ'
    if with_tflag and v.get('tflag') != kv['tflag']:
        return 'time flags model=%s impl=%s' % (kv['tflag'], v.get('tflag'))
    return None


def agree(case, out, res):
    if case['family'] == 'wind':
        if out != 'ok ' + res['hex']:
            return 'the python reference encoder and the Lean wind encoder differ'
        return S.wind_model_diff(case, res['hex'], res['memmap']) or S.wind_rec_model_diff(case, res['hex'], res['read'])
    if case['family'] == 'uamiv':
        d = _agree_uamiv_read_model(res)
        if d or case.get('anyfile'):
            return d
        if not out.startswith('ok '):
            return 'model ' + out[:40]
        for which in ('memmap', 'read'):
            if 'err' in res[which]:
                return '%s reader raised %s' % (which, res[which]['err'])
            d = camx.diff_view(out, res[which])
            if d:
                return '%s reader: %s' % (which, d)
        return None
    if case.get('irregular'):
        return _agree_read_model(case, res, True)
    # the python reference encoder against the Lean encoder, the spec view against the reader model
    enc, spec = lib.run_model(['bin slab-enc ' + S.lean_steps(case),
                               'bin slab-view %s %s' % (S.FORMATS[case['fmt']][0], S.lean_steps(case))])
    if enc != 'ok ' + res['hex']:
        return 'the python reference encoder and the Lean encoder differ'
    if spec != out:
        return 'Lean reader model and spec view differ: %s vs %s' % (out[:60], spec[:60])
    if not out.startswith('ok '):
        return 'model ' + out[:40]
    _, kv = lib.parse_kv('x ' + out[3:])
    d = _diff_slab(kv, res['memmap'], True)
    if d:
        return 'Memmap reader: ' + d
    d = _diff_slab(kv, res['read'], False)
    if d:
        return 'Read reader: ' + d
    return _agree_read_model(case, res, False)


def _agree_uamiv_read_model(res):
    return camx.record_model_diff(res['hex'], res['read'])


def _agree_read_model(case, res, irregular):
    """the record readers of the one3d family and of height/pressure files against their own Lean model
    (time arithmetic: layer count, step, end search, timerange, record positions)"""
    kind = S.FORMATS[case['fmt']][0]
    rd = lib.run_model(['bin slab-rd %d %s' % ({'one3d': 0, 'height_pressure': 1, 'temperature': 2}[kind], res['hex'])])[0]
    r = res['read']
    if 'err' in r:
        if irregular and rd.startswith('err'):
            return None
        return 'record reader raised %s, its model says %s' % (r['err'], rd[:40])
    if not rd.startswith('ok '):
        if any(h == 2400 for d, h in case['flags']):
            return None     # hour-24 labels: the record readers normalise them, their Lean model looks the stored label up
        return 'record-reader model: %s, the library read the file' % rd[:40]
    _, rk = lib.parse_kv('x ' + rd[3:])
    if (float(rk['nt']), float(rk['nz'])) != (float(r['nt']), float(r['nz'])):
        return 'record reader nt,nz model=%s,%s impl=%s,%s' % (rk['nt'], rk['nz'], r['nt'], r['nz'])
    got = ';'.join(x.split('~')[1] for x in r['vars'].split(';'))
    if rk['vars'] != got:
        return 'record reader data differ from its model'
    want = ','.join('%d:%d' % (int(d_), int(t_)) for d_, t_ in r.get('timerange', []))
    if 'timerange' in r and rk['times'] != (want or '-'):
        return 'record reader timerange model=%s impl=%s' % (rk['times'], want)
    return None


def oracle(case, res):
    """the two readers against each other and against what was encoded (no model)"""
    if case.get('irregular') or case.get('anyfile'):
        return None
    a, b = res['memmap'], res['read']
    if 'err' in a or 'err' in b:
        return 'a reader raised on a valid file: memmap=%s read=%s' % (a.get('err'), b.get('err'))
    if case['family'] == 'wind':
        want = {k: [w for slabs in case['data'] for z in range(case['nz']) for w in slabs[2 * z + vi]]
                for vi, k in enumerate(('U', 'V'))}
        for nm, v in (('Memmap', a), ('Read', b)):
            if (v['nt'], v['nz']) != (float(len(case['flags'])), float(case['nz'])):
                return '%s reader: nt,nz = %s,%s, encoded %d,%d' % (nm, v['nt'], v['nz'], len(case['flags']), case['nz'])
            if v['vars'] != want:
                return '%s reader: U/V data differ from what was encoded' % nm
        if b.get('timerange') != [[d + 1, 0.0] if h == 2400 else [d, float(h)] for d, h in case['flags']]:
            return 'time flags of the record reader %s, stored %s' % (b.get('timerange'), case['flags'])
        conv = [[d + (2000000 if d < 70000 else 1900000), h * 100] for d, h in case['flags']]
        if any(h for d, h in case['flags']) and a.get('tflag') != conv:
            return 'Memmap TFLAG %s, stored %s' % (a.get('tflag'), conv)
        return None
    if case['family'] == 'uamiv':
        for k in ('nspec', 'nx', 'ny', 'nz', 'nt', 'species', 'data'):
            if a.get(k) != b.get(k):
                return 'readers disagree on %s' % k
        return None
    if (float(a['nt']), float(a['nz'])) != (float(b['nt']), float(b['nz'])):
        return 'readers disagree on dimensions: memmap nt,nz=%s,%s read %s,%s' % (a['nt'], a['nz'], b['nt'], b['nz'])
    if a['shapes'] != b['shapes']:
        sa = [[x for x in s if x != 1] for s in a['shapes']]
        sb = [[x for x in s if x != 1] for s in b['shapes']]
        if sa != sb:
            return 'readers disagree on shapes %s vs %s' % (a['shapes'], b['shapes'])
    if a['vars'] != b['vars']:
        return 'readers disagree on data'
    if 'read_again' in res and res['read_again'] != b:
        return 'the record reader on a RecordFile object that another reader used before differs from the reader on the path: %s' % (
            res['read_again'].get('err') or [k for k in b if res['read_again'].get(k) != b[k]])
    # the record readers present midnight as hour 0 of the next day, also when the file labels it hour 24 of the day that ends
    norm = [[d + 1, 0.0] if h == 2400 else [d, float(h)] for d, h in case['flags']]
    if 'timerange' in b and b['timerange'] != norm:
        return 'time flags of the record reader %s, stored in the file (and read by Memmap) %s' % (b['timerange'], case['flags'])
    conv = lib.show_list(['%d:%d' % (d + (2000000 if d < 70000 else 1900000), h * 100) for d, h in case['flags']])
    if 'tflag' in a and any(h for d, h in case['flags']) and not case.get('irregular') and a['tflag'] != conv:
        return 'Memmap TFLAG %s, the file holds %s' % (a['tflag'], conv)
    want = [w for slabs in case['data'] for s in slabs for w in s]
    kind = S.FORMATS[case['fmt']][0]
    if kind == 'one3d':
        got = a['vars'].split('~')[1]
        if got != (camx.hexwords(want) or '-'):
            return 'Memmap reader data differ from what was encoded'
    if (float(a['nt']), float(a['nz'])) != (float(len(case['flags'])), float(case['nz'])):
        return 'dimensions nt,nz=%s,%s, encoded %d,%d' % (a['nt'], a['nz'], len(case['flags']), case['nz'])
    return None


def classify(case, failure, model_out):
    return None


def nontrivial(case, res):
    if case.get('irregular') or case.get('anyfile'):
        return False
    if case['family'] in ('uamiv', 'wind'):
        return True
    vals = {case['nz'], case['nx'] * case['ny'], len(case['flags'])}
    return len(vals - {1}) >= 2


def distribution(recs):
    d = {}
    for r in recs:
        c = r['case']
        k = (c['fmt'] if c['family'] in ('slab', 'wind') else 'uamiv') + ('_irregular' if c.get('irregular') else '') + ('_any' if c.get('anyfile') else '')
        if c['family'] == 'uamiv' and c.get('anyfile'):
            k += '_raises' if 'err' in r['impl'].get('read', {}) else '_reads'
        d[k] = d.get(k, 0) + 1
    return d
