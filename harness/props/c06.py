"""C06 — file arithmetic (pncbo via operators), eval and mask against lean/PncModel/File.lean"""
import copy
import operator
from fractions import Fraction

import numpy as np

from .. import lib, pfile

ID = 'C06'
LEAN_MODULE = 'PncProofs.C06'
LEAN_FILE = 'PncProofs/C06.lean'
NAMESPACE = 'Props.C06'
LEAN_CONE = ['PncModel.Arr', 'PncModel.NsStep', 'PncModel.Generated.NamespaceOrder', 'PncModel.File', 'PncProofs.ArrLemmas', 'PncProofs.FiberLemmas', 'PncProofs.C03', 'PncProofs.C01',
             'PncProofs.NamesLemmas', 'PncProofs.C06']
LEMMA_FILES = ['PncProofs/NamesLemmas.lean']
REQUIRED_THEOREMS = ['zip_get', 'op_masked_operand', 'op_add_mul', 'op_div_zero', 'op_div', 'coords_passthrough',
                     'missing_right_copied', 'maskHit_iff', 'mask_exact', 'get_build', 'bcast_cell', 'rightData_same',
                     'eval_pointwise', 'pncexpr_resolves', 'pncexpr_sound', 'eval_resolves', 'evalIn_eq_eval',
                     'pncexpr_eq_eval', 'evalns_eq_eval', 'constants_last_counterexample', 'evalInto_spec', 'eval_creates',
                     'pncexpr_creates']
# helper lemmas that tie the model's namespaces to the order of the statements in the source (regenerated on every run)
GENERATED_TIE = ['PFile.pncexprEnv_closed', 'PFile.evalEnv_closed']
RULE = ('kind binop: two conforming files (same dimensions/variables, float64 or int32, masked operands, zero and '
        'negative divisors, small integer and half-integer values, declared coordinate variables, a variable '
        'missing on the right) x the 13 operators + - * / // ** % < <= > >= == !=; kind mask: every subset of '
        'where (by dims or by shape) / greater / greater_equal / less / less_equal / equal, coords on/off, already '
        'masked cells; kind eval: assignments of expressions (+ - * / unary -, literals) over 1-3 variables of one '
        'shape, into a new variable or (inplace) onto an existing variable of another type / maskedness; divisors incl. tiny non-zero values (2^-27 .. 2^-40); non-trivial = a masked or zero-divisor cell is involved, or two predicates are combined; half-integer bounds also on integer variables; eval on files with a global attribute named like a variable of the expression; kind chain: two operations in a row (arithmetic with a second / third file, mask) on files with declared coordinates, run through the model (runChain) and judged by numpy.ma and \'coordinates pass through from the left operand\'; kind twice: two eval calls on one object (evalInto twice); eval through pncexpr on files whose variables are named like scipy constants / helper functions (the namespace model pncexprEnv); mask(dims=[list])')
ASSUMPTIONS = ['float64 results are compared with exact rationals within 1e-12 relative',
               'results of file arithmetic take the dtype numpy gives the expression (not the declared dtype)',
               'coordinate variables are the variables declared with setCoords()']
MIN_NONTRIVIAL = {'quick': 60, 'thorough': 600}

OPS = {'add': '+', 'sub': '-', 'mul': '*', 'div': '/', 'floordiv': '//', 'pow': '**', 'mod': '%',
       'lt': '<', 'le': '<=', 'gt': '>', 'ge': '>=', 'eq': '==', 'ne': '!='}


CONSTNAMES = ['g', 'c', 'h', 'k', 'R', 'e', 'pi', 'G', 'hour', 'day', 'bar', 'atm', 'inch', 'N', 'u', 'mil', 'eV', 'hbar', 'sigma', 'alpha']


def _vals(rng, size, isint, masked, divisor=False, exponent=False):
    out = []
    for _ in range(size):
        if exponent:
            v = rng.choice([0, 1, 2, 3, 2, 1])
        elif isint:
            v = rng.randint(-6, 6)
        else:
            v = rng.randint(-12, 12) / 2
        if divisor and rng.random() < 0.2:
            v = 0
        elif divisor and not isint and rng.random() < 0.12:
            v = rng.choice([1, -1, 3]) * 2.0 ** rng.choice([-30, -40, -27])     # tiny but not zero: the quotient is finite
        out.append(v)
    if masked and size:
        for k in rng.sample(range(size), rng.randint(0, max(1, size // 3))):
            out[k] = None
    return out


def _base(rng):
    spec = pfile.gen_file(rng, maxlen=3, nvars=rng.randint(1, 4), scalar_prob=0.05)
    for v in spec['vars']:
        if v['dtype'] == 'f':
            v['dtype'] = 'd'
    return spec


def _case(rng):
    kind = rng.choice(['binop', 'binop', 'mask', 'mask', 'eval'])
    spec = _base(rng)
    dimnames = {d[0] for d in spec['dims']}
    coords = [v['name'] for v in spec['vars'] if v['name'] in dimnames]
    if kind == 'binop':
        op = rng.choice(list(OPS))
        s1, s2 = copy.deepcopy(spec), copy.deepcopy(spec)
        for v1, v2 in zip(s1['vars'], s2['vars']):
            if v1['name'] in coords:
                continue
            n = len(v1['data'])
            isint = v1['dtype'] == 'i'
            v1['data'] = _vals(rng, n, isint, v1['masked'])
            v2['data'] = _vals(rng, n, isint, v2['masked'], divisor=op in ('div', 'floordiv', 'mod'),
                               exponent=(op == 'pow'))
            if op == 'pow' and not isint:
                # negative exponents on non-zero float bases
                v2['data'] = [None if x is None else rng.choice([x, -1, -2, x]) for x in v2['data']]
        if rng.random() < 0.2 and len(s2['vars']) > 1:
            s2['vars'].pop(rng.randrange(len(s2['vars'])))
        long = [d[0] for d in s2['dims'] if d[1] > 1]
        if long and rng.random() < 0.25:
            # the right operand is a one-step / one-layer file: numpy stretches it along that axis (masks included)
            from . import c04
            s2 = c04._slice_spec(s2, rng.choice(long), 0, 1)
        # the right operand may declare a coordinate of its own that is a data variable of the left one: what is computed
        # is decided by the left operand
        data2 = [v['name'] for v in s2['vars'] if v['name'] not in coords]
        rcoords = [rng.choice(data2)] if data2 and rng.random() < 0.2 else []
        return dict(kind=kind, op=op, f1=s1, f2=s2, coords=coords, rcoords=rcoords, early=rng.random() < 0.3)
    if kind == 'mask':
        for v in spec['vars']:
            if v['name'] not in coords:
                v['data'] = _vals(rng, len(v['data']), v['dtype'] == 'i', v['masked'])
        preds = {}
        for k in ('greater', 'greater_equal', 'less', 'less_equal', 'equal'):
            if rng.random() < 0.35:
                # whole and half-integer bounds (also against integer variables); stored as 'n/d' when fractional
                preds[k] = rng.randint(-5, 5) if rng.random() < 0.6 else '%d/2' % (2 * rng.randint(-4, 4) + 1)
        where = None
        cand = [v for v in spec['vars'] if v['dims'] and v['name'] not in coords]
        if cand and rng.random() < 0.5:
            tv = rng.choice(cand)
            where = dict(dims=tv['dims'], bits=[rng.randint(0, 1) for _ in tv['data']],
                         bydims=rng.random() < 0.5)
            where['aslist'] = where['bydims'] and rng.random() < 0.4       # dims=['t', 'x'] rather than ('t', 'x')
            if rng.random() < 0.35:
                # the condition is itself a masked array (a comparison on a variable with missing cells): 2 = masked
                # there, with False left in the buffer under the mask
                where['bits'] = [2 if rng.random() < 0.3 else b for b in where['bits']]
        # the optional fill value of the new masked variables: cells that merely hold that value are not missing
        fillarg = rng.choice([None, None, None, 0, 2, -1])
        return dict(kind=kind, spec=spec, preds=preds, where=where, coords=coords, maskcoords=rng.random() < 0.2, fillarg=fillarg,
                    early=rng.random() < 0.3)
    # eval: variables of one shape
    noncoord = [v for v in spec['vars'] if v['name'] not in coords]
    if not noncoord:
        return _case(rng)
    tv = rng.choice(noncoord)
    same = [v for v in spec['vars'] if v['dims'] == tv['dims'] and v['name'] not in coords] or [tv]
    for v in same:
        v['data'] = _vals(rng, len(v['data']), False, v['masked'])
        v['dtype'] = 'd'
    via = 'eval'
    if rng.random() < 0.3:
        # the command-line expression front end (pncexpr), on files whose variables are named like the physical constants and
        # helper functions it makes available to expressions (g, c, h, k, R, e, pi ...): the file's variable is meant
        via = 'pncexpr'
        used = {v['name'] for v in spec['vars']} | {d[0] for d in spec['dims']}
        pool = [n for n in CONSTNAMES if n not in used]
        rng.shuffle(pool)
        for v in same:
            if rng.random() < 0.7 and pool:
                v['name'] = pool.pop()

    def expr(depth):
        k = rng.random()
        if depth == 0 or k < 0.3:
            return ['var', rng.choice(same)['name']] if rng.random() < 0.7 else ['lit', str(Fraction(rng.randint(-4, 4), 2))]
        if k < 0.4:
            return ['neg', expr(depth - 1)]
        if k < 0.5 and tv['dims']:
            # an operand that is a plain numpy masked array (not one of the file's variables), on either side of an operator
            return ['mlt', str(rng.randint(-3, 3)), ['var', rng.choice(same)['name']]]
        op = rng.choice(['add', 'sub', 'mul', 'div'])
        if op == 'div':
            # eval does not mask non-finite results: divide by non-zero literals only
            return ['bin', 'div', expr(depth - 1), ['lit', str(Fraction(rng.choice([1, 2, 4, -2, 3]), 1))]]
        return ['bin', op, expr(depth - 1), expr(depth - 1)]
    e = ['bin', rng.choice(['add', 'sub', 'mul']), ['var', same[0]['name']], expr(2)]
    k = rng.random() if tv['dims'] else 1.0      # numpy.ma.masked_invalid itself fails on 0-d arrays
    if k < 0.2:
        e = ['mlt', str(rng.randint(-3, 3)), e]
    elif k < 0.4:
        # a quotient by a variable (zeros included), made safe with masked_invalid
        e = ['minv', ['bin', 'div', e, ['var', rng.choice(same)['name']]]]
    target, inplace = 'NEWVAR', False
    if rng.random() < 0.3:
        # inplace=True onto an existing variable of the same shape whose type or maskedness differs from the result
        # (an integer variable, an unmasked one): the new variable replaces it
        inplace = True
        tvv = rng.choice(same)
        target = tvv['name']
        if rng.random() < 0.6:
            tvv['dtype'] = 'i'
            tvv['data'] = [None if x is None else int(rng.randint(-6, 6)) for x in tvv['data']]
        if rng.random() < 0.5:
            e = ['bin', 'div', e, ['lit', '2']]
    if rng.random() < 0.25:
        # a global attribute with the name of a variable of the expression (legal in netCDF: P0 of hybrid-sigma files)
        spec['attrs'] = list(spec['attrs']) + [rng.choice(_all_vars(e))]
    if via == 'pncexpr':
        inplace = True          # pncexpr adds the result to a wrapper around the whole file
    return dict(kind=kind, spec=spec, expr=e, target=target, coords=coords, inplace=inplace, via=via)


def _chain_case(rng):
    """two operations in a row (file arithmetic and/or mask) on files with declared coordinate variables: oracle only"""
    while True:
        spec = _base(rng)
        dimnames = {d[0] for d in spec['dims']}
        coords = [v['name'] for v in spec['vars'] if v['name'] in dimnames]
        if coords or rng.random() < 0.2:
            break
    specs = []
    for i in range(3):
        si = copy.deepcopy(spec)
        for v in si['vars']:
            if v['name'] not in coords:
                v['data'] = _vals(rng, len(v['data']), v['dtype'] == 'i', v['masked'])
        specs.append(si)
    steps = [rng.choice([['bin', 'add'], ['bin', 'sub'], ['bin', 'mul'], ['mask', rng.choice(['greater', 'less']), rng.randint(-3, 3)]])
             for _ in range(2)]
    return dict(kind='chain', specs=specs, steps=steps, coords=coords)


def _twice_case(rng):
    """two eval calls on one file object, the variable of the expression replaced under its name in between (by the first
    in-place eval, by createVariable-like assignment): the second call sees the file as it is then; oracle only"""
    while True:
        spec = _base(rng)
        dimnames = {d[0] for d in spec['dims']}
        cand = [v for v in spec['vars'] if v['name'] not in dimnames and v['dims']]
        if cand:
            break
    tv = rng.choice(cand)
    tv['dtype'] = 'd'
    tv['data'] = _vals(rng, len(tv['data']), False, tv['masked'])
    return dict(kind='twice', spec=spec, var=tv['name'], how=rng.choice(['inplace', 'inplace', 'assign']), coords=[])


def _extreme_case(rng):
    """float32 operands near the end of the range and operands that hold unmasked inf / nan, with + - *: a result that is not
    finite is missing, whatever the operator (oracle only: the model computes in rationals)"""
    n = rng.randint(2, 5)
    pool = ['3e38', '-3e38', '1e30', '-1e30', '2', '-1.5', '0', 'inf', '-inf', 'nan', '1e-30']
    return dict(kind='extreme', n=n, op=rng.choice(['add', 'sub', 'mul', 'add', 'sub', 'mul', 'div']),
                a=[rng.choice(pool) for _ in range(n)], b=[rng.choice(pool) for _ in range(n)], coords=[])


def _reflect_case(rng):
    """left operand a plain in-memory file, right operand an object of a reader class (opened from netCDF on disk), with
    different coordinate values and a variable only the left file has: the result follows the LEFT operand (oracle only)"""
    n = rng.randint(2, 4)
    return dict(kind='reflect', n=n, op=rng.choice(['add', 'sub', 'mul', 'lt', 'le', 'gt', 'ge', 'eq', 'ne']),
                a=[rng.randint(0, 9) for _ in range(n)], b=[rng.randint(0, 9) for _ in range(n)], coords=['time'])


def _maskvals_case(rng):
    """the legacy helper mask_vals(f, 'type,value') behind the --mask option, one or two in a row (the second sees variables
    that are already masked), incl. 'where,<expression over the variables>': oracle only"""
    n = rng.randint(3, 6)
    steps = [rng.choice([['greater', rng.randint(4, 8)], ['less', rng.randint(1, 3)], ['equal', rng.randint(0, 9)],
                         ['where', 'A[:]>%d' % rng.randint(3, 7)], ['where', '(A[:]+B[:])<%d' % rng.randint(3, 9)],
                         # a condition with a reduction: it is evaluated once, on the variables as they are before the step
                         ['where', 'A[:]>A[:].mean()'], ['where', 'A[:]>=(A[:].min()+A[:].max())/2.']])
             for _ in range(rng.randint(1, 2))]
    return dict(kind='maskvals', n=n, a=[rng.randint(0, 9) for _ in range(n)], b=[rng.randint(0, 9) for _ in range(n)],
                premask=[rng.random() < 0.25 for _ in range(n)], steps=steps, coords=[])


def _exprmask_case(rng):
    """mask() on the file the expression front end pncexpr returns (a wrapper around its input): the new variable and the
    input's variables are masked where the predicate holds (oracle only)"""
    n = rng.randint(3, 6)
    return dict(kind='exprmask', n=n, a=[rng.randint(0, 9) for _ in range(n)], premask=[rng.random() < 0.25 for _ in range(n)],
                factor=rng.choice([2, 3, -1]), greater=rng.randint(2, 12), coords=[])


def _seq_case(rng):
    """the functional front end seqpncbo(ops, files) behind --op-typ: three or four files folded from the left with operators
    that neither commute nor associate; the coordinate variable is the left-most file's (oracle only)"""
    n = rng.randint(2, 5)
    k = rng.randint(3, 4)
    return dict(kind='seq', n=n, coords=[], ops=[rng.choice(['-', '/', '-', '/', '+', '*']) for _ in range(k - 1)],
                vals=[[rng.randint(0, 6) for _ in range(n)] for _ in range(k)], times=[[10 * j + i for i in range(n)] for j in range(k)])


def _rmsingle_case(rng):
    """a file with a single time step whose coordinate variable is named after the dimension, removeSingleton, then an
    operator with itself or mask(): the coordinate variable is still passed through (oracle only)"""
    n = rng.randint(2, 4)
    return dict(kind='rmsingle', n=n, coords=[], a=[rng.randint(0, 30) for _ in range(n)], t=rng.randint(5, 40),
                op=rng.choice(['add', 'truediv', 'mask']), dimkey=rng.choice([None, 'time']))


def _maskmeta_case(rng):
    """mask_vals with its default list of coordinate names: a data variable whose name merely begins with a coordinate name
    (layer_thickness, time_since_start) is data (oracle only)"""
    n = rng.randint(3, 6)
    return dict(kind='maskmeta', n=n, coords=[], name=rng.choice(['layer_thickness', 'time_since_start', 'latitude_flux', 'level_height']),
                a=[rng.randint(0, 9) for _ in range(n)], b=[rng.randint(0, 9) for _ in range(n)],
                step=rng.choice([['greater', rng.randint(3, 7)], ['less', rng.randint(2, 5)], ['where', 'A[:]>%d' % rng.randint(3, 6)]]))


def _masktr_case(rng):
    """mask(where=condition over (y, x)) on a square grid that also holds a field laid out (x, y): the condition belongs to the
    variables of its dimension tuple, in that order (oracle only)"""
    n = rng.randint(2, 4)
    return dict(kind='masktr', n=n, coords=[], a=[rng.randint(0, 9) for _ in range(n * n)], at=[rng.randint(0, 9) for _ in range(n * n)],
                bits=[rng.randint(0, 1) for _ in range(n * n)], bydims=rng.random() < 0.6, greater=rng.choice([None, None, 7]))


def gen(rng, tier):
    n = 300 if tier == 'quick' else 10000
    return [_masktr_case(rng) for _ in range(max(3, n // 60))] + [_case(rng) for _ in range(n)] + [_chain_case(rng) for _ in range(n // 6)] + [_twice_case(rng) for _ in range(n // 15)] + \
        [_extreme_case(rng) for _ in range(n // 10)] + [_maskvals_case(rng) for _ in range(n // 10)] + \
        [_reflect_case(rng) for _ in range(max(4, n // 30))] + [_exprmask_case(rng) for _ in range(max(3, n // 60))] + \
        [_seq_case(rng) for _ in range(max(3, n // 60))] + [_rmsingle_case(rng) for _ in range(max(3, n // 60))] + \
        [_maskmeta_case(rng) for _ in range(max(3, n // 60))]


def _py(e):
    if e[0] == 'var':
        return e[1]
    if e[0] == 'lit':
        q = Fraction(e[1])
        return '(%r)' % float(q)
    if e[0] == 'neg':
        return '(-%s)' % _py(e[1])
    if e[0] == 'mlt':
        return 'np.ma.masked_less(%s, %r)' % (_py(e[2]), float(Fraction(e[1])))
    if e[0] == 'minv':
        return 'np.ma.masked_invalid(%s)' % _py(e[1])
    return '(%s %s %s)' % (_py(e[2]), OPS[e[1]], _py(e[3]))


def _flat(e):
    if e[0] in ('var', 'lit'):
        return [e[0], e[1]]
    if e[0] == 'neg':
        return ['neg'] + _flat(e[1])
    if e[0] == 'minv':
        return ['minv'] + _flat(e[1])
    if e[0] == 'mlt':
        return ['mlt', e[1]] + _flat(e[2])
    return ['bin', e[1]] + _flat(e[2]) + _flat(e[3])


def _build(spec, coords, early=False):
    """the file; early: the coordinate names are registered before the variables exist (setCoords(..., missing='ignore'),
    'add in case used later'), as a reader that declares its coordinates first does"""
    f = pfile.build(spec)
    if not early:
        f.setCoords(coords)
        return f
    import PseudoNetCDF as pnc
    g = pnc.PseudoNetCDFFile()
    g.setCoords(coords)
    for dk, dv in f.dimensions.items():
        g.copyDimension(dv, key=dk)
    for vk, vv in f.variables.items():
        g.copyVariable(vv, key=vk)
    for ak in f.ncattrs():
        setattr(g, ak, getattr(f, ak))
    return g


def impl(case):
    try:
        with lib.pnc_warnings():
            if case['kind'] == 'extreme':
                import PseudoNetCDF as pnc
                fs = []
                for vals in (case['a'], case['b']):
                    f = pnc.PseudoNetCDFFile()
                    f.createDimension('x', case['n'])
                    v = f.createVariable('A', 'f', ('x',))
                    v[:] = np.array([float(x) for x in vals], dtype='f')
                    fs.append(f)
                with np.errstate(all='ignore'):
                    o = {'add': operator.add, 'sub': operator.sub, 'mul': operator.mul, 'div': operator.truediv}[case['op']](fs[0], fs[1])
                r = o.variables['A'][...]
                return dict(mask=np.ma.getmaskarray(r).tolist(), data=[repr(float(x)) for x in np.ma.getdata(r).tolist()],
                            dtype=str(np.ma.getdata(r).dtype))
            if case['kind'] == 'reflect':
                import os
                import PseudoNetCDF as pnc
                from .. import camx
                fs = []
                for i, vals in enumerate((case['a'], case['b'])):
                    f = pnc.PseudoNetCDFFile()
                    f.createDimension('time', case['n'])
                    t = f.createVariable('time', 'd', ('time',))
                    t[:] = np.arange(case['n']) + 10 * i
                    v = f.createVariable('A', 'd', ('time',))
                    v[:] = vals
                    if i == 0:
                        w = f.createVariable('ONLYLEFT', 'd', ('time',))
                        w[:] = 5
                    f.setCoords(['time'])
                    fs.append(f)
                path = os.path.join(camx.tmpdir(), 'c06r_%d_%d.nc' % (os.getpid(), np.random.randint(1 << 30)))
                fs[1].save(path, format='NETCDF4_CLASSIC', verbose=0).close()
                right = pnc.pncopen(path, format='netcdf')
                try:
                    with np.errstate(all='ignore'):
                        o = eval('fs[0] %s right' % OPS[case['op']])
                    return dict(time=np.asarray(o.variables['time'][:], dtype='d').tolist(), names=sorted(o.variables),
                                A=np.ma.getdata(o.variables['A'][:]).astype('d').tolist())
                finally:
                    right.close()
                    os.remove(path)
            if case['kind'] == 'masktr':
                import PseudoNetCDF as pnc
                n = case['n']
                f = pnc.PseudoNetCDFFile()
                f.createDimension('y', n)
                f.createDimension('x', n)
                va = f.createVariable('A', 'd', ('y', 'x'))
                va[:] = np.array(case['a'], dtype='d').reshape(n, n)
                vt = f.createVariable('AT', 'd', ('x', 'y'))
                vt[:] = np.array(case['at'], dtype='d').reshape(n, n)
                cond = np.array(case['bits'], dtype=bool).reshape(n, n)
                kw = dict(where=cond)
                if case['bydims']:
                    kw['dims'] = ('y', 'x')
                else:
                    cv = f.createVariable('COND', 'd', ('y', 'x'))
                    cv[:] = cond
                    kw['where'] = f.variables['COND'][:] > 0.5
                    kw['dims'] = f.variables['COND'].dimensions
                if case['greater'] is not None:
                    kw['greater'] = case['greater']
                o = f.mask(**kw)
                out = {}
                for k in ('A', 'AT'):
                    r = o.variables[k][...]
                    out[k] = dict(mask=np.ma.getmaskarray(r).ravel().tolist(), data=np.ma.getdata(r).astype('d').ravel().tolist())
                return dict(vars=out)
            if case['kind'] == 'seq':
                import PseudoNetCDF as pnc
                from PseudoNetCDF.core._functions import seqpncbo
                fs = []
                for vals, times in zip(case['vals'], case['times']):
                    f = pnc.PseudoNetCDFFile()
                    f.createDimension('time', case['n'])
                    tv = f.createVariable('time', 'd', ('time',))
                    tv[:] = np.array(times, dtype='d')
                    va = f.createVariable('A', 'd', ('time',))
                    va[:] = np.array(vals, dtype='d')
                    f.setCoords(['time'])
                    fs.append(f)
                with np.errstate(all='ignore'):
                    out = seqpncbo(list(case['ops']), fs)
                r = out[0].variables['A'][...]
                return dict(nout=len(out), time=np.asarray(out[0].variables['time'][...], dtype='d').tolist(),
                            vars=dict(A=dict(mask=np.ma.getmaskarray(r).tolist(), data=np.ma.getdata(r).astype('d').tolist())))
            if case['kind'] == 'rmsingle':
                import PseudoNetCDF as pnc
                f = pnc.PseudoNetCDFFile()
                f.createDimension('time', 1)
                f.createDimension('x', case['n'])
                tv = f.createVariable('time', 'd', ('time',))
                tv[:] = float(case['t'])
                va = f.createVariable('A', 'd', ('time', 'x'))
                va[:] = np.array(case['a'], dtype='d')[None]
                f.setCoords(['time'])
                g = f.removeSingleton() if case['dimkey'] is None else f.removeSingleton(case['dimkey'])
                with np.errstate(all='ignore'):
                    r = g + g if case['op'] == 'add' else (g / g if case['op'] == 'truediv' else g.mask(greater=3))
                out = {}
                for k in ('time', 'A'):
                    x = r.variables[k][...]
                    out[k] = dict(mask=np.ma.getmaskarray(x).ravel().tolist(), data=np.ma.getdata(x).astype('d').ravel().tolist())
                return dict(vars=out)
            if case['kind'] == 'maskmeta':
                import PseudoNetCDF as pnc
                from PseudoNetCDF.core._functions import mask_vals
                f = pnc.PseudoNetCDFFile()
                f.createDimension('x', case['n'])
                for k, vals in (('A', case['a']), (case['name'], case['b']), ('time', case['b'])):
                    v = f.createVariable(k, 'd', ('x',))
                    v[:] = np.array(vals, dtype='d')
                f = mask_vals(f, '%s,%s' % tuple(case['step']))
                out = {}
                for k in ('A', case['name'], 'time'):
                    x = f.variables[k][...]
                    out[k] = dict(mask=np.ma.getmaskarray(x).tolist(), data=np.ma.getdata(x).astype('d').tolist())
                return dict(vars=out)
            if case['kind'] == 'exprmask':
                import PseudoNetCDF as pnc
                from PseudoNetCDF.core._functions import pncexpr
                f = pnc.PseudoNetCDFFile()
                f.createDimension('x', case['n'])
                va = f.createVariable('A', 'd', ('x',), fill_value=-999.)
                va[:] = np.ma.masked_array(np.array(case['a'], dtype='d'), mask=case['premask'])
                g = pncexpr('C = A * %d' % case['factor'], f)
                h = g.mask(greater=case['greater'])
                out = {}
                for k in ('A', 'C'):
                    r = h.variables[k][...]
                    out[k] = dict(mask=np.ma.getmaskarray(r).tolist(), data=np.ma.getdata(r).astype('d').tolist())
                return dict(vars=out)
            if case['kind'] == 'maskvals':
                import PseudoNetCDF as pnc
                from PseudoNetCDF.core._functions import mask_vals
                f = pnc.PseudoNetCDFFile()
                f.createDimension('x', case['n'])
                va = f.createVariable('A', 'd', ('x',), fill_value=-999.)
                va[:] = np.ma.masked_array(np.array(case['a'], dtype='d'), mask=case['premask'])
                vb = f.createVariable('B', 'd', ('x',))
                vb[:] = np.array(case['b'], dtype='d')
                for mtype, mval in case['steps']:
                    f = mask_vals(f, '%s,%s' % (mtype, mval), metakeys=[])
                out = {}
                for k in ('A', 'B'):
                    r = f.variables[k][...]
                    out[k] = dict(mask=np.ma.getmaskarray(r).tolist(), data=np.ma.getdata(r).astype('d').tolist())
                return dict(vars=out)
            if case['kind'] == 'twice':
                f = pfile.build(case['spec'])
                v = case['var']
                with np.errstate(all='ignore'):
                    if case['how'] == 'inplace':
                        f.eval('%s = %s * 2' % (v, v), inplace=True)
                        o = f.eval('%s = %s * 2' % (v, v), inplace=True)
                    else:
                        f.eval('FIRST = %s * 2' % v, inplace=True)
                        f.variables[v] = f.variables[v] + 1          # the variable replaced under its name
                        o = f.eval('SECOND = %s * 2' % v, inplace=True)
                return dict(obs=pfile.observe(o))
            if case['kind'] == 'chain':
                fs = [pfile.build(sp) for sp in case['specs']]
                for f in fs:
                    f.setCoords(case['coords'])
                o = fs[0]
                with np.errstate(all='ignore'):
                    for i, st in enumerate(case['steps']):
                        if st[0] == 'bin':
                            o = {'add': operator.add, 'sub': operator.sub, 'mul': operator.mul}[st[1]](o, fs[i + 1])
                        else:
                            o = o.mask(**{st[1]: st[2]})
                return dict(obs=pfile.observe(o), coords_after=list(o.getCoords()))
            if case['kind'] == 'binop':
                f1 = _build(case['f1'], case['coords'], case.get('early'))
                f2 = _build(case['f2'], list(case['coords']) + list(case.get('rcoords') or []), case.get('early'))
                with np.errstate(all='ignore'):
                    o = eval('f1 %s f2' % OPS[case['op']])
            elif case['kind'] == 'mask':
                f = _build(case['spec'], case['coords'], case.get('early'))
                kw = {k: (float(Fraction(v)) if isinstance(v, str) else v) for k, v in case['preds'].items()}
                w = case['where']
                if w:
                    shape = [dict((d[0], d[1]) for d in case['spec']['dims'])[k] for k in w['dims']]
                    bits = np.array(w['bits']).reshape(shape)
                    arr = (bits == 1)
                    if (bits == 2).any():
                        arr = np.ma.masked_array(arr, mask=(bits == 2))
                    kw['where'] = arr
                    if w['bydims']:
                        kw['dims'] = list(w['dims']) if w.get('aslist') else tuple(w['dims'])
                if case.get('fillarg') is not None:
                    kw['fill_value'] = case['fillarg']
                o = f.mask(coords=case['maskcoords'], **kw)
            else:
                f = pfile.build(case['spec'])
                f.setCoords(case['coords'])
                with np.errstate(all='ignore'):
                    if case.get('via') == 'pncexpr':
                        from PseudoNetCDF.core._functions import pncexpr
                        o = pncexpr('%s = %s' % (case['target'], _py(case['expr'])), f)
                    else:
                        o = f.eval('%s = %s' % (case['target'], _py(case['expr'])), inplace=bool(case.get('inplace')))
        return dict(obs=pfile.observe(o))
    except Exception as e:
        return dict(err=type(e).__name__, msg=str(e)[:100])


def to_line(case, res):
    co = '.'.join(case['coords']) or '-'
    if case['kind'] in ('extreme', 'maskvals', 'reflect', 'masktr', 'exprmask', 'seq', 'rmsingle', 'maskmeta'):
        return 'c06 nop'            # no model question: float32 range / the legacy helper, judged by the oracle
    if case['kind'] == 'twice':
        return 'c06 twice %s %s %s' % (case['how'], case['var'], ' '.join(pfile.encode(case['spec'])))
    if case['kind'] == 'chain':
        steps = ['bin@%s' % st[1] if st[0] == 'bin' else 'mask@%s@%s' % (st[1], st[2]) for st in case['steps']]
        return 'c06 chain %s %s %s' % (co, ' '.join(' '.join(pfile.encode(sp)) for sp in case['specs']), ' '.join(steps))
    if case['kind'] == 'binop':
        return 'c06 binop %s %s %s %s' % (case['op'], co, ' '.join(pfile.encode(case['f1'])), ' '.join(pfile.encode(case['f2'])))
    if case['kind'] == 'mask':
        w = case['where']
        p = case['preds']
        g = lambda k: str(p[k]) if k in p else '_'
        return 'c06 mask %s %d %s %s %s %s %s %s %s %s' % (
            co, 1 if case['maskcoords'] else 0, ' '.join(pfile.encode(case['spec'])),
            ('.'.join(w['dims']) if (w and (w['bydims'] or True)) else '_') if w else '_',
            lib.show_list(w['bits']) if w else '-', g('greater'), g('greater_equal'), g('less'), g('less_equal'), g('equal'))
    if case.get('via') == 'pncexpr':
        # the helper functions and physical constants that exist under a name of the file (what the namespace holds is the
        # installed scipy's and userfuncs' business; which binding wins is the model's)
        import scipy.constants
        from PseudoNetCDF import userfuncs
        names = [v['name'] for v in case['spec']['vars']] + [case['target']]
        hs = [n for n in names if n in dir(userfuncs)]
        cs = [n for n in names if n in dir(scipy.constants)]
        return 'c06 pncexpr %s %s %s %s %s %s' % (case['target'], ','.join(_flat(case['expr'])), co, ' '.join(pfile.encode(case['spec'])),
                                                 '.'.join(hs) or '-', '.'.join(cs) or '-')
    line = 'c06 eval %s %s %s %s' % (case['target'], ','.join(_flat(case['expr'])), co, ' '.join(pfile.encode(case['spec'])))
    return line + (' 1' if case.get('inplace') else '')


def _strip_flags(text):
    return text


def agree(case, out, res):
    if case['kind'] in ('extreme', 'maskvals', 'reflect', 'masktr', 'exprmask', 'seq', 'rmsingle', 'maskmeta'):
        return None
    if 'err' in res:
        return None if out.startswith('err') else 'impl raised %s (%s), model %s' % (res['err'], res.get('msg'), out[:80])
    if not out.startswith('ok '):
        return 'model %s, impl returned' % out[:80]
    if case['kind'] == 'mask' and case['where'] and not case['where']['bydims']:
        # `where` given by shape only: applies to every variable of that shape — the model applies it by
        # dimension tuple; restrict the comparison to files where shape determines the dimension tuple
        dl = {d[0]: d[1] for d in case['spec']['dims']}
        shp = [dl[k] for k in case['where']['dims']]
        if any([dl[k] for k in v['dims']] == shp and v['dims'] != case['where']['dims'] for v in case['spec']['vars']):
            return None
    if case['kind'] == 'twice':
        a, b = pfile.parse_obs(out[3:]), pfile.parse_obs(res['obs'])
        for t in ('FIRST', 'SECOND', case['var']):
            if t in a['vars'] and t in b['vars']:
                b['vars'][t]['attrs'] = a['vars'][t]['attrs']
        return pfile.diff_parsed_numeric(a, b)
    if case['kind'] == 'eval':
        # attributes of the new variable are inherited through numpy subclass propagation: not part of C06
        a, b = pfile.parse_obs(out[3:]), pfile.parse_obs(res['obs'])
        t = case['target']
        if t in a['vars'] and t in b['vars']:
            b['vars'][t]['attrs'] = a['vars'][t]['attrs']
        return pfile.diff_parsed_numeric(a, b)
    return pfile.diff_obs_numeric(out[3:], res['obs'])


def _np(spec, v):
    shape = pfile.shape_of(spec, v)
    vals = np.array([0 if x is None else float(x) for x in v['data']], dtype='d').reshape(shape)
    if v['dtype'] == 'i':
        vals = vals.astype('i')
    if v['masked']:
        return np.ma.masked_array(vals, mask=np.array([x is None for x in v['data']]).reshape(shape))
    return vals


def _mask_invalid(x):
    x = np.ma.masked_array(x)
    d = np.ma.getdata(x)
    bad = ~np.isfinite(d.astype('d')) if d.dtype.kind in 'fc' else np.zeros(d.shape, bool)
    return np.ma.masked_array(d, mask=np.ma.getmaskarray(x) | bad)


def _cmp(name, g, want):
    m2 = np.ma.getmaskarray(want).ravel() if np.ma.isMaskedArray(want) else np.zeros(np.size(want), bool)
    d2 = np.ma.getdata(want).ravel().astype('d')
    cells = g['cells'].split(',') if g['cells'] != '-' else []
    if len(cells) != d2.size:
        return 'variable %s has %d cells, expected %d' % (name, len(cells), d2.size)
    for i, c in enumerate(cells):
        if (c == '_') != bool(m2[i]):
            return 'variable %s cell %d masked=%s, masked-array semantics give masked=%s' % (name, i, c == '_', bool(m2[i]))
        if c != '_' and abs(float(Fraction(c)) - d2[i]) > 1e-9 * max(1.0, abs(d2[i])):
            return 'variable %s cell %d = %s, numpy gives %r' % (name, i, c, d2[i])
    return None


def oracle(case, res):
    if 'err' in res:
        if case['kind'] == 'binop' and case['op'] == 'pow':
            return None     # integers to negative powers etc. are numpy errors, not generated on purpose
        return 'raised %s %s' % (res['err'], res.get('msg'))
    got = pfile.parse_obs(res['obs']) if 'obs' in res else None
    if case['kind'] == 'extreme':
        a, b = (np.array([float(x) for x in vals], dtype='f') for vals in (case['a'], case['b']))
        with np.errstate(all='ignore'):
            want = {'add': operator.add, 'sub': operator.sub, 'mul': operator.mul, 'div': operator.truediv}[case['op']](a, b)
        for i in range(case['n']):
            if bool(res['mask'][i]) != (not np.isfinite(want[i])):
                return 'float32 %s %s %s = %r: the cell is %s' % (case['a'][i], OPS[case['op']], case['b'][i], float(want[i]),
                                                                 'missing' if res['mask'][i] else 'presented as a value (%s)' % res['data'][i])
            if np.isfinite(want[i]) and float(res['data'][i]) != float(want[i]):
                return 'float32 %s %s %s = %r, the file has %s' % (case['a'][i], OPS[case['op']], case['b'][i], float(want[i]), res['data'][i])
        return None
    if case['kind'] == 'reflect':
        a, b = np.array(case['a'], dtype='d'), np.array(case['b'], dtype='d')
        want = eval('a %s b' % OPS[case['op']]).astype('d').tolist()
        bad = []
        if res['time'] != list(map(float, range(case['n']))):
            bad.append('coordinate time is %s, the left operand has %s' % (res['time'], list(range(case['n']))))
        if 'ONLYLEFT' not in res['names']:
            bad.append('the variable only the left operand has is gone')
        if res['A'] != want:
            bad.append('A is %s, expected %s' % (res['A'], want))
        if bad:
            return 'plain file %s reader-class file: %s' % (OPS[case['op']], '; '.join(bad))
        return None
    if case['kind'] == 'masktr':
        n = case['n']
        cond = np.array(case['bits'], dtype=bool).reshape(n, n)
        for k, vals, hit in (('A', case['a'], cond.ravel()), ('AT', case['at'], np.zeros(n * n, dtype=bool))):
            vals = np.array(vals, dtype='d')
            want = hit | ((vals > case['greater']) if case['greater'] is not None else False)
            if res['vars'][k]['mask'] != want.tolist():
                return 'mask(where over (y, x)%s): variable %s%s is missing at %s, the condition and predicates give %s' % (
                    ', greater=%s' % case['greater'] if case['greater'] is not None else '', k, '(x, y)' if k == 'AT' else '(y, x)',
                    res['vars'][k]['mask'], want.tolist())
        return None
    if case['kind'] == 'seq':
        if 'err' in res:
            return 'seqpncbo raised %s %s' % (res['err'], res.get('msg'))
        import operator as _op
        fn = {'-': _op.sub, '/': _op.truediv, '+': _op.add, '*': _op.mul}
        with np.errstate(all='ignore'):
            cur = np.ma.masked_array(np.array(case['vals'][0], dtype='d'))
            for op, vals in zip(case['ops'], case['vals'][1:]):
                cur = np.ma.masked_invalid(fn[op](cur, np.array(vals, dtype='d')))
        wm = np.ma.getmaskarray(cur).tolist()
        expr = ' '.join(str(x) for pair in zip(['f0'] + ['f%d' % (i + 1) for i in range(len(case['ops']))], case['ops'] + ['']) for x in pair)
        if res['nout'] != 1 or res['vars']['A']['mask'] != wm or any(
                not m and abs(x - y) > 1e-9 * max(1., abs(y)) for m, x, y in zip(wm, res['vars']['A']['data'], np.ma.getdata(cur).tolist())):
            return 'seqpncbo %s (left to right): A %s / missing %s, numpy gives %s / %s' % (
                expr, res['vars']['A']['data'], res['vars']['A']['mask'], np.ma.getdata(cur).tolist(), wm)
        if res['time'] != [float(x) for x in case['times'][0]]:
            return 'seqpncbo %s: the coordinate variable time is %s, the left-most file has %s' % (expr, res['time'], case['times'][0])
        return None
    if case['kind'] == 'rmsingle':
        if 'err' in res:
            return 'removeSingleton then %s raised %s %s' % (case['op'], res['err'], res.get('msg'))
        t = res['vars']['time']
        if any(t['mask']) or t['data'] != [float(case['t'])]:
            return 'removeSingleton(%s) then %s: the coordinate variable time (%s) comes back as %s, missing %s' % (
                case['dimkey'], case['op'], case['t'], t['data'], t['mask'])
        a = np.array(case['a'], dtype='d')
        with np.errstate(all='ignore'):
            want = np.ma.masked_invalid(a + a) if case['op'] == 'add' else (
                np.ma.masked_invalid(np.ma.masked_array(a) / a) if case['op'] == 'truediv' else np.ma.masked_greater(a, 3))
        wm = np.ma.getmaskarray(want).tolist()
        if res['vars']['A']['mask'] != wm or any(not m and x != y for m, x, y in zip(wm, res['vars']['A']['data'], np.ma.getdata(want).tolist())):
            return 'removeSingleton then %s: A %s / %s, numpy gives %s / %s' % (case['op'], res['vars']['A']['data'], res['vars']['A']['mask'],
                                                                                np.ma.getdata(want).tolist(), wm)
        return None
    if case['kind'] == 'maskmeta':
        if 'err' in res:
            return 'mask_vals raised %s %s' % (res['err'], res.get('msg'))
        A, B = np.array(case['a'], dtype='d'), np.array(case['b'], dtype='d')
        mtype, mval = case['step']
        for k, v in (('A', A), (case['name'], B)):
            if mtype == 'where':
                wm = eval(mval, dict(np=np), dict(A=A)).tolist()
            else:
                wm = {'greater': np.greater, 'less': np.less}[mtype](v, mval).tolist()
            if res['vars'][k]['mask'] != wm:
                return 'mask_vals %s (default coordinate names): data variable %s is missing at %s, the predicate gives %s' % (
                    case['step'], k, res['vars'][k]['mask'], wm)
        if any(res['vars']['time']['mask']):
            return 'mask_vals %s masked the coordinate variable time' % (case['step'],)
        return None
    if case['kind'] == 'exprmask':
        if 'err' in res:
            return 'mask() on the file pncexpr returned raised %s %s' % (res['err'], res.get('msg'))
        A = np.ma.masked_array(np.array(case['a'], dtype='d'), mask=case['premask'])
        for k, v in (('A', A), ('C', A * case['factor'])):
            wm = (np.ma.getmaskarray(v) | (np.ma.getdata(v) > case['greater'])).tolist()
            if res['vars'][k]['mask'] != wm:
                return 'pncexpr then mask(greater=%d): variable %s is missing at %s, the predicate (and the cells missing before) give %s' % (
                    case['greater'], k, res['vars'][k]['mask'], wm)
            if any(not m and x != y for m, x, y in zip(wm, res['vars'][k]['data'], np.ma.getdata(v).tolist())):
                return 'pncexpr then mask(greater=%d): unmasked values of %s changed' % (case['greater'], k)
        return None
    if case['kind'] == 'maskvals':
        A = np.ma.masked_array(np.array(case['a'], dtype='d'), mask=case['premask'])
        B = np.ma.masked_array(np.array(case['b'], dtype='d'), mask=False)
        cur = dict(A=A, B=B)
        for mtype, mval in case['steps']:
            if mtype == 'where':
                cond = np.ma.filled(eval(mval, dict(np=np), dict(cur)), True)    # a condition over a missing cell hides the cell
                cur = {k: np.ma.masked_array(np.ma.getdata(v), mask=np.ma.getmaskarray(v) | cond) for k, v in cur.items()}
            else:
                fn = {'greater': np.greater, 'less': np.less, 'equal': np.equal}[mtype]
                cur = {k: np.ma.masked_array(np.ma.getdata(v), mask=np.ma.getmaskarray(v) | fn(np.ma.getdata(v), mval))
                       for k, v in cur.items()}
        for k in ('A', 'B'):
            wm = np.ma.getmaskarray(cur[k]).tolist()
            if res['vars'][k]['mask'] != wm:
                return 'mask_vals %s: variable %s is missing at %s, the predicates (and the cells missing before) give %s' % (
                    case['steps'], k, res['vars'][k]['mask'], wm)
            if any(not m and x != y for m, x, y in zip(wm, res['vars'][k]['data'], np.ma.getdata(cur[k]).tolist())):
                return 'mask_vals %s: unmasked values of %s changed' % (case['steps'], k)
        return None
    if case['kind'] == 'twice':
        v = next(x for x in case['spec']['vars'] if x['name'] == case['var'])
        a = np.ma.masked_array(_np(case['spec'], v))
        if case['how'] == 'inplace':
            return _cmp(case['var'], got['vars'].get(case['var'], dict(cells='-')), a * 4)
        d = _cmp('FIRST', got['vars'].get('FIRST', dict(cells='-')), a * 2)
        return d or _cmp('SECOND', got['vars'].get('SECOND', dict(cells='-')), (a + 1) * 2)
    if case['kind'] == 'chain':
        for vi, v in enumerate(case['specs'][0]['vars']):
            g = got['vars'].get(v['name'])
            if g is None:
                return 'variable %s disappeared' % v['name']
            want = np.ma.masked_array(_np(case['specs'][0], v))
            if v['name'] not in case['coords']:
                with np.errstate(all='ignore'):
                    for i, st in enumerate(case['steps']):
                        if st[0] == 'bin':
                            b = np.ma.masked_array(_np(case['specs'][i + 1], case['specs'][i + 1]['vars'][vi]))
                            want = _mask_invalid({'add': operator.add, 'sub': operator.sub, 'mul': operator.mul}[st[1]](want, b))
                        else:
                            vals = np.ma.getdata(want)
                            want = np.ma.masked_array(vals, mask=np.ma.getmaskarray(want) | ((vals > st[2]) if st[1] == 'greater' else (vals < st[2])))
            d = _cmp(v['name'], g, want)
            if d:
                return 'after %s: %s%s' % (case['steps'], d, ' (a declared coordinate variable: passed through from the left operand)' if v['name'] in case['coords'] else '')
        if sorted(res['coords_after']) != sorted(case['coords']):
            return 'after %s the result declares coordinates %s, the operands %s' % (case['steps'], res['coords_after'], case['coords'])
        return None
    if case['kind'] == 'binop':
        f2v = {v['name']: v for v in case['f2']['vars']}
        for v in case['f1']['vars']:
            g = got['vars'].get(v['name'])
            if g is None:
                return 'variable %s disappeared' % v['name']
            a = _np(case['f1'], v)
            if v['name'] in case['coords'] or v['name'] not in f2v:
                want = a
            else:
                b = _np(case['f2'], f2v[v['name']])
                with np.errstate(all='ignore'):
                    want = _mask_invalid(eval('a %s b' % OPS[case['op']]))
            d = _cmp(v['name'], g, want)
            if d:
                return d
        return None
    if case['kind'] == 'mask':
        spec = case['spec']
        dl = {d[0]: d[1] for d in spec['dims']}
        w = case['where']
        p = {k: (float(Fraction(x)) if isinstance(x, str) else x) for k, x in case['preds'].items()}
        for v in spec['vars']:
            g = got['vars'].get(v['name'])
            if g is None:
                return 'variable %s disappeared' % v['name']
            a = np.ma.masked_array(_np(spec, v))
            if v['name'] in case['coords'] and not case['maskcoords']:
                want = a
            else:
                m = np.ma.getmaskarray(a).copy()
                vals = np.ma.getdata(a)
                if w:
                    shp = [dl[k] for k in w['dims']]
                    applies = (v['dims'] == w['dims']) if w['bydims'] else (list(vals.shape) == shp)
                    if applies:
                        m |= np.array(w['bits'], dtype=bool).reshape(shp)
                if 'greater' in p:
                    m |= vals > p['greater']
                if 'greater_equal' in p:
                    m |= vals >= p['greater_equal']
                if 'less' in p:
                    m |= vals < p['less']
                if 'less_equal' in p:
                    m |= vals <= p['less_equal']
                if 'equal' in p:
                    m |= vals == p['equal']
                want = np.ma.masked_array(vals, mask=m)
            d = _cmp(v['name'], g, want)
            if d:
                return d
        return None
    # eval
    spec = case['spec']
    env = {v['name']: np.ma.masked_array(_np(spec, v)) for v in spec['vars']}
    with np.errstate(all='ignore'):
        env['np'] = np
        want = np.ma.masked_array(eval(_py(case['expr']), {}, env))
    g = got['vars'].get(case['target'])
    if g is None:
        return 'eval did not create %s' % case['target']
    return _cmp(case['target'], g, want)


KEY_SCALAR = 'C06/eval/rank0-masked-result'


def _first_var(e):
    if e[0] == 'var':
        return e[1]
    if e[0] == 'lit':
        return None
    if e[0] in ('neg', 'minv'):
        return _first_var(e[1])
    if e[0] == 'mlt':
        return _first_var(e[2])
    return _first_var(e[2]) or _first_var(e[3])


KEY_REFLECT = 'C06/comparison/right-operand-of-a-reader-class'


def classify(case, failure, model_out):
    # python evaluates `left > right` through right.__lt__(left) when right's class derives from left's: the values are
    # right, coordinates and left-only variables follow the RIGHT operand (recorded finding) - comparisons only, and only
    # with exactly these two symptoms
    if case['kind'] == 'reflect' and case['op'] in ('lt', 'le', 'gt', 'ge', 'eq', 'ne') and failure.startswith('plain file') and \
            'coordinate time is' in failure and 'the variable only the left operand has is gone' in failure and 'A is' not in failure:
        return KEY_REFLECT
    return None


def _all_vars(e):
    if e[0] == 'var':
        return [e[1]]
    if e[0] == 'lit':
        return []
    if e[0] in ('neg', 'minv'):
        return _all_vars(e[1])
    if e[0] == 'mlt':
        return _all_vars(e[2])
    return _all_vars(e[2]) + _all_vars(e[3])


def witnesses():
    return [(KEY_REFLECT, dict(kind='reflect', n=3, op='gt', a=[1, 5, 3], b=[2, 2, 2], coords=['time']))]


def nontrivial(case, res):
    if case['kind'] == 'twice':
        return 'err' not in res
    if case['kind'] == 'chain':
        return bool(case['coords'])
    if case['kind'] == 'binop':
        return any(None in v['data'] or 0 in v['data'] for v in case['f2']['vars'])
    if case['kind'] == 'mask':
        return len(case['preds']) + (1 if case['where'] else 0) >= 2
    return True


def distribution(recs):
    d = {}
    for r in recs:
        c = r['case']
        k = c['kind'] + (':' + c['op'] if c['kind'] == 'binop' else '')
        d[k] = d.get(k, 0) + 1
        if 'err' in r['impl']:
            d['err_' + r['impl']['err']] = d.get('err_' + r['impl']['err'], 0) + 1
    return d
