#!/bin/sh
# usage: harness/seedtest.sh <patch.diff> <Cxx> [tier]   — apply a seeded change to /repo, run the check, undo
patch="$1"; prop="$2"; tier="${3:-quick}"
git -C /repo apply "$patch" || exit 3
./check "$prop" "$tier" 2>&1 | grep -v "^\*\*PNC\|^  " | tail -4
rc=$?
git -C /repo checkout -- .
git -C /repo clean -fdq -- src 2>/dev/null
exit $rc
