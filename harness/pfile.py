"""Shared helpers for the structural properties (C01–C06): random file specs, building the real
PseudoNetCDFFile, encoding a spec for the Lean model, observing a real file in the model's
canonical form."""
from fractions import Fraction

import numpy as np

from . import lib

DIMNAMES = ['t', 'z', 'y', 'x', 'w']
DTYPES = ['f', 'd', 'i']


def gen_file(rng, ndims=None, nvars=None, maxlen=4, coord_prob=0.3, masked_prob=0.35, scalar_prob=0.08,
             unlim_prob=0.3, len1_prob=0.15, minlen=1):
    """spec: dict(dims=[[name,len,unlim]], vars=[dict(name,dims,dtype,masked,attrs,data)], attrs=[..])
    data: flat row-major list of ints (distinct tokens) or None for masked cells"""
    nd = ndims or rng.randint(1, 5)
    names = DIMNAMES[:nd]
    dims = []
    for i, n in enumerate(names):
        ln = 1 if rng.random() < len1_prob else rng.randint(max(minlen, 1), maxlen)
        dims.append([n, ln, (i == 0 and rng.random() < unlim_prob)])
    if nd >= 2 and rng.random() < 0.1:
        dims[rng.randrange(1, nd)][2] = True        # a second record dimension (legal in memory and in NETCDF4)
    dl = {d[0]: d[1] for d in dims}
    nv = nvars or rng.randint(1, 6)
    vs = []
    used = set()
    for vi in range(nv):
        if rng.random() < scalar_prob:
            vd = []
        else:
            r = rng.randint(1, min(4, nd))
            # an ordered subset of the dimensions (netCDF order is free: also non-canonical orders)
            vd = rng.sample(names, r)
            if rng.random() < 0.8:
                vd = [n for n in names if n in vd]
        name = 'V%d' % vi
        vs.append(_mkvar(rng, name, vd, dl, vi, rng.random() < masked_prob))
        used.add(name)
    # 1-D coordinate variables
    for n in names:
        if rng.random() < coord_prob:
            cv = _mkvar(rng, n, [n], dl, 50 + names.index(n), False)
            # coordinate values: distinct, increasing
            cv['data'] = [10 * (names.index(n) + 1) + k for k in range(dl[n])]
            cv['dtype'] = 'd'
            vs.append(cv)
    attrs = rng.sample(['title', 'history', 'Conventions', 'note'], rng.randint(0, 3))
    return dict(dims=dims, vars=vs, attrs=attrs)


def _mkvar(rng, name, vd, dl, vi, masked):
    size = 1
    for n in vd:
        size *= dl[n]
    data = [1000 * (vi + 1) + k for k in range(size)]
    if masked and size:
        for k in rng.sample(range(size), rng.randint(0, max(1, size // 3))):
            data[k] = None
    attrs = rng.sample(['units', 'long_name', 'var_desc', 'note'], rng.randint(0, 3))
    if rng.random() < 0.12:
        attrs.append('trace')           # a legal attribute name that is also the name of a method of numpy arrays
    if masked:
        attrs.append('fill_value')      # set by createVariable(fill_value=...)
    out = dict(name=name, dims=list(vd), dtype=rng.choice(DTYPES), masked=masked, attrs=attrs, data=data)
    if masked and rng.random() < 0.25:
        out['fill0'] = True             # a fill value of zero (counts, class codes; the data tokens are never 0)
    return out


def drop_fill_attrs(rng, spec, prob=0.4):
    """turn some masked variables of a spec into masked variables without a fill attribute (created from masked
    values); the attribute is then absent from the source, operations may or may not add it"""
    for v in spec['vars']:
        if v['masked'] and v['dims'] and rng.random() < prob:
            v['nofill'] = True
            v['attrs'] = [a for a in v['attrs'] if a != 'fill_value']
    return spec


def shape_of(spec, v):
    dl = {d[0]: d[1] for d in spec['dims']}
    return [dl[n] for n in v['dims']]


def build(spec, cls=None):
    import PseudoNetCDF as pnc
    f = (cls or pnc.PseudoNetCDFFile)()
    for n, ln, un in spec['dims']:
        d = f.createDimension(n, ln)
        if un:
            d.setunlimited(True)
    for v in spec['vars']:
        shape = shape_of(spec, v)
        vals = np.array([0 if x is None else x for x in v['data']], dtype=v['dtype']).reshape(shape)
        if v['masked']:
            mask = np.array([x is None for x in v['data']], dtype=bool).reshape(shape)
            arr = np.ma.masked_array(vals, mask=mask)
            if v.get('nofill'):
                # a masked variable without any fill attribute: built from masked values (as many readers do)
                var = f.createVariable(v['name'], v['dtype'], tuple(v['dims']), values=arr)
            else:
                var = f.createVariable(v['name'], v['dtype'], tuple(v['dims']), fill_value=0 if v.get('fill0') else -999)
                var[...] = arr
        else:
            var = f.createVariable(v['name'], v['dtype'], tuple(v['dims']))
            var[...] = vals
        for a in v['attrs']:
            if a != 'fill_value':
                setattr(var, a, 'val_' + a)
    for a in spec['attrs']:
        setattr(f, a, 'file_' + a)
    return f


def disk_format(spec):
    """the netCDF flavour a generated file is written with: classic formats hold one record dimension"""
    return 'NETCDF4' if sum(1 for d in spec['dims'] if d[2]) > 1 else 'NETCDF4_CLASSIC'


def _cells(data):
    return lib.show_list(['_' if x is None else lib.show_rat(x) for x in data])


def encode(spec):
    """(dims, vars, attrs) tokens of the model's wire format"""
    d = lib.show_list(['%s:%d:%s' % (n, ln, 'u' if un else 'f') for n, ln, un in spec['dims']])
    vs = []
    for v in spec['vars']:
        vs.append('%s|%s|%s|%s|%s' % (v['name'], '.'.join(v['dims']) or '-',
                                     ('m' if v['masked'] else 'p') + ('i' if v['dtype'] == 'i' else ''),
                                     '.'.join(v['attrs']) or '-', _cells(v['data'])))
    return d, (';'.join(vs) or '-'), ('.'.join(spec['attrs']) or '-')


def observe(f, with_unlim=True, spec=None):
    """canonical text of a real file, identical in form to PFile.showFile; with `spec`: a fill_value attribute that an
    operation added to a variable built from masked values without one is not listed (it restates the mask)"""
    nofill = {v['name'] for v in spec['vars'] if v.get('nofill')} if spec else set()
    ds = []
    for k in sorted(f.dimensions):
        d = f.dimensions[k]
        ds.append('%s:%d:%s' % (k, len(d), 'u' if (with_unlim and d.isunlimited()) else 'f'))
    vs = []
    for k in sorted(f.variables):
        v = f.variables[k]
        arr = v[...]
        mask = np.ma.getmaskarray(arr).ravel() if np.ma.isMaskedArray(arr) else np.zeros(np.size(arr), dtype=bool)
        vals = np.ma.getdata(arr).ravel()
        cells = ['_' if (m or (isinstance(x, float) and x != x)) else lib.show_rat(x)
                 for x, m in zip(vals.tolist(), mask.tolist())]   # NaN cells are shown like masked cells
        shape = 'x'.join(str(s) for s in np.shape(arr)) or '-'
        # an attribute that is listed but comes back as a method of the array (its name is a method's) is not the attribute
        attrs = sorted((a + '!method' if callable(getattr(v, a, None)) else a)
                       for a in v.ncattrs() if not (k in nofill and a == 'fill_value'))
        vs.append('%s|%s|%s|%s|%s|%s' % (k, '.'.join(v.dimensions) or '-', 'm' if '_' in cells else 'p',
                                        '.'.join(attrs) or '-', shape, lib.show_list(cells)))
    return 'dims=%s vars=%s attrs=%s' % (lib.show_list(ds), ';'.join(vs) or '-', '.'.join(sorted(f.ncattrs())) or '-')


def parse_obs(text):
    """'dims=.. vars=.. attrs=..' -> dict for field-wise comparison"""
    st, kv = lib.parse_kv('x ' + text)
    dims = {}
    if kv['dims'] != '-':
        for t in kv['dims'].split(','):
            n, ln, u = t.split(':')
            dims[n] = (int(ln), u)
    vs = {}
    if kv['vars'] != '-':
        for t in kv['vars'].split(';'):
            n, ds, fl, at, sh, cells = t.split('|')
            vs[n] = dict(dims=ds, flag=fl, attrs=at, shape=sh, cells=cells)
    return dict(dims=dims, vars=vs, attrs=kv['attrs'])


def diff_obs(model_text, impl_text, ignore_unlim=False, hide=()):
    """hide: variables whose `fill_value` attribute is not compared (it restates the mask, see observe)"""
    a, b = parse_obs(model_text), parse_obs(impl_text)
    for side in (a, b):
        for k in hide:
            if k in side['vars']:
                side['vars'][k]['attrs'] = '.'.join(x for x in side['vars'][k]['attrs'].split('.') if x != 'fill_value') or '-'
    if ignore_unlim:
        a['dims'] = {k: (v[0], 'f') for k, v in a['dims'].items()}
        b['dims'] = {k: (v[0], 'f') for k, v in b['dims'].items()}
    if a['dims'] != b['dims']:
        return 'dimensions model=%s impl=%s' % (a['dims'], b['dims'])
    if sorted(a['vars']) != sorted(b['vars']):
        return 'variables model=%s impl=%s' % (sorted(a['vars']), sorted(b['vars']))
    for k in a['vars']:
        for fld in ('dims', 'shape', 'cells', 'flag', 'attrs'):
            if a['vars'][k][fld] != b['vars'][k][fld]:
                return 'variable %s %s: model=%s impl=%s' % (k, fld, a['vars'][k][fld][:200], b['vars'][k][fld][:200])
    if a['attrs'] != b['attrs']:
        return 'file attributes model=%s impl=%s' % (a['attrs'], b['attrs'])
    return None


def diff_obs_numeric(model_text, impl_text, rel=1e-12):
    """like diff_obs, but cells are compared numerically within `rel` (float64 results of a few
    operations on integers below 1e4 against the exact rational)"""
    return diff_parsed_numeric(parse_obs(model_text), parse_obs(impl_text), rel)


def diff_parsed_numeric(a, b, rel=1e-12):
    if a['dims'] != b['dims']:
        return 'dimensions model=%s impl=%s' % (a['dims'], b['dims'])
    if sorted(a['vars']) != sorted(b['vars']):
        return 'variables model=%s impl=%s' % (sorted(a['vars']), sorted(b['vars']))
    for k in a['vars']:
        for fld in ('dims', 'shape', 'attrs'):
            if a['vars'][k][fld] != b['vars'][k][fld]:
                return 'variable %s %s: model=%s impl=%s' % (k, fld, a['vars'][k][fld][:200], b['vars'][k][fld][:200])
        ca = a['vars'][k]['cells'].split(',') if a['vars'][k]['cells'] != '-' else []
        cb = b['vars'][k]['cells'].split(',') if b['vars'][k]['cells'] != '-' else []
        if len(ca) != len(cb):
            return 'variable %s has %d cells, model %d' % (k, len(cb), len(ca))
        for i, (x, y) in enumerate(zip(ca, cb)):
            if (x == '_') != (y == '_'):
                return 'variable %s cell %d mask: model=%s impl=%s' % (k, i, x, y)
            if x == '_':
                continue
            fx, fy = Fraction(x), Fraction(y)
            if abs(fx - fy) > rel * max(abs(fx), 1):
                return 'variable %s cell %d: model=%s impl=%s' % (k, i, x, y)
    if a['attrs'] != b['attrs']:
        return 'file attributes model=%s impl=%s' % (a['attrs'], b['attrs'])
    return None


def wellformed(f):
    """the well-formedness predicate of the property, on the real object"""
    for vk, v in f.variables.items():
        for d in v.dimensions:
            if d not in f.dimensions:
                return 'variable %s has dimension %s which the file does not have' % (vk, d)
        want = tuple(len(f.dimensions[d]) for d in v.dimensions)
        if tuple(np.shape(v[...])) != want:
            return 'variable %s has shape %s, its dimensions %s have lengths %s' % (vk, np.shape(v[...]), v.dimensions, want)
        for a in v.ncattrs():
            try:
                getattr(v, a)
            except Exception:
                return 'attribute %s of %s is listed but not retrievable' % (a, vk)
    for a in f.ncattrs():
        try:
            getattr(f, a)
        except Exception:
            return 'global attribute %s is listed but not retrievable' % a
    return None
