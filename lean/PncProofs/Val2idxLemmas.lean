import PncModel.Val2idx
import Mathlib.Tactic.Linarith
import Mathlib.Tactic.Ring
import Mathlib.Tactic.FieldSimp
import Mathlib.Algebra.Order.Field.Basic
import Mathlib.Algebra.Order.Floor.Defs
import Mathlib.Algebra.Order.Floor.Ring
import Mathlib.Data.Rat.Floor

namespace Val2idx

def Asc : List ℚ → Prop
  | a :: b :: rest => a < b ∧ Asc (b :: rest)
  | _ => True

theorem isAsc_iff : ∀ l : List ℚ, isAsc l = true ↔ Asc l
  | [] => by simp [isAsc, Asc]
  | [_] => by simp [isAsc, Asc]
  | a :: b :: rest => by simp [isAsc, Asc, isAsc_iff (b :: rest)]

theorem fpos_two (x0 x1 x : ℚ) : fpos [x0, x1] x = (x - x0) / (x1 - x0) := rfl
theorem fpos_three (x0 x1 x2 : ℚ) (rest : List ℚ) (x : ℚ) : fpos (x0 :: x1 :: x2 :: rest) x =
    if x < x1 then (x - x0) / (x1 - x0) else 1 + fpos (x1 :: x2 :: rest) x := rfl

/-- head is below every later element -/
theorem Asc.head_lt : ∀ (a : ℚ) (l : List ℚ) (i : ℕ) (hi : i < l.length), Asc (a :: l) → a < l[i]
  | a, b :: l, 0, _, h => h.1
  | a, b :: l, i + 1, hi, h => by
    have := Asc.head_lt b l i (by simpa using hi) h.2
    simp only [List.getElem_cons_succ]; linarith [h.1]

theorem Asc.head_le_last : ∀ (l : List ℚ) (hne : l ≠ []), Asc l → l.head hne ≤ l.getLast hne
  | [_], _, _ => by simp
  | a :: b :: rest, _, h => by
    have := Asc.head_le_last (b :: rest) (by simp) h.2
    simp only [List.getLast_cons_cons, List.head_cons] at this ⊢
    linarith [h.1]

/-- **range**: inside the coordinate range the fractional position is within [0, n-1] -/
theorem fpos_range : ∀ (xs : List ℚ) (x : ℚ) (hne : xs ≠ []), 2 ≤ xs.length → Asc xs →
    xs.head hne ≤ x → x ≤ xs.getLast hne → 0 ≤ fpos xs x ∧ fpos xs x ≤ (xs.length - 1 : ℕ)
  | [_], _, _, h, _, _, _ => by simp at h
  | [x0, x1], x, _, _, hs, h0, h1 => by
    have hpos : 0 < x1 - x0 := by linarith [hs.1]
    simp only [List.head_cons] at h0
    simp only [List.getLast_cons_cons, List.getLast_singleton] at h1
    rw [fpos_two]
    constructor
    · exact div_nonneg (by linarith) hpos.le
    · simp only [List.length_cons, List.length_nil]; norm_num
      rw [div_le_one hpos]; linarith
  | x0 :: x1 :: x2 :: rest, x, _, _, hs, h0, h1 => by
    have hpos : 0 < x1 - x0 := by linarith [hs.1]
    simp only [List.head_cons] at h0
    rw [fpos_three]
    have hn : (0 : ℚ) ≤ (rest.length : ℚ) := by exact_mod_cast Nat.zero_le _
    split_ifs with c
    · constructor
      · exact div_nonneg (by linarith) hpos.le
      · have : (x - x0) / (x1 - x0) ≤ 1 := by rw [div_le_one hpos]; linarith
        simp only [List.length_cons]; push_cast; linarith
    · have ih := fpos_range (x1 :: x2 :: rest) x (by simp) (by simp) hs.2
        (by simp only [List.head_cons]; linarith [not_lt.mp c]) (by simpa [List.getLast_cons] using h1)
      simp only [List.length_cons] at ih ⊢
      push_cast at ih ⊢
      constructor <;> linarith [ih.1, ih.2]

/-- **exact**: at node `k` the fractional position is exactly `k` -/
theorem fpos_at_node : ∀ (xs : List ℚ) (k : ℕ) (hk : k < xs.length), 2 ≤ xs.length → Asc xs →
    fpos xs (xs[k]) = k
  | [], _, hk, _, _ => by simp at hk
  | [_], _, _, h, _ => by simp at h
  | [x0, x1], 0, _, _, _ => by simp [fpos_two]
  | [x0, x1], 1, _, _, hs => by
    have : x1 - x0 ≠ 0 := by have := hs.1; intro h; linarith
    simp [fpos_two, div_self this]
  | [_, _], k + 2, hk, _, _ => by simp at hk
  | x0 :: x1 :: x2 :: rest, 0, _, _, hs => by
    have := hs.1
    simp [fpos_three, this]
  | x0 :: x1 :: x2 :: rest, k + 1, hk, _, hs => by
    have hk' : k < (x1 :: x2 :: rest).length := by simpa using hk
    have ih := fpos_at_node (x1 :: x2 :: rest) k hk' (by simp) hs.2
    have hge : ¬ (x0 :: x1 :: x2 :: rest)[k + 1] < x1 := by
      simp only [List.getElem_cons_succ]
      cases k with
      | zero => simp
      | succ k =>
        have := Asc.head_lt x1 (x2 :: rest) k (by simpa using hk') hs.2
        simp only [List.getElem_cons_succ] at this ⊢; linarith
    rw [fpos_three, if_neg hge]
    simp only [List.getElem_cons_succ] at ih ⊢
    rw [ih]; push_cast; ring

/-- **bounds**: an integer `k` with `k ≤ fpos ≤ k+1` names a cell whose edges contain `x` -/
theorem cell_of_between : ∀ (es : List ℚ) (x : ℚ) (hne : es ≠ []) (k : ℕ) (hk : k + 1 < es.length),
    Asc es → es.head hne ≤ x → x ≤ es.getLast hne →
    (k : ℚ) ≤ fpos es x → fpos es x ≤ k + 1 → es[k] ≤ x ∧ x ≤ es[k + 1]
  | [_], _, _, _, hk, _, _, _, _, _ => by simp at hk
  | [x0, x1], x, _, 0, _, _, h0, h1, _, _ => by
    simp only [List.head_cons] at h0
    simp only [List.getLast_cons_cons, List.getLast_singleton] at h1
    simp; exact ⟨h0, h1⟩
  | [_, _], _, _, k + 1, hk, _, _, _, _, _ => by simp at hk; omega
  | x0 :: x1 :: x2 :: rest, x, _, k, hk, hs, h0, h1, hlo, hhi => by
    have hpos : 0 < x1 - x0 := by linarith [hs.1]
    simp only [List.head_cons] at h0
    rw [fpos_three] at hlo hhi
    by_cases c : x < x1
    · rw [if_pos c] at hlo hhi
      have hf1 : (x - x0) / (x1 - x0) < 1 := by rw [div_lt_one hpos]; linarith
      have hk0 : k = 0 := by
        by_contra hne0
        have : (1 : ℚ) ≤ k := by exact_mod_cast Nat.one_le_iff_ne_zero.mpr hne0
        linarith
      subst hk0
      simp only [List.getElem_cons_zero, List.getElem_cons_succ]
      exact ⟨h0, le_of_lt c⟩
    · rw [if_neg c] at hlo hhi
      have hx1 : x1 ≤ x := not_lt.mp c
      have hr := fpos_range (x1 :: x2 :: rest) x (by simp) (by simp) hs.2
        (by simp only [List.head_cons]; exact hx1) (by simpa [List.getLast_cons] using h1)
      cases k with
      | zero =>
        -- fpos tail = 0, so x = x1
        have hz : fpos (x1 :: x2 :: rest) x ≤ 0 := by push_cast at hhi; linarith
        have hz' : fpos (x1 :: x2 :: rest) x = 0 := le_antisymm hz hr.1
        -- position 0 in the tail: x ≤ x2-side cell [x1, x2] by the recursive statement with k = 0
        have := cell_of_between (x1 :: x2 :: rest) x (by simp) 0 (by simp) hs.2
          (by simp only [List.head_cons]; exact hx1) (by simpa [List.getLast_cons] using h1)
          (by rw [hz']; norm_num) (by rw [hz']; norm_num)
        simp only [List.getElem_cons_zero, List.getElem_cons_succ] at this ⊢
        -- need x ≤ x1: from fpos = 0 in the tail
        constructor
        · linarith
        · -- fpos tail x = 0 with x ≥ x1 forces x = x1
          by_contra hgt
          have hgt' : x1 < x := not_le.mp hgt
          have hposx : 0 < fpos (x1 :: x2 :: rest) x := by
            cases rest with
            | nil =>
              rw [fpos_two]
              exact div_pos (by linarith) (by linarith [hs.2.1])
            | cons x3 r =>
              rw [fpos_three]
              split_ifs with c2
              · exact div_pos (by linarith) (by linarith [hs.2.1])
              · have := (fpos_range (x2 :: x3 :: r) x (by simp) (by simp) hs.2.2
                  (by simp only [List.head_cons]; exact not_lt.mp c2)
                  (by simpa [List.getLast_cons] using h1)).1
                linarith
          linarith
      | succ k =>
        have := cell_of_between (x1 :: x2 :: rest) x (by simp) k (by simpa using hk) hs.2
          (by simp only [List.head_cons]; exact hx1) (by simpa [List.getLast_cons] using h1)
          (by push_cast at hlo; linarith) (by push_cast at hhi; linarith)
        simpa only [List.getElem_cons_succ] using this

end Val2idx

namespace Val2idx

theorem Asc.head_le_get (a : ℚ) (l : List ℚ) (i : ℕ) (hi : i < (a :: l).length) (h : Asc (a :: l)) :
    a ≤ (a :: l)[i] := by
  cases i with
  | zero => simp
  | succ i =>
    have := Asc.head_lt a l i (by simpa using hi) h
    simp only [List.getElem_cons_succ]; linarith

/-- **nearest**: an integer within 1/2 of the fractional position is the index of a nearest
coordinate (ties allowed) -/
theorem near_of_close : ∀ (xs : List ℚ) (x : ℚ) (hne : xs ≠ []) (k : ℕ) (hk : k < xs.length),
    2 ≤ xs.length → Asc xs → xs.head hne ≤ x → x ≤ xs.getLast hne →
    |(k : ℚ) - fpos xs x| ≤ 1 / 2 → ∀ (j : ℕ) (hj : j < xs.length), |xs[k] - x| ≤ |xs[j] - x|
  | [_], _, _, _, _, h, _, _, _, _ => by simp at h
  | [x0, x1], x, _, k, hk, _, hs, h0, h1, hc => by
    have hpos : 0 < x1 - x0 := by linarith [hs.1]
    simp only [List.head_cons] at h0
    simp only [List.getLast_cons_cons, List.getLast_singleton] at h1
    rw [fpos_two, abs_le] at hc
    have hmul : (x - x0) / (x1 - x0) * (x1 - x0) = x - x0 := by field_simp
    intro j hj
    have hk2 : k = 0 ∨ k = 1 := by simp at hk; omega
    have hj2 : j = 0 ∨ j = 1 := by simp at hj; omega
    rcases hk2 with rfl | rfl <;> rcases hj2 with rfl | rfl <;>
      simp only [List.getElem_cons_zero, List.getElem_cons_succ, le_refl]
    · -- k = 0, j = 1 : x - x0 ≤ x1 - x
      have : (x - x0) / (x1 - x0) ≤ 1 / 2 := by push_cast at hc; linarith [hc.1]
      have : x - x0 ≤ 1 / 2 * (x1 - x0) := by
        have := mul_le_mul_of_nonneg_right this hpos.le; rwa [hmul] at this
      rw [abs_of_nonpos (by linarith), abs_of_nonneg (by linarith)]; linarith
    · -- k = 1, j = 0
      have : 1 / 2 ≤ (x - x0) / (x1 - x0) := by push_cast at hc; linarith [hc.2]
      have : 1 / 2 * (x1 - x0) ≤ x - x0 := by
        have := mul_le_mul_of_nonneg_right this hpos.le; rwa [hmul] at this
      rw [abs_of_nonneg (by linarith), abs_of_nonpos (by linarith)]; linarith
  | x0 :: x1 :: x2 :: rest, x, _, k, hk, _, hs, h0, h1, hc => by
    have hpos : 0 < x1 - x0 := by linarith [hs.1]
    simp only [List.head_cons] at h0
    rw [fpos_three] at hc
    intro j hj
    by_cases c : x < x1
    · rw [if_pos c, abs_le] at hc
      have hmul : (x - x0) / (x1 - x0) * (x1 - x0) = x - x0 := by field_simp
      have hf0 : 0 ≤ (x - x0) / (x1 - x0) := div_nonneg (by linarith) hpos.le
      have hf1 : (x - x0) / (x1 - x0) < 1 := by rw [div_lt_one hpos]; linarith
      -- later elements are ≥ x1 > x
      have hlater : ∀ (i : ℕ) (hi : i + 1 < (x0 :: x1 :: x2 :: rest).length),
          x1 ≤ (x0 :: x1 :: x2 :: rest)[i + 1] := by
        intro i hi
        simp only [List.getElem_cons_succ]
        exact Asc.head_le_get x1 (x2 :: rest) i (by simpa using hi) hs.2
      have hk2 : k = 0 ∨ k = 1 := by
        by_contra hcon
        have : 2 ≤ k := by omega
        have : (2 : ℚ) ≤ k := by exact_mod_cast this
        linarith [hc.2]
      rcases hk2 with rfl | rfl
      · have : (x - x0) / (x1 - x0) ≤ 1 / 2 := by push_cast at hc; linarith [hc.1]
        have hle : x - x0 ≤ 1 / 2 * (x1 - x0) := by
          have := mul_le_mul_of_nonneg_right this hpos.le; rwa [hmul] at this
        simp only [List.getElem_cons_zero]
        cases j with
        | zero => simp
        | succ j =>
          have := hlater j hj
          rw [abs_of_nonpos (by linarith), abs_of_nonneg (by linarith)]; linarith
      · have : 1 / 2 ≤ (x - x0) / (x1 - x0) := by push_cast at hc; linarith [hc.2]
        have hle : 1 / 2 * (x1 - x0) ≤ x - x0 := by
          have := mul_le_mul_of_nonneg_right this hpos.le; rwa [hmul] at this
        simp only [List.getElem_cons_succ, List.getElem_cons_zero]
        cases j with
        | zero =>
          simp only [List.getElem_cons_zero]
          rw [abs_of_nonneg (by linarith), abs_of_nonpos (by linarith)]; linarith
        | succ j =>
          have := hlater j hj
          rw [abs_of_nonneg (by linarith), abs_of_nonneg (by linarith)]; linarith
    · rw [if_neg c] at hc
      have hx1 : x1 ≤ x := not_lt.mp c
      have hr := fpos_range (x1 :: x2 :: rest) x (by simp) (by simp) hs.2
        (by simp only [List.head_cons]; exact hx1) (by simpa [List.getLast_cons] using h1)
      rw [abs_le] at hc
      cases k with
      | zero => push_cast at hc; linarith [hc.1, hr.1]
      | succ k =>
        have hk' : k < (x1 :: x2 :: rest).length := by simpa using hk
        have ih := near_of_close (x1 :: x2 :: rest) x (by simp) k hk' (by simp) hs.2
          (by simp only [List.head_cons]; exact hx1) (by simpa [List.getLast_cons] using h1)
          (by rw [abs_le]; push_cast at hc; constructor <;> linarith [hc.1, hc.2])
        simp only [List.getElem_cons_succ]
        cases j with
        | zero =>
          have h0' := ih 0 (by simp)
          simp only [List.getElem_cons_zero] at h0' ⊢
          rw [abs_of_nonpos (by linarith : x1 - x ≤ 0)] at h0'
          rw [abs_of_nonpos (by linarith [hs.1] : x0 - x ≤ 0)]
          linarith [hs.1]
        | succ j =>
          simpa only [List.getElem_cons_succ] using ih j (by simpa using hj)

/-- `np.round` (half to even) is within 1/2 of its argument -/
theorem roundHalfEven_close (q : ℚ) : |((roundHalfEven q : ℤ) : ℚ) - q| ≤ 1 / 2 := by
  unfold roundHalfEven
  have hf : floorZ q = ⌊q⌋ := by unfold floorZ; rw [Rat.floor_def']
  simp only [hf]
  have h1 := Int.floor_le q
  have h2 := Int.lt_floor_add_one q
  rw [abs_le]
  split_ifs <;> push_cast <;> constructor <;> linarith

/-- truncation of a non-negative number is the floor -/
theorem trunc0_bounds (q : ℚ) (h : 0 ≤ q) : ((trunc0 q : ℤ) : ℚ) ≤ q ∧ q < (trunc0 q : ℤ) + 1 := by
  have : trunc0 q = ⌊q⌋ := by
    unfold trunc0
    rw [Rat.floor_def']
    exact Int.tdiv_eq_ediv_of_nonneg (Rat.num_nonneg.mpr h)
  rw [this]
  exact ⟨Int.floor_le q, Int.lt_floor_add_one q⟩

end Val2idx
