import PncModel.Camx.Uamiv
import PncProofs.WordsLemmas

namespace Camx
open Words

/-- a well-formed uamiv content: field widths and data shapes agree with the header counts -/
structure WF (f : Uamiv) : Prop where
  name : f.name.length = 10
  note : f.note.length = 60
  grid : f.grid.length = 15
  species : ∀ s ∈ f.species, s.length = 10
  steps : ∀ s ∈ f.steps, s.data.length = f.species.length ∧
    ∀ lays ∈ s.data, lays.length = f.nz ∧ ∀ d ∈ lays, d.length = f.nx * f.ny

theorem chars_length (l : List Nat) : (chars l).length = l.length := by simp [chars]

theorem map_wordChar_chars : ∀ (l : List Nat), (chars l).map wordChar = l
  | [] => rfl
  | c :: l => by
    have ih := map_wordChar_chars l
    unfold chars at ih ⊢
    simp only [List.map_cons, wordChar_charWord, ih]

theorem dataRec_length (spc : List Nat) (d : List Word) (hs : spc.length = 10) :
    (dataRec spc d).length = 11 + d.length := by
  simp [dataRec, chars_length, hs]; omega

/-- one species' layer records are read back -/
theorem takeLayers_ok (spc : List Nat) (cells : Nat) (hs : spc.length = 10) :
    ∀ (lays : List (List Word)) (rest : List (List Word)), (∀ d ∈ lays, d.length = cells) →
      takeLayers spc cells lays.length (lays.map (dataRec spc) ++ rest) = some (lays, rest)
  | [], rest, _ => by simp [takeLayers]
  | d :: lays, rest, h => by
    have hd : d.length = cells := h d (by simp)
    have ih := takeLayers_ok spc cells hs lays rest (fun x hx => h x (by simp [hx]))
    have hc : (chars spc).length = 10 := by rw [chars_length, hs]
    simp only [List.length_cons, List.map_cons, List.cons_append, takeLayers]
    have hlen : (dataRec spc d).length = 11 + cells := by rw [dataRec_length spc d hs, hd]
    have hhead : (dataRec spc d).head? = some 1 := rfl
    have hname : ((dataRec spc d).drop 1).take 10 = chars spc := by
      simp only [dataRec, List.drop_succ_cons, List.drop_zero]
      exact List.take_left' hc
    have hdrop : (dataRec spc d).drop 11 = d := by
      simp only [dataRec, List.drop_succ_cons]
      exact List.drop_left' hc
    simp only [hlen, hhead, hname, and_self, if_true, ih, Option.map_some, hdrop]

/-- all species of one step are read back -/
theorem takeSpecies_ok (nz cells : Nat) : ∀ (species : List (List Nat)) (data : List (List (List Word)))
    (rest : List (List Word)), data.length = species.length → (∀ s ∈ species, s.length = 10) →
    (∀ lays ∈ data, lays.length = nz ∧ ∀ d ∈ lays, d.length = cells) →
    takeSpecies nz cells species ((List.zip species data).flatMap speciesRecords ++ rest) = some (data, rest)
  | [], [], rest, _, _, _ => by simp [takeSpecies]
  | [], _ :: _, _, hl, _, _ => by simp at hl
  | _ :: _, [], _, hl, _, _ => by simp at hl
  | spc :: more, lays :: data, rest, hl, hs, hd => by
    have hl' : data.length = more.length := by simpa using hl
    obtain ⟨hnz, hcells⟩ := hd lays (by simp)
    have ih := takeSpecies_ok nz cells more data rest hl' (fun s h => hs s (by simp [h]))
      (fun l h => hd l (by simp [h]))
    simp only [List.zip_cons_cons, List.flatMap_cons, List.append_assoc, takeSpecies, speciesRecords]
    have := takeLayers_ok spc cells (hs spc (by simp)) lays
      ((List.zip more data).flatMap speciesRecords ++ rest) hcells
    rw [hnz] at this
    rw [this]
    simp only [ih, Option.map_some]

/-- all time steps are read back -/
theorem parseSteps_ok (species : List (List Nat)) (nz cells : Nat) (hs : ∀ s ∈ species, s.length = 10) :
    ∀ (steps : List Step) (fuel : Nat), steps.length ≤ fuel →
    (∀ s ∈ steps, s.data.length = species.length ∧ ∀ lays ∈ s.data, lays.length = nz ∧ ∀ d ∈ lays, d.length = cells) →
    parseSteps species nz cells fuel (steps.flatMap (stepRecords species)) = some steps
  | [], fuel, _, _ => by cases fuel <;> simp [parseSteps]
  | s :: steps, 0, hf, _ => by simp at hf
  | s :: steps, fuel + 1, hf, hd => by
    obtain ⟨hl, hlay⟩ := hd s (by simp)
    have ih := parseSteps_ok species nz cells hs steps fuel (by simpa using hf)
      (fun x hx => hd x (by simp [hx]))
    simp only [List.flatMap_cons, stepRecords, List.cons_append, parseSteps]
    rw [takeSpecies_ok nz cells species s.data _ hl hs hlay]
    simp only [ih, Option.map_some]

theorem splitEvery_species : ∀ (species : List (List Nat)), (∀ s ∈ species, s.length = 10) →
    (splitEvery 10 species.length ((species.map chars).flatten)).map (·.map wordChar) = species
  | [], _ => rfl
  | s :: more, h => by
    have hs : (chars s).length = 10 := by rw [chars_length]; exact h s (by simp)
    simp only [List.length_cons, List.map_cons, List.flatten_cons, splitEvery]
    rw [List.take_left' hs, List.drop_left' hs, map_wordChar_chars,
      splitEvery_species more (fun x hx => h x (by simp [hx]))]

theorem flatten_chars_length : ∀ (species : List (List Nat)), (∀ s ∈ species, s.length = 10) →
    ((species.map chars).flatten).length = 10 * species.length
  | [], _ => rfl
  | s :: more, h => by
    simp only [List.map_cons, List.flatten_cons, List.length_append, List.length_cons, chars_length,
      h s (by simp), flatten_chars_length more (fun x hx => h x (by simp [hx]))]
    omega

theorem steps_records_length (species : List (List Nat)) :
    ∀ (steps : List Step), steps.length ≤ (steps.flatMap (stepRecords species)).length
  | [] => by simp
  | s :: steps => by
    have := steps_records_length species steps
    simp only [List.flatMap_cons, List.length_append, stepRecords, List.length_cons]
    omega

/-- the layout decoder inverts the record construction -/
theorem decodeRecords_records (f : Uamiv) (h : WF f) : decodeRecords f.records = some f := by
  obtain ⟨hname, hnote, hgrid, hspec, hsteps⟩ := h
  have hcn : (chars f.name).length = 10 := by rw [chars_length, hname]
  have hcno : (chars f.note).length = 60 := by rw [chars_length, hnote]
  generalize hH : chars f.name ++ chars f.note ++ [f.itzon, f.nspec, f.ibdate, f.btime, f.iedate, f.etime] = H
  have hlen : H.length = 76 := by rw [← hH]; simp [hcn, hcno]
  have g70 : ∀ (k : Nat), k < 6 →
      H.getD (70 + k) 0 = [f.itzon, f.nspec, f.ibdate, f.btime, f.iedate, f.etime].getD k 0 := by
    intro k hk
    have h70 : (chars f.name ++ chars f.note).length = 70 := by simp [hcn, hcno]
    rw [← hH]
    simp only [List.getD_eq_getElem?_getD]
    rw [List.getElem?_append_right (by omega)]
    simp [h70]
  have E70 : H.getD 70 0 = f.itzon := g70 0 (by omega)
  have E71 : H.getD 71 0 = f.nspec := g70 1 (by omega)
  have E72 : H.getD 72 0 = f.ibdate := g70 2 (by omega)
  have E73 : H.getD 73 0 = f.btime := g70 3 (by omega)
  have E74 : H.getD 74 0 = f.iedate := g70 4 (by omega)
  have E75 : H.getD 75 0 = f.etime := g70 5 (by omega)
  have htake : (H.take 10).map wordChar = f.name := by
    rw [← hH, List.append_assoc, List.take_left' hcn, map_wordChar_chars]
  have hnoteq : ((H.drop 10).take 60).map wordChar = f.note := by
    rw [← hH, List.append_assoc, List.drop_left' hcn, List.take_left' hcno, map_wordChar_chars]
  have hfl : ((f.species.map chars).flatten).length = 10 * f.nspec := flatten_chars_length f.species hspec
  have hse : (splitEvery 10 f.nspec ((f.species.map chars).flatten)).map (·.map wordChar) = f.species :=
    splitEvery_species f.species hspec
  have hps := parseSteps_ok f.species f.nz (f.nx * f.ny) hspec f.steps _
    (steps_records_length f.species f.steps) hsteps
  unfold Uamiv.records decodeRecords
  simp only [List.cons_append, List.nil_append, hH]
  have hnx : f.grid.getD 7 0 = f.nx := rfl
  have hny : f.grid.getD 8 0 = f.ny := rfl
  have hnz : f.grid.getD 9 0 = f.nz := rfl
  simp only [hlen, hgrid, ne_eq, not_true_eq_false, or_self, if_false, E71, hnx, hny, hnz, hfl, hse, hps,
    E70, E72, E73, E74, E75, htake, hnoteq]

end Camx
