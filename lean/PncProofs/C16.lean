import PncProofs.Val2idxLemmas

/-!
# C16 — value-to-index lookup: property theorems

`xs` is the coordinate (or the edge list) in ascending order — for a descending coordinate the
code (after the `fix:` commits) reverses coordinate and index table, so `xs` is the reversed
coordinate, the fractional index is `(n-1) - fpos xs x` and index `r'` of the original
coordinate is position `n-1-r'` of `xs`.  Both directions are covered below.
-/
namespace Props.C16
open Val2idx

/-- integer within 1/2 of a number in [0, N] is in [0, N] -/
theorem int_in_range (r : ℤ) (p : ℚ) (N : ℕ) (h0 : 0 ≤ p) (h1 : p ≤ N) (hc : |(r : ℚ) - p| ≤ 1 / 2) :
    0 ≤ r ∧ r ≤ N := by
  rw [abs_le] at hc
  constructor
  · have : (-1 : ℚ) < r := by linarith [hc.1]
    have : (-1 : ℤ) < r := by exact_mod_cast this
    omega
  · have : (r : ℚ) < N + 1 := by linarith [hc.2]
    have : r < (N : ℤ) + 1 := by exact_mod_cast this
    omega

/-- **C16 nearest, ascending.** For a strictly ascending coordinate and a value inside its
range, `round(fractional index)` is a valid index and no coordinate is closer to the value. -/
theorem nearest (xs : List ℚ) (x : ℚ) (hne : xs ≠ []) (hlen : 2 ≤ xs.length) (hs : Asc xs)
    (h0 : xs.head hne ≤ x) (h1 : x ≤ xs.getLast hne) :
    ∃ (k : ℕ) (hk : k < xs.length), roundHalfEven (fpos xs x) = k ∧
      ∀ (j : ℕ) (hj : j < xs.length), |xs[k] - x| ≤ |xs[j] - x| := by
  have hr := fpos_range xs x hne hlen hs h0 h1
  have hc := roundHalfEven_close (fpos xs x)
  obtain ⟨r0, r1⟩ := int_in_range _ _ _ hr.1 hr.2 hc
  refine ⟨(roundHalfEven (fpos xs x)).toNat, by omega, by omega, ?_⟩
  apply near_of_close xs x hne _ _ hlen hs h0 h1
  have : (((roundHalfEven (fpos xs x)).toNat : ℕ) : ℚ) = ((roundHalfEven (fpos xs x) : ℤ) : ℚ) := by
    have : ((roundHalfEven (fpos xs x)).toNat : ℤ) = roundHalfEven (fpos xs x) := Int.toNat_of_nonneg r0
    exact_mod_cast this
  rw [this]; exact hc

/-- **C16 nearest, descending.** `xs` is the reversed coordinate; the code returns
`r' = round((n-1) - fpos)`, i.e. position `n-1-r'` of `xs`, which is again a nearest one. -/
theorem nearest_desc (xs : List ℚ) (x : ℚ) (hne : xs ≠ []) (hlen : 2 ≤ xs.length) (hs : Asc xs)
    (h0 : xs.head hne ≤ x) (h1 : x ≤ xs.getLast hne) :
    ∃ (k : ℕ) (hk : k < xs.length),
      roundHalfEven (((xs.length - 1 : ℕ) : ℚ) - fpos xs x) = ((xs.length - 1 : ℕ) : ℤ) - k ∧
      ∀ (j : ℕ) (hj : j < xs.length), |xs[k] - x| ≤ |xs[j] - x| := by
  have hr := fpos_range xs x hne hlen hs h0 h1
  set N := xs.length - 1 with hN
  have hc := roundHalfEven_close ((N : ℚ) - fpos xs x)
  obtain ⟨r0, r1⟩ := int_in_range _ _ N (by linarith [hr.2]) (by linarith [hr.1]) hc
  set r := roundHalfEven ((N : ℚ) - fpos xs x) with hrdef
  refine ⟨((N : ℤ) - r).toNat, by omega, by omega, ?_⟩
  apply near_of_close xs x hne _ _ hlen hs h0 h1
  have : ((((N : ℤ) - r).toNat : ℕ) : ℚ) = (N : ℚ) - (r : ℚ) := by
    have : ((((N : ℤ) - r).toNat : ℕ) : ℤ) = (N : ℤ) - r := Int.toNat_of_nonneg (by omega)
    exact_mod_cast this
  rw [this, abs_le] at *
  constructor <;> linarith [hc.1, hc.2]

/-- **C16 bounds, ascending.** `es` are the n+1 edges; `trunc(min(fractional index, n-1))` names a
cell whose two edges contain the value (closed at both ends; an interior edge belongs to the
upper cell, the last edge to the last cell). -/
theorem bounds_cell (es : List ℚ) (x : ℚ) (hne : es ≠ []) (hlen : 2 ≤ es.length) (hs : Asc es)
    (h0 : es.head hne ≤ x) (h1 : x ≤ es.getLast hne) :
    ∃ (k : ℕ) (hk : k + 1 < es.length),
      trunc0 (min (fpos es x) (((es.length - 1 : ℕ) : ℚ) - 1)) = k ∧ es[k] ≤ x ∧ x ≤ es[k + 1] := by
  have hr := fpos_range es x hne hlen hs h0 h1
  set n := es.length - 1 with hn   -- number of cells
  have hn1 : 1 ≤ n := by omega
  have hn1q : (1 : ℚ) ≤ n := by exact_mod_cast hn1
  set q := min (fpos es x) ((n : ℚ) - 1) with hq
  have hq0 : 0 ≤ q := le_min hr.1 (by linarith)
  obtain ⟨t0, t1⟩ := trunc0_bounds q hq0
  have hqle : q ≤ (n : ℚ) - 1 := min_le_right _ _
  have hqp : q ≤ fpos es x := min_le_left _ _
  have hr0 : 0 ≤ trunc0 q := by
    have : (-1 : ℚ) < trunc0 q := by linarith
    have : (-1 : ℤ) < trunc0 q := by exact_mod_cast this
    omega
  have hrn : trunc0 q ≤ (n : ℤ) - 1 := by
    have : ((trunc0 q : ℤ) : ℚ) ≤ (n : ℚ) - 1 := by linarith
    have : trunc0 q ≤ (n : ℤ) - 1 := by exact_mod_cast this
    exact this
  refine ⟨(trunc0 q).toNat, by omega, by omega, ?_⟩
  have hcast : (((trunc0 q).toNat : ℕ) : ℚ) = ((trunc0 q : ℤ) : ℚ) := by
    have : (((trunc0 q).toNat : ℕ) : ℤ) = trunc0 q := Int.toNat_of_nonneg hr0
    exact_mod_cast this
  apply cell_of_between es x hne _ (by omega) hs h0 h1
  · rw [hcast]; linarith
  · rw [hcast]
    by_cases hc : fpos es x ≤ (n : ℚ) - 1
    · have : q = fpos es x := min_eq_left hc
      linarith
    · have hq' : q = (n : ℚ) - 1 := min_eq_right (le_of_lt (not_le.mp hc))
      -- trunc0 q = n - 1
      have : (n : ℚ) - 1 < (trunc0 q : ℤ) + 1 := by linarith
      have h3 : (n : ℤ) - 1 < trunc0 q + 1 := by exact_mod_cast this
      have h4 : trunc0 q = (n : ℤ) - 1 := by omega
      rw [h4]; push_cast; linarith [hr.2]

/-- **C16 bounds, descending.** `es` are the reversed edges; the code truncates
`min(n - fpos, n-1)` to `r'`, i.e. ascending cell `n-1-r'`, which contains the value. -/
theorem bounds_cell_desc (es : List ℚ) (x : ℚ) (hne : es ≠ []) (hlen : 2 ≤ es.length) (hs : Asc es)
    (h0 : es.head hne ≤ x) (h1 : x ≤ es.getLast hne) :
    ∃ (k : ℕ) (hk : k + 1 < es.length),
      trunc0 (min (((es.length - 1 : ℕ) : ℚ) - fpos es x) (((es.length - 1 : ℕ) : ℚ) - 1))
        = ((es.length - 1 : ℕ) : ℤ) - 1 - k ∧ es[k] ≤ x ∧ x ≤ es[k + 1] := by
  have hr := fpos_range es x hne hlen hs h0 h1
  set n := es.length - 1 with hn
  have hn1 : 1 ≤ n := by omega
  have hn1q : (1 : ℚ) ≤ n := by exact_mod_cast hn1
  set q := min ((n : ℚ) - fpos es x) ((n : ℚ) - 1) with hq
  have hq0 : 0 ≤ q := le_min (by linarith [hr.2]) (by linarith)
  obtain ⟨t0, t1⟩ := trunc0_bounds q hq0
  have hqle : q ≤ (n : ℚ) - 1 := min_le_right _ _
  have hr0 : 0 ≤ trunc0 q := by
    have : (-1 : ℚ) < trunc0 q := by linarith
    have : (-1 : ℤ) < trunc0 q := by exact_mod_cast this
    omega
  have hrn : trunc0 q ≤ (n : ℤ) - 1 := by
    have : ((trunc0 q : ℤ) : ℚ) ≤ (n : ℚ) - 1 := by linarith
    exact_mod_cast this
  refine ⟨((n : ℤ) - 1 - trunc0 q).toNat, by omega, by omega, ?_⟩
  have hcast : ((((n : ℤ) - 1 - trunc0 q).toNat : ℕ) : ℚ) = (n : ℚ) - 1 - ((trunc0 q : ℤ) : ℚ) := by
    have : ((((n : ℤ) - 1 - trunc0 q).toNat : ℕ) : ℤ) = (n : ℤ) - 1 - trunc0 q :=
      Int.toNat_of_nonneg (by omega)
    exact_mod_cast this
  apply cell_of_between es x hne _ (by omega) hs h0 h1
  · rw [hcast]
    by_cases hc : (n : ℚ) - fpos es x ≤ (n : ℚ) - 1
    · have : q = (n : ℚ) - fpos es x := min_eq_left hc
      linarith
    · have hq' : q = (n : ℚ) - 1 := min_eq_right (le_of_lt (not_le.mp hc))
      have : (n : ℚ) - 1 < (trunc0 q : ℤ) + 1 := by linarith
      have h3 : (n : ℤ) - 1 < trunc0 q + 1 := by exact_mod_cast this
      have h4 : trunc0 q = (n : ℤ) - 1 := by omega
      rw [h4]; push_cast; linarith [hr.1]
  · rw [hcast]
    have : q ≤ (n : ℚ) - fpos es x := min_le_left _ _
    linarith

theorem trunc0_natCast (m : ℕ) : trunc0 ((m : ℕ) : ℚ) = (m : ℤ) := by
  unfold trunc0
  rw [Rat.num_natCast, Rat.den_natCast]
  simp

/-- **C16 exact.** At coordinate node `k` the fractional index is exactly `k`, so the integer
cast returns `k` (ascending) or `n-1-k` of the reversed list (descending); values that are
not coordinates are masked by definition of the model (`c.contains x`). -/
theorem exact_node (xs : List ℚ) (k : ℕ) (hk : k < xs.length) (hlen : 2 ≤ xs.length) (hs : Asc xs) :
    trunc0 (fpos xs (xs[k])) = k ∧
    trunc0 (((xs.length - 1 : ℕ) : ℚ) - fpos xs (xs[k])) = ((xs.length - 1 - k : ℕ) : ℤ) := by
  rw [fpos_at_node xs k hk hlen hs]
  have hle : k ≤ xs.length - 1 := by omega
  have hcast : ((xs.length - 1 : ℕ) : ℚ) - (k : ℚ) = (((xs.length - 1 - k : ℕ)) : ℚ) := by
    rw [Nat.cast_sub hle]
  rw [hcast]
  exact ⟨trunc0_natCast k, trunc0_natCast _⟩

/-- range of the fractional index (re-exported) -/
theorem fpos_range (xs : List ℚ) (x : ℚ) (hne : xs ≠ []) (hlen : 2 ≤ xs.length) (hs : Asc xs)
    (h0 : xs.head hne ≤ x) (h1 : x ≤ xs.getLast hne) :
    0 ≤ fpos xs x ∧ fpos xs x ≤ (xs.length - 1 : ℕ) := Val2idx.fpos_range xs x hne hlen hs h0 h1

/-- **C16, model level.** For an in-range query with default fills the model of
`val2idx(method='nearest')` returns exactly the rounded fractional index over the (ascending
or reversed) coordinate, so `nearest`/`nearest_desc` speak about what the correspondence
compares with the code. -/
theorem model_nearest (cm : Bool) (xe xc c : List ℚ) (desc : Bool) (x : ℚ)
    (h0 : xc.headD 0 ≤ x) (h1 : x ≤ xc.getLastD 0) :
    lookupOne .nearest cm .dflt .dflt xe xc c desc x
      = .idx (roundHalfEven (if desc then ((xc.length : ℕ) : ℚ) - 1 - fpos xc x else fpos xc x)) := by
  have hx0 : ¬ x < xc.headD 0 := not_lt.mpr h0
  have hx1 : ¬ x > xc.getLastD 0 := not_lt.mpr h1
  unfold lookupOne fidxOne
  have e1 : (Method.nearest = Method.exact) = False := by simp
  have e2 : (Method.nearest = Method.bounds) = False := by simp
  simp only [e1, e2, false_and, if_false]
  unfold interp
  simp only [hx0, hx1, if_false]
  cases desc <;> simp

/-- the same for `method='bounds'` -/
theorem model_bounds (cm : Bool) (xe xc c : List ℚ) (desc : Bool) (x : ℚ)
    (h0 : xe.headD 0 ≤ x) (h1 : x ≤ xe.getLastD 0) :
    lookupOne .bounds cm .dflt .dflt xe xc c desc x
      = .idx (trunc0 (min (if desc then ((xe.length : ℕ) : ℚ) - 1 - fpos xe x else fpos xe x)
          (((c.length : ℕ) : ℚ) - 1))) := by
  have hx0 : ¬ x < xe.headD 0 := not_lt.mpr h0
  have hx1 : ¬ x > xe.getLastD 0 := not_lt.mpr h1
  unfold lookupOne fidxOne
  have e1 : (Method.bounds = Method.exact) = False := by simp
  have e2 : (Method.bounds = Method.nearest) = False := by simp
  simp only [e1, e2, false_and, if_false, if_true]
  unfold interp
  simp only [hx0, hx1, if_false, false_and, false_or]

/-- non-vacuity: a concrete non-uniform grid meets the hypotheses, with a tie -/
example : Asc [0, 1, 3, 7] ∧ roundHalfEven (fpos [0, 1, 3, 7] 2) = 2 ∧
    roundHalfEven (fpos [0, 1, 3, 7] (1 / 2)) = 0 := by
  refine ⟨by simp [Asc]; norm_num, by decide +kernel, by decide +kernel⟩

end Props.C16
