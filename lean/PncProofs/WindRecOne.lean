import PncProofs.WindRecThm

/-! the record reader of wind files on a file of exactly one time step -/
namespace WindRec
open Words Slab Wind
open SlabRead (DT timediff timeadd trange iter)
open UamivRead (sint)

/-- a wind file of one step: at least four cells (a smaller data record has the size of a time header), the HHMM part
of the time a time of day -/
structure OneW (cells nz h : Nat) (s : WStep) : Prop where
  wf : WFw cells nz h [s]
  cells4 : 4 ≤ cells
  t0 : 0 ≤ (dtOf s).2 ∧ (dtOf s).2 < 2400

theorem trange_one (start : DT) (h0 : 0 ≤ start.2 ∧ start.2 < 2400) :
    trange 2400 100 (timeadd 2400 start 100) 2 (timeadd 2400 start 0) = some [start] := by
  have hs : (0 : Int) < 100 ∧ (100 : Int) ≤ 2400 := by omega
  have e0 : timeadd 2400 start 0 = iter start 100 0 := by
    rw [SlabRead.timeadd_noroll _ _ (by omega)]; simp [iter]
  have e1 : timeadd 2400 start 100 = iter start 100 1 := rfl
  rw [e0, e1]
  have := SlabRead.trange_spec (T := 1) (start := start) (step := 100) h0 hs 1 0 2 (by omega) (by omega)
  rw [this]
  simp [iter]


theorem fetch_one {cells nz h : Nat} {s : WStep}
    (hall : ∀ t ∈ [s], t.slabs.length = 2 * nz ∧ (∀ c ∈ t.slabs, c.length = cells) ∧ (header t).length = h)
    (k uv : Nat) (hk : k < nz) (huv : uv = 1 ∨ uv = 2) :
    fetch (encode [s]) cells h nz (cells + 2) (dtOf s) (dtOf s) 100 (dtOf s) (k + 1) uv =
      some (s.slabs.getD (2 * k + (uv - 1)) []) := by
  have hT0 : 0 < [s].length := by simp
  have hj : 2 * k + (uv - 1) < 2 * nz := by rcases huv with rfl | rfl <;> omega
  obtain ⟨rest, hat⟩ := at_slab hall 0 (2 * k + (uv - 1)) hT0 hj
  simp only [List.getElem_cons_zero, Nat.zero_mul, Nat.zero_add] at hat
  obtain ⟨hsl, hcl, _⟩ := hall s (by simp)
  have hjl : 2 * k + (uv - 1) < s.slabs.length := by rw [hsl]; exact hj
  have hrl : (s.slabs.getD (2 * k + (uv - 1)) []).length = cells := by
    have : s.slabs.getD (2 * k + (uv - 1)) [] = s.slabs[2 * k + (uv - 1)] := by
      simp [List.getD_eq_getElem?_getD, List.getElem?_eq_getElem hjl]
    rw [this]; exact hcl _ (List.getElem_mem hjl)
  have hlen := at_length hat
  rw [hrl] at hlen
  have hpay := at_payload hat
  rw [hrl] at hpay
  have hd0 : timediff (dtOf s) (dtOf s) = 0 := by unfold timediff; omega
  unfold fetch
  rw [hd0]
  rw [if_neg (by omega)]
  have hq : Int.tdiv 0 100 * (nz : Int) = 0 := by simp
  simp only [Int.zero_tdiv, Int.zero_mul, Int.zero_add]
  have hq2 : ((h + 2 : Nat) : Int) + (((k + 1 - 1) * 2 * (cells + 2) + (uv - 1) * (cells + 2) : Nat) : Int) =
      ((h + 2 + (2 * k + (uv - 1)) * (cells + 2) : Nat) : Int) := by
    rw [Nat.add_sub_cancel]
    push_cast
    ring
  rw [hq2]
  rw [if_neg (by
    intro hh
    rcases hh with hh | hh
    · exact absurd hh (by exact_mod_cast Nat.not_lt_zero _)
    · have : (encode [s]).length ≤ h + 2 + (2 * k + (uv - 1)) * (cells + 2) := by exact_mod_cast hh
      omega)]
  simp only [Int.toNat_natCast]
  rw [if_neg (by omega), hpay]

variable {cells nz h : Nat} {s : WStep}

theorem read_encode_one (o : OneW cells nz h s) :
    read cells (encode [s]) = some (viewOf nz [s] (dtOf s) 100) := by
  obtain ⟨⟨hne, hc2, hnz, h23, hall⟩, hc4, h0⟩ := o
  have hT0 : 0 < [s].length := by simp
  have hW := stepW_ge cells nz h hnz
  have hlenW := total_length hall
  simp only [List.length_cons, List.length_nil, Nat.zero_add, Nat.one_mul] at hlenW
  obtain ⟨hs0, hc0, hh0⟩ := hall s (by simp)
  have hat0 := at_header hall 0 hT0
  simp only [Nat.zero_mul, List.getElem_cons_zero, Nat.zero_add, List.drop_succ_cons, List.drop_nil] at hat0
  have hm0 : (encode [s]).getD 0 0 = 4 * h := by rw [at_marker hat0, hh0]
  have hg0 := header_getD s
  have g01 := at_getD hat0 0 (by omega)
  have g02 := at_getD hat0 1 (by omega)
  simp only [Nat.zero_add, Nat.add_zero] at g01 g02
  rw [hg0.1] at g01
  rw [hg0.2] at g02
  have hstart : (sint ((encode [s]).getD 2 0), truncF32 ((encode [s]).getD 1 0)) = dtOf s := by
    rw [g01, g02]; rfl
  obtain ⟨c0, cs, hsl0⟩ : ∃ c0 cs, s.slabs = c0 :: cs := by
    cases hsl : s.slabs with
    | nil => rw [hsl] at hs0; simp at hs0; omega
    | cons c cs => exact ⟨c, cs, rfl⟩
  have hc0len : c0.length = cells := hc0 c0 (by rw [hsl0]; simp)
  obtain ⟨hnext0, hatD⟩ := at_next hat0 c0 (encodeRecs (cs ++ [[0]]) ++ encode []) (by
    rw [hsl0]; simp only [List.cons_append, encodeRecs_cons, List.append_assoc])
  rw [hh0] at hnext0 hatD
  simp only [Nat.zero_add] at hnext0 hatD
  have hp1 : nextStay (encode [s]) 0 = h + 2 := by unfold nextStay; rw [hnext0]; rfl
  have hrs : (encode [s]).getD (h + 2) 0 = 4 * cells := by rw [at_marker hatD, hc0len]
  -- the first loop runs to the end of the file
  have hrun0 := after_header hall 0 hT0
  simp only [Nat.zero_mul, Nat.zero_add, List.getElem_cons_zero, List.drop_succ_cons, List.drop_nil] at hrun0
  have hen : encode ([] : List WStep) = [] := rfl
  rw [hen, List.append_nil] at hrun0
  have hrl0 := data_run_length hall 0 hT0
  simp only [List.getElem_cons_zero] at hrl0
  have hfh := findHeader_eof (encode [s]) (4 * h) (s.slabs ++ [[0]]) (h + 2) 0 (encode [s]).length (by omega) (by simp) hrun0 (by
      intro d hd
      rcases List.mem_append.mp hd with hd | hd
      · rw [hc0 d hd]; omega
      · simp at hd; subst hd; simp; omega) (by rw [hrl0.2]; omega)
  rw [hrl0.2] at hfh
  simp only [Nat.zero_add, Nat.add_sub_cancel] at hfh
  have htr := trange_one (dtOf s) h0
  unfold read
  have hne' : (encode [s]).isEmpty = false := by
    cases hE : encode [s] with
    | nil => rw [hE] at hlenW; simp at hlenW; omega
    | cons a as => rfl
  have h812 : 4 * h = 8 ∨ 4 * h = 12 := by omega
  have hdiv : 4 * h / 4 = h := by omega
  have hnzdiv : 2 * nz / 2 = nz := by omega
  simp only [hne', Bool.false_eq_true, if_false, hm0, h812, not_true_eq_false, hdiv, hstart, hp1, hrs,
    Nat.mul_mod_right, ne_eq, Nat.mul_div_cancel_left _ (show 0 < 4 by omega), hfh, hnzdiv, htr]
  rw [if_neg (by omega)]
  have hmap : ∀ uv, uv = 1 ∨ uv = 2 →
      List.mapM (fun dt => List.mapM (fun ki =>
          fetch (encode [s]) cells h nz (cells + 2) (dtOf s) (dtOf s) 100 dt (ki + 1) uv) (List.range nz)) [dtOf s] =
      some [(List.range nz).map (fun k => s.slabs.getD (2 * k + (uv - 1)) [])] := by
    intro uv huv
    have := SlabRead.mapM_some (fun dt => List.mapM (fun ki =>
          fetch (encode [s]) cells h nz (cells + 2) (dtOf s) (dtOf s) 100 dt (ki + 1) uv) (List.range nz))
        (fun _ => (List.range nz).map (fun k => s.slabs.getD (2 * k + (uv - 1)) [])) [dtOf s] (by
      intro dt hdt
      simp only [List.mem_singleton] at hdt
      subst hdt
      refine SlabRead.mapM_some _ (fun k => s.slabs.getD (2 * k + (uv - 1)) []) _ ?_
      intro k hk
      exact fetch_one hall k uv (List.mem_range.mp hk) huv)
    simpa using this
  rw [hmap 1 (Or.inl rfl), hmap 2 (Or.inr rfl)]
  simp [viewOf, iter, noStep]

end WindRec
