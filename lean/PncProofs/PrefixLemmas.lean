import PncModel.Camx.Uamiv
import Mathlib.Tactic.Linarith

namespace Camx
open Words

theorem getD_take {α} (w : List α) (m i : Nat) (d : α) (h : i < m) : (w.take m).getD i d = w.getD i d := by
  simp only [List.getD_eq_getElem?_getD, List.getElem?_take, h, if_true]

theorem take_drop_take {α} (w : List α) (m a b : Nat) (h : a + b ≤ m) :
    ((w.take m).drop a).take b = (w.drop a).take b := by
  rw [List.drop_take, List.take_take]
  congr 1
  omega

/-- **a proper prefix is never silently misread (uamiv memory-mapped reader).** For ANY file `w`
that the reader accepts, and any prefix of `w` (`m` whole words and `extra` < 4 further bytes),
the reader either raises, or presents exactly the first `k` complete time steps of `w` with the
same header, grid, species and dimension counts — never a shifted or partly filled step. -/
theorem prefix_safe (w : List Word) (m extra : Nat) (hx : extra < 4) (hm : 4 * m + extra ≤ 4 * w.length)
    (v0 : MMView) (h0 : decodeMM w 0 = .ok v0) :
    (∃ e, decodeMM (w.take m) extra = .error e) ∨
    (∃ k, k ≤ v0.steps.length ∧ decodeMM (w.take m) extra = .ok { v0 with steps := v0.steps.take k }) := by
  have hml : m ≤ w.length := by omega
  have hlen : (w.take m).length = m := by simp [List.length_take, hml]
  -- what the full file gave
  unfold decodeMM at h0
  simp only [Nat.add_zero] at h0
  split at h0; · cases h0
  split at h0; · cases h0
  split at h0; · cases h0
  split at h0; · cases h0
  split at h0; · cases h0
  rename_i _ _ hoff0 hmod0 hnt0
  injection h0 with h0
  -- the prefix
  unfold decodeMM
  rw [hlen]
  by_cases c1 : 4 * m + extra < 404
  · left; exact ⟨.mmapErr, by simp [c1]⟩
  have hm101 : 101 ≤ m := by omega
  have eN : hNspec (w.take m) = hNspec w := getD_take w m 72 0 (by omega)
  have eX : hNx (w.take m) = hNx w := getD_take w m 86 0 (by omega)
  have eY : hNy (w.take m) = hNy w := getD_take w m 87 0 (by omega)
  have eZ : hNz (w.take m) = hNz w := by unfold hNz; rw [getD_take w m 88 0 (by omega)]
  have eO : hOff (w.take m) = hOff w := by unfold hOff; rw [eN]
  have eB : hBlk (w.take m) = hBlk w := by unfold hBlk; rw [eN, eX, eY, eZ]
  simp only [c1, if_false, eN, eO, eB]
  by_cases c2 : 4 * m + extra < 408 + 40 * hNspec w
  · left; exact ⟨.mmapErr, by simp [c2]⟩
  by_cases c3 : 4 * m + extra < 4 * hOff w
  · left; exact ⟨.partialTime, by simp [c2, c3]⟩
  by_cases c4 : (4 * m + extra - 4 * hOff w) % (4 * hBlk w) ≠ 0
  · left; exact ⟨.partialTime, by simp [c2, c3, c4]⟩
  by_cases c5 : (4 * m + extra - 4 * hOff w) / (4 * hBlk w) = 0
  · left; exact ⟨.noSteps, by simp only [c2, c3, c4, c5, if_false, if_true]⟩
  right
  simp only [c2, c3, c4, c5, if_false]
  have c4' : (4 * m + extra - 4 * hOff w) % (4 * hBlk w) = 0 := by simpa using c4
  have hblkpos : 0 < hBlk w := by unfold hBlk blockWords; omega
  -- extra must be 0 and m - off is a whole number of blocks
  obtain ⟨k, hk⟩ : ∃ k, k = (4 * m + extra - 4 * hOff w) / (4 * hBlk w) := ⟨_, rfl⟩
  rw [← hk] at c5 ⊢
  have hdiv : 4 * m + extra - 4 * hOff w = (4 * hBlk w) * k := by
    have h1 := Nat.div_add_mod (4 * m + extra - 4 * hOff w) (4 * hBlk w)
    rw [c4', Nat.add_zero, ← hk] at h1
    exact h1.symm
  have hextra : extra = 0 := by
    have h4 : (4 * m + extra - 4 * hOff w) % 4 = 0 := by
      rw [hdiv, Nat.mul_assoc]; exact Nat.mul_mod_right 4 _
    omega
  subst hextra
  have hmk : m = hOff w + hBlk w * k := by
    have : 4 * (m - hOff w) = 4 * (hBlk w * k) := by rw [← Nat.mul_assoc]; omega
    omega
  -- k ≤ nt
  have hnt : k ≤ (4 * w.length - 4 * hOff w) / (4 * hBlk w) := by
    rw [hk]; exact Nat.div_le_div_right (by omega)
  refine ⟨k, ?_, ?_⟩
  · rw [← h0]; simp [mkView]; exact hnt
  · rw [← h0]
    simp only [mkView, eN, eX, eY, eZ, eO, eB]
    have hspc : 102 + 10 * hNspec w ≤ m := by unfold hOff dataOffset at hmk; omega
    rw [take_drop_take w m 1 76 (by omega), take_drop_take w m 79 15 (by omega),
      take_drop_take w m 102 (10 * hNspec w) hspc]
    congr 2
    rw [← List.map_take, List.take_range, Nat.min_eq_left hnt]
    apply List.map_congr_left
    intro t ht
    have htk : t < k := by simpa using ht
    congr 1
    rw [List.drop_drop, List.drop_drop]
    have : hOff w + t * hBlk w + hBlk w ≤ m := by
      rw [hmk]
      have : (t + 1) * hBlk w ≤ k * hBlk w := Nat.mul_le_mul_right _ htk
      nlinarith
    exact take_drop_take w m _ _ (by omega)

end Camx
