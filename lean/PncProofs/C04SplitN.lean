import PncProofs.C04Split
open PFile Arr PySlice
namespace Props.C04

/-! ### any number of consecutive pieces -/

/-- two cuts along an axis whose results, joined, are a third cut of the list at that axis -/
theorem concat_atAxis_gen {α} (f g h : List (Arr α) → List (Arr α)) : ∀ (sh : List Nat) (k : Nat) (a : Arr α),
    hasShape sh a = true → k < sh.length → (∀ xs : List (Arr α), xs.length = sh.getD k 0 → f xs ++ g xs = h xs) →
    concat k (atAxis f k a) (atAxis g k a) = atAxis h k a
  | [], _, _, _, hk, _ => by simp at hk
  | m :: rest, _, .leaf _, hs, _, _ => by simp [hasShape] at hs
  | m :: rest, 0, .node xs, hs, _, hfg => by
    simp only [hasShape, Bool.and_eq_true, beq_iff_eq] at hs
    simp only [atAxis, concat]
    rw [hfg xs (by simpa using hs.1)]
  | m :: rest, k + 1, .node xs, hs, hk, hfg => by
    simp only [hasShape, Bool.and_eq_true, beq_iff_eq] at hs
    have hr := hs.2
    clear hs
    simp only [atAxis, concat]
    congr 1
    have hall : ∀ x ∈ xs, concat k (atAxis f k x) (atAxis g k x) = atAxis h k x := fun x hx =>
      concat_atAxis_gen f g h rest k x (hasShape_of_mem rest xs hr x hx) (by simpa using hk) (by simpa using hfg)
    clear hr
    induction xs with
    | nil => rfl
    | cons x xs ih =>
      simp only [atAxisL, concatL]
      rw [hall x (by simp), ih (fun y hy => hall y (by simp [hy]))]

/-- cuts that agree on lists of the axis' length agree on the array -/
theorem atAxis_congr {α} (f g : List (Arr α) → List (Arr α)) : ∀ (sh : List Nat) (k : Nat) (a : Arr α),
    hasShape sh a = true → k < sh.length → (∀ xs : List (Arr α), xs.length = sh.getD k 0 → f xs = g xs) →
    atAxis f k a = atAxis g k a
  | [], _, _, _, hk, _ => by simp at hk
  | m :: rest, _, .leaf _, hs, _, _ => by simp [hasShape] at hs
  | m :: rest, 0, .node xs, hs, _, hfg => by
    simp only [hasShape, Bool.and_eq_true, beq_iff_eq] at hs
    simp only [atAxis]
    rw [hfg xs (by simpa using hs.1)]
  | m :: rest, k + 1, .node xs, hs, hk, hfg => by
    simp only [hasShape, Bool.and_eq_true, beq_iff_eq] at hs
    have hr := hs.2
    clear hs
    simp only [atAxis]
    congr 1
    have hall : ∀ x ∈ xs, atAxis f k x = atAxis g k x := fun x hx =>
      atAxis_congr f g rest k x (hasShape_of_mem rest xs hr x hx) (by simpa using hk) (by simpa using hfg)
    clear hr
    induction xs with
    | nil => rfl
    | cons x xs ih =>
      simp only [atAxisL]
      rw [hall x (by simp), ih (fun y hy => hall y (by simp [hy]))]

/-- the identity cut -/
theorem atAxis_id' {α} : ∀ (sh : List Nat) (k : Nat) (a : Arr α), hasShape sh a = true → k < sh.length →
    atAxis (fun xs => xs) k a = a
  | [], _, _, _, hk => by simp at hk
  | m :: rest, _, .leaf _, hs, _ => by simp [hasShape] at hs
  | m :: rest, 0, .node xs, _, _ => by simp only [atAxis]
  | m :: rest, k + 1, .node xs, hs, hk => by
    simp only [hasShape, Bool.and_eq_true, beq_iff_eq] at hs
    have hr := hs.2
    clear hs
    simp only [atAxis]
    congr 1
    have hall : ∀ x ∈ xs, atAxis (fun xs => xs) k x = x := fun x hx =>
      atAxis_id' rest k x (hasShape_of_mem rest xs hr x hx) (by simpa using hk)
    clear hr
    induction xs with
    | nil => rfl
    | cons x xs ih =>
      simp only [atAxisL]
      rw [hall x (by simp), ih (fun y hy => hall y (by simp [hy]))]

/-- the windows `(start, length)` of consecutive pieces of the given lengths, the first starting at `lo` -/
def windows : Nat → List Nat → List (Nat × Nat)
  | _, [] => []
  | lo, n :: rest => (lo, n) :: windows (lo + n) rest

theorem windows_length (lo : Nat) (lens : List Nat) : (windows lo lens).length = lens.length := by
  induction lens generalizing lo with
  | nil => rfl
  | cons n rest ih => simp [windows, ih]

/-- **split and stack, any partition, on one array**: the windows of consecutive pieces of lengths `lens` that start at
`lo` and end at the end of axis `k`, concatenated in order along `k`, are the array from `lo` on -/
theorem concatAllG_windows {α} (sh : List Nat) (k : Nat) (a : Arr α) (hs : hasShape sh a = true) (hk : k < sh.length) :
    ∀ (lens : List Nat) (lo : Nat), lens ≠ [] → lo + lens.sum = sh.getD k 0 →
    concatAllG k ((windows lo lens).map (fun w => atAxis (fun xs => (xs.drop w.1).take w.2) k a)) =
      atAxis (List.drop lo) k a
  | [], _, hne, _ => absurd rfl hne
  | [n], lo, _, hsum => by
    simp only [windows, List.map_cons, List.map_nil, concatAllG]
    apply atAxis_congr _ _ sh k a hs hk
    intro xs hxs
    apply List.take_of_length_le
    simp only [List.length_drop, List.sum_cons, List.sum_nil] at hsum ⊢
    omega
  | n :: n' :: rest, lo, _, hsum => by
    have ih := concatAllG_windows sh k a hs hk (n' :: rest) (lo + n) (by simp) (by
      simp only [List.sum_cons] at hsum ⊢
      omega)
    simp only [windows, List.map_cons, concatAllG] at ih ⊢
    rw [ih]
    apply concat_atAxis_gen _ _ _ sh k a hs hk
    intro xs _
    rw [← List.drop_drop]
    exact List.take_append_drop n (xs.drop lo)

/-- the same from the start of the axis: the pieces put together are the array -/
theorem concat_partition {α} (sh : List Nat) (k : Nat) (a : Arr α) (hs : hasShape sh a = true) (hk : k < sh.length)
    (lens : List Nat) (hne : lens ≠ []) (hsum : lens.sum = sh.getD k 0) :
    concatAllG k ((windows 0 lens).map (fun w => orth (windowSels sh k w.1 w.2) a)) = a := by
  have hw : ∀ (lens : List Nat) (lo : Nat), lo + lens.sum ≤ sh.getD k 0 →
      (windows lo lens).map (fun w => orth (windowSels sh k w.1 w.2) a) =
      (windows lo lens).map (fun w => atAxis (fun xs => (xs.drop w.1).take w.2) k a) := by
    intro lens
    induction lens with
    | nil => intro lo _; rfl
    | cons n rest ih =>
      intro lo hb
      simp only [List.sum_cons] at hb
      simp only [windows, List.map_cons]
      rw [orth_window sh k a lo n hs hk (by omega), ih (lo + n) (by omega)]
  rw [hw lens 0 (by omega), concatAllG_windows sh k a hs hk lens 0 hne (by omega)]
  exact atAxis_id' sh k a hs hk

/-- the consecutive pieces of lengths `lens` of a file along `sd` -/
def piecesOf (f : File) (sd : String) (lens : List Nat) : List File :=
  (windows 0 lens).map (fun w => cutFile f sd (List.range' w.1 w.2))

theorem pieces_mapM_var (f : File) (sd : String) (hn : NamesNodup f) (v : Var) (hv : v ∈ f.vars) :
    ∀ (ws : List (Nat × Nat)),
    (ws.map (fun w => cutFile f sd (List.range' w.1 w.2))).mapM (fun h => h.var? v.name) =
      some (ws.map (fun w => cutVar f sd (List.range' w.1 w.2) v))
  | [] => rfl
  | w :: ws => by
    rw [List.map_cons, List.mapM_cons, cutFile_var? f sd _ hn v hv, pieces_mapM_var f sd hn v hv ws]
    rfl

/-- **split and stack, one variable, any partition.** For a well-formed variable that has `sd` on exactly one axis, the
variables of the consecutive pieces of lengths `lens` (not all pieces need be non-empty; the lengths add up to the length of
`sd`), stacked in order, are the variable. `l0`: the indices of the piece the stacked variable is taken from (the first
piece in `stack`; the statement does not depend on it). -/
theorem stackVar_partition (f : File) (sd : String) (lens l0 : List Nat) (hn : NamesNodup f) (v : Var) (hv : v ∈ f.vars)
    (hwf : Props.C01.VarWF f v) (hne : lens ≠ []) (hsum : lens.sum = f.dimLen sd)
    (hone : (v.dims.filter (· == sd)).length = 1) :
    stackVar (piecesOf f sd lens) sd (cutVar f sd l0 v) = .ok v := by
  have hmem : sd ∈ v.dims := by
    have : 0 < (v.dims.filter (· == sd)).length := by omega
    obtain ⟨k, hk⟩ := List.exists_mem_of_length_pos this
    have := List.mem_filter.mp hk
    have hks : k = sd := by simpa using this.2
    exact hks ▸ this.1
  unfold stackVar
  split
  · rename_i h
    have hd : (cutVar f sd l0 v).dims = v.dims := rfl
    rw [hd] at h
    simp [hmem] at h
  split
  · rename_i h
    have hd : (cutVar f sd l0 v).dims = v.dims := rfl
    rw [hd] at h
    omega
  simp only [cutVar_dims, cutVar_name]
  unfold piecesOf
  rw [pieces_mapM_var f sd hn v hv]
  simp only [List.map_map]
  have hk : v.dims.idxOf sd < (v.dims.map f.dimLen).length := by
    simpa using List.idxOf_lt_length_of_mem hmem
  have hlen : (v.dims.map f.dimLen).getD (v.dims.idxOf sd) 0 = f.dimLen sd := by
    rw [List.getD_eq_getElem?_getD, List.getElem?_map, List.getElem?_eq_getElem (by simpa using hk)]
    simp [List.getElem_idxOf]
  have hdata : (windows 0 lens).map ((fun (x : Var) => x.data) ∘ fun w => cutVar f sd (List.range' w.1 w.2) v) =
      (windows 0 lens).map (fun w => orth (windowSels (v.dims.map f.dimLen) (v.dims.idxOf sd) w.1 w.2) v.data) := by
    apply List.map_congr_left
    intro w _
    have hw := cutSels_window f.dimLen sd w.1 w.2 v.dims hone
    unfold cutSels at hw
    simp only [Function.comp, cutVar]
    rw [hw]
  rw [hdata, concatAll_eq, concat_partition (v.dims.map f.dimLen) (v.dims.idxOf sd) v.data hwf.2 hk lens hne (by rw [hlen]; exact hsum)]
  rfl

theorem cutFile_dims_mem (f : File) (sd : String) (l : List Nat) : ∀ d ∈ (cutFile f sd l).dims,
    ∃ d0 ∈ f.dims, d.name = d0.name ∧ (d0.name ≠ sd → d = d0) := by
  intro d hd
  unfold cutFile at hd
  simp only at hd
  obtain ⟨d0, hd0, rfl⟩ := List.mem_map.mp hd
  refine ⟨d0, hd0, rfl, fun hne => ?_⟩
  have : (d0.name == sd) = false := by simpa using hne
  simp [this]

theorem cutFile_dim?_isSome (f : File) (sd : String) (l : List Nat) (k : String) (hk : (f.dim? k).isSome = true) :
    ((cutFile f sd l).dim? k).isSome = true := by
  rw [cutFile_dim?]
  cases hfk : f.dim? k with
  | none => rw [hfk] at hk; simp at hk
  | some d => simp

/-- **the guards of `stack` pass on cuts of one file**: for any list of cuts of a file along `sd` (each with its own index
list), `stack` returns whenever every variable can be stacked -/
theorem stackFiles_cuts (f : File) (sd : String) (l0 : List Nat) (rest : List File) (hdn : Props.C01.DimsNodup f)
    (hsd : (f.dim? sd).isSome = true) (hgs : ∀ g ∈ cutFile f sd l0 :: rest, ∃ l, g = cutFile f sd l) (vars : List Var)
    (hvars : (firstByName [] ((cutFile f sd l0 :: rest).flatMap (·.vars))).mapM (stackVar (cutFile f sd l0 :: rest) sd) = .ok vars) :
    ∃ r, stackFiles (cutFile f sd l0 :: rest) sd = .ok r ∧ r.vars = vars ∧ r.attrs = f.attrs := by
  set A := cutFile f sd l0 with hA
  unfold stackFiles
  simp only
  have g1 : ((A.dims.filter (fun d => d.name != sd)).any (fun d => (A :: rest).any (fun g => (g.dim? d.name).isNone))) = false := by
    rw [Bool.eq_false_iff]
    intro h
    rw [List.any_eq_true] at h
    obtain ⟨d, hd, hany⟩ := h
    rw [List.any_eq_true] at hany
    obtain ⟨g, hg, hnone⟩ := hany
    obtain ⟨d0, hd0, hname, _⟩ := cutFile_dims_mem f sd _ d (List.mem_filter.mp hd).1
    obtain ⟨l, rfl⟩ := hgs g hg
    have := cutFile_dim?_isSome f sd l d.name (by rw [hname, dim?_of_mem f hdn d0 hd0]; rfl)
    cases hx : (cutFile f sd l).dim? d.name with
    | none => rw [hx] at this; simp at this
    | some y => rw [hx] at hnone; simp at hnone
  rw [g1]
  simp only [Bool.false_eq_true, if_false]
  have g2 : ((A :: rest).any (fun g => g.dims.any (fun d => d.name != sd && !((sharedDims (A :: rest) A sd).any (·.name == d.name))))) = false := by
    rw [Bool.eq_false_iff]
    intro h
    rw [List.any_eq_true] at h
    obtain ⟨g, hg, hany⟩ := h
    rw [List.any_eq_true] at hany
    obtain ⟨d, hd, hcond⟩ := hany
    simp only [Bool.and_eq_true, bne_iff_ne, ne_eq, Bool.not_eq_eq_eq_not, Bool.not_true] at hcond
    obtain ⟨hne, hnot⟩ := hcond
    obtain ⟨l, rfl⟩ := hgs g hg
    obtain ⟨d0, hd0, hname, heq⟩ := cutFile_dims_mem f sd l d hd
    have hne0 : d0.name ≠ sd := by rw [← hname]; exact hne
    have hshared : d0 ∈ sharedDims (A :: rest) A sd := by
      unfold sharedDims
      refine List.mem_filter.mpr ⟨List.mem_filter.mpr ⟨?_, by simpa using hne0⟩, ?_⟩
      · rw [hA]
        unfold cutFile
        simp only
        refine List.mem_map.mpr ⟨d0, hd0, ?_⟩
        have : (d0.name == sd) = false := by simpa using hne0
        simp [this]
      · rw [List.all_eq_true]
        intro g' hg'
        obtain ⟨l', rfl⟩ := hgs g' hg'
        rw [cutFile_dimLen_other f hdn sd l' d0 hd0 hne0]
        simp
    have : (sharedDims (A :: rest) A sd).any (·.name == d.name) = true := by
      rw [List.any_eq_true]
      exact ⟨d0, hshared, by simp [hname]⟩
    rw [this] at hnot
    cases hnot
  rw [g2]
  simp only [Bool.false_eq_true, if_false]
  have g3 : ((A :: rest).any (fun g => (g.dim? sd).isNone)) = false := by
    rw [Bool.eq_false_iff]
    intro h
    rw [List.any_eq_true] at h
    obtain ⟨g, hg, hnone⟩ := h
    obtain ⟨l, rfl⟩ := hgs g hg
    have := cutFile_dim?_isSome f sd l sd hsd
    cases hx : (cutFile f sd l).dim? sd with
    | none => rw [hx] at this; simp at this
    | some y => rw [hx] at hnone; simp at hnone
  rw [g3]
  simp only [Bool.false_eq_true, if_false]
  rw [hvars]
  exact ⟨_, rfl, rfl, rfl⟩

theorem piecesOf_cons (f : File) (sd : String) (n : Nat) (rest : List Nat) :
    piecesOf f sd (n :: rest) = cutFile f sd (List.range' 0 n) ::
      (windows (0 + n) rest).map (fun w => cutFile f sd (List.range' w.1 w.2)) := rfl

theorem piecesOf_cuts (f : File) (sd : String) (lens : List Nat) : ∀ g ∈ piecesOf f sd lens, ∃ l, g = cutFile f sd l := by
  intro g hg
  unfold piecesOf at hg
  obtain ⟨w, _, rfl⟩ := List.mem_map.mp hg
  exact ⟨_, rfl⟩

/-- the variables `stack` builds from the pieces of any partition: those of the file -/
theorem partition_vars (f : File) (sd : String) (n : Nat) (rest : List Nat) (hwf : Props.C01.WF f) (hvn : NamesNodup f)
    (hsum : (n :: rest).sum = f.dimLen sd) (hone : ∀ v ∈ f.vars, (v.dims.filter (· == sd)).length ≤ 1) :
    (firstByName [] ((piecesOf f sd (n :: rest)).flatMap (·.vars))).mapM (stackVar (piecesOf f sd (n :: rest)) sd) = .ok f.vars := by
  have hfirst : firstByName [] ((piecesOf f sd (n :: rest)).flatMap (·.vars)) = f.vars.map (cutVar f sd (List.range' 0 n)) := by
    rw [piecesOf_cons, List.flatMap_cons]
    have hnod : ((([] : List Var) ++ (cutFile f sd (List.range' 0 n)).vars).map (fun (x : Var) => x.name)).Nodup := by
      simp only [List.nil_append, cutFile, List.map_map]
      exact hvn
    rw [firstByName_append, firstByName_fresh _ [] hnod]
    simp only [List.nil_append]
    apply firstByName_known
    intro x hx
    obtain ⟨g, hg, hxg⟩ := List.mem_flatMap.mp hx
    obtain ⟨w, _, rfl⟩ := List.mem_map.mp hg
    simp only [cutFile] at hxg
    obtain ⟨v, hv, rfl⟩ := List.mem_map.mp hxg
    exact ⟨cutVar f sd (List.range' 0 n) v, List.mem_map.mpr ⟨v, hv, rfl⟩, rfl⟩
  rw [hfirst]
  have hall : ∀ x ∈ f.vars.map (cutVar f sd (List.range' 0 n)),
      stackVar (piecesOf f sd (n :: rest)) sd x = .ok ((fun w : Var => (f.var? w.name).getD w) x) := by
    intro x hx
    obtain ⟨v, hv, rfl⟩ := List.mem_map.mp hx
    have hfind : f.var? v.name = some v := by
      unfold File.var?
      exact Props.C01.find?_name_of_mem (fun (x : Var) => x.name) f.vars hvn v hv
    simp only [cutVar_name, hfind, Option.getD_some]
    by_cases hm : sd ∈ v.dims
    · have h1 : (v.dims.filter (· == sd)).length = 1 := by
        have := hone v hv
        have : 0 < (v.dims.filter (· == sd)).length := List.length_pos_of_mem (List.mem_filter.mpr ⟨hm, by simp⟩)
        omega
      exact stackVar_partition f sd (n :: rest) _ hvn v hv (hwf v hv) (by simp) hsum h1
    · rw [cutVar_noSd f sd _ v (hwf v hv) hm]
      unfold stackVar
      have : (!(v.dims.contains sd)) = true := by simpa using hm
      rw [if_pos this]
  rw [mapM_ok_of_forall _ _ _ hall, List.map_map]
  congr 1
  conv_rhs => rw [← List.map_id f.vars]
  apply List.map_congr_left
  intro v hv
  have hfind : f.var? v.name = some v := by
    unfold File.var?
    exact Props.C01.find?_name_of_mem (fun (x : Var) => x.name) f.vars hvn v hv
  simp [cutVar_name, hfind]

theorem foldl_add_eq_sum : ∀ (l : List Nat) (acc : Nat), l.foldl (· + ·) acc = acc + l.sum
  | [], acc => by simp
  | x :: l, acc => by
    simp only [List.foldl_cons, List.sum_cons]
    rw [foldl_add_eq_sum l (acc + x)]
    omega

theorem windows_lens_sum : ∀ (lens : List Nat) (lo : Nat), ((windows lo lens).map (·.2)).sum = lens.sum
  | [], _ => rfl
  | n :: rest, lo => by
    simp only [windows, List.map_cons, List.sum_cons]
    rw [windows_lens_sum rest (lo + n)]

/-- **C04 (any partition, as file operations).** For a file that meets the invariant of C01, a dimension `sd` of it that no
variable uses twice, and any list of piece lengths (at least one piece; pieces may be empty) that add up to the length of
`sd`: `stack` of the consecutive pieces along `sd` returns, and what it returns has the variables of the file — names,
dimension tuples, attributes, every cell —, its global attributes, and `sd` at its length. -/
theorem stack_partition (f : File) (sd : String) (lens : List Nat) (hinv : Props.C01.Inv f) (hsd : (f.dim? sd).isSome = true)
    (hne : lens ≠ []) (hsum : lens.sum = f.dimLen sd) (hone : ∀ v ∈ f.vars, (v.dims.filter (· == sd)).length ≤ 1) :
    ∃ r, stackFiles (piecesOf f sd lens) sd = .ok r ∧ r.vars = f.vars ∧ r.attrs = f.attrs ∧ r.dimLen sd = f.dimLen sd := by
  obtain ⟨hwf, hdn, hvn⟩ := hinv
  cases lens with
  | nil => exact absurd rfl hne
  | cons n rest =>
    have hv := partition_vars f sd n rest hwf hvn hsum hone
    have hcuts := piecesOf_cuts f sd (n :: rest)
    rw [piecesOf_cons] at hv hcuts ⊢
    obtain ⟨r, hr, h1, h2⟩ := stackFiles_cuts f sd _ _ hdn hsd hcuts f.vars hv
    refine ⟨r, hr, h1, h2, ?_⟩
    obtain ⟨vars, _, hrr, _, _⟩ := Props.C01.stack_ok _ _ sd r hr
    have hlen : r.dimLen sd = ((cutFile f sd (List.range' 0 n) ::
        (windows (0 + n) rest).map (fun w => cutFile f sd (List.range' w.1 w.2))).map (·.dimLen sd)).foldl (· + ·) 0 := by
      rw [hrr]
      unfold File.dimLen
      rw [Props.C01.stacked_dim_sd _ _ sd _ rfl]
      rfl
    rw [hlen, foldl_add_eq_sum, ← hsum]
    simp only [List.map_cons, List.sum_cons, List.map_map, Nat.zero_add]
    rw [cutFile_dimLen_sd f sd _ hsd, List.length_range']
    congr 1
    have : (fun (g : File) => g.dimLen sd) ∘ (fun (w : Nat × Nat) => cutFile f sd (List.range' w.1 w.2)) = fun w => w.2 := by
      funext w
      simp only [Function.comp]
      rw [cutFile_dimLen_sd f sd _ hsd, List.length_range']
    rw [this]
    exact windows_lens_sum rest n

/-- the pieces are what `sliceDimensions(sd=slice(lo, lo + n))` returns, window by window -/
theorem pieces_are_slices (f : File) (sd nd : String) (hsd : (f.dim? sd).isSome = true) :
    ∀ (lens : List Nat) (lo : Nat), lo + lens.sum ≤ f.dimLen sd →
    (windows lo lens).mapM (fun w => sliceFile f [(sd, .slice (some ((w.1 : Nat) : Int)) (some ((w.1 + w.2 : Nat) : Int)) 1)] nd) =
      .ok ((windows lo lens).map (fun w => cutFile f sd (List.range' w.1 w.2)))
  | [], _, _ => rfl
  | n :: rest, lo, hb => by
    simp only [List.sum_cons] at hb
    have h1 := sliceFile_cut f sd nd (.slice (some ((lo : Nat) : Int)) (some ((lo + n : Nat) : Int)) 1)
      (List.range' lo (lo + n - lo)) hsd (by intro x y h; simp at h)
      (by simp only [PSel.indices]; rw [sliceIndices_window _ lo (lo + n) (by omega) (by omega)]) rfl
    have hn : lo + n - lo = n := by omega
    rw [hn] at h1
    simp only [windows, List.mapM_cons, List.map_cons]
    rw [h1, pieces_are_slices f sd nd hsd rest (lo + n) (by omega)]
    rfl

/-- **C04 (split into any consecutive pieces, then stack; total form).** The window slices of any partition of `sd` are
taken, `stack` of them returns, and the result has the variables, global attributes and length of `sd` of the file. -/
theorem split_partition_then_stack (f : File) (sd nd : String) (lens : List Nat) (hinv : Props.C01.Inv f)
    (hsd : (f.dim? sd).isSome = true) (hne : lens ≠ []) (hsum : lens.sum = f.dimLen sd)
    (hone : ∀ v ∈ f.vars, (v.dims.filter (· == sd)).length ≤ 1) :
    ∃ ps r, (windows 0 lens).mapM (fun w => sliceFile f [(sd, .slice (some ((w.1 : Nat) : Int)) (some ((w.1 + w.2 : Nat) : Int)) 1)] nd) = .ok ps ∧
      stackFiles ps sd = .ok r ∧ r.vars = f.vars ∧ r.attrs = f.attrs ∧ r.dimLen sd = f.dimLen sd := by
  obtain ⟨r, hr, h⟩ := stack_partition f sd lens hinv hsd hne hsum hone
  exact ⟨_, r, pieces_are_slices f sd nd hsd lens 0 (by omega), hr, h⟩

/-- a file with a masked cell, a variable without `t`, and an attribute -/
def partitionExample : File := ⟨[⟨"t", 3, true⟩, ⟨"x", 2, false⟩],
  [⟨"A", ["t", "x"], .node [.node [.leaf (some 1), .leaf (some 2)], .node [.leaf (some 3), .leaf none],
                           .node [.leaf (some 5), .leaf (some 6)]], [], false, false⟩,
   ⟨"B", ["x"], .node [.leaf (some 7), .leaf (some 8)], [], false, false⟩], ["NOTE=kept"]⟩

/-- non-vacuity: the example cut along `t` (length 3) into pieces of lengths 1, 0 and 2 — three different pieces, one of
them empty — and stacked again -/
example : (piecesOf partitionExample "t" [1, 0, 2]).map (fun g => g.dimLen "t") = [1, 0, 2] ∧
    (stackFiles (piecesOf partitionExample "t" [1, 0, 2]) "t").toOption.map (fun r => r.vars.map (fun v => (v.name, v.dims, flatten v.data))) =
      some (partitionExample.vars.map (fun v => (v.name, v.dims, flatten v.data))) := by
  decide +kernel

end Props.C04
