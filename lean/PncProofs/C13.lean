import PncProofs.SlabLemmas
import PncProofs.BridgeLemmas
import PncProofs.SlabReadLemmas
import PncProofs.UamivReadEncode
import PncProofs.WindRecThm
import PncProofs.WindRecOne
/-
C13 — memory-mapped and record-based CAMx readers agree.

For the slab formats (one3d / humidity / vertical diffusivity, temperature, height/pressure) the file carries
no counts: `Slab.mmDecode` is the memory-mapped reader's inference (records of `cells + 4` words, slabs per step
from the first change of (time, date)), `Slab.viewOf` is the content the file was written from — which is also
what a reader that walks the Fortran records one by one presents.  `mm_decode_encode` proves that the two are
the same for every well-formed file of at least two time steps, any grid size, layer count and payload, for all
three layouts.  (For the gridded average/emissions family the corresponding statement is
`Camx.decodeMM_encode`, proved for C08/C09.)  `single_step_rejected` shows why one-step files are outside the
domain: no record differs from the first, the inference has nothing to go on.
-/
namespace Props.C13
open Slab Words

structure WF (f : SFile) : Prop where
  cells : ∀ s ∈ f.steps, ∀ c ∈ s.slabs, c.length = f.cells
  same : ∀ s ∈ f.steps, ∀ s' ∈ f.steps, s.slabs.length = s'.slabs.length
  two : ∃ s0 s1 rest, f.steps = s0 :: s1 :: rest ∧ (s1.time, s1.date) ≠ (s0.time, s0.date) ∧
    1 ≤ s0.slabs.length

def framedStep (s : Step) : List (List Word) := (stepRows s).map frame

theorem encode_eq (f : SFile) : encode f = ((f.steps.map framedStep).flatten).flatten := by
  simp only [encode, encodeRecs, rows, framedStep, List.map_flatten, List.map_map]
  rfl

theorem framedStep_length (s : Step) : (framedStep s).length = s.slabs.length := by
  simp [framedStep, stepRows]

theorem mem_framedStep {s : Step} {r : List Word} (h : r ∈ framedStep s) :
    ∃ c ∈ s.slabs, r = frame (s.time :: s.date :: c) := by
  simp only [framedStep, stepRows, List.map_map, List.mem_map, Function.comp] at h
  obtain ⟨c, hc, rfl⟩ := h
  exact ⟨c, hc, rfl⟩

/-- step A: cutting the file into records of `cells + 4` words gives back the framed records -/
theorem chunk_records (f : SFile) (h : WF f) :
    chunk (f.cells + 4) (encode f) (encode f).length = (f.steps.map framedStep).flatten := by
  rw [encode_eq]
  apply chunk_flatten (f.cells + 4) (by omega) _ _ _ (Nat.le_refl _)
  intro p hp
  obtain ⟨fs, hfs, hp'⟩ := List.mem_flatten.mp hp
  obtain ⟨s, hs, rfl⟩ := List.mem_map.mp hfs
  obtain ⟨c, hc, rfl⟩ := mem_framedStep hp'
  rw [frame_len, h.cells s hs c hc]

theorem takeWhile_stop {α} (p : α → Bool) (y : α) (r : List α) (hy : p y = false) :
    ∀ (l : List α), (∀ x ∈ l, p x = true) → (l ++ y :: r).takeWhile p = l := by
  intro l
  induction l with
  | nil => intro _; simp [List.takeWhile_cons, hy]
  | cons a as ih =>
    intro h
    simp only [List.cons_append, List.takeWhile_cons, h a (by simp), if_true]
    rw [ih (fun x hx => h x (by simp [hx]))]

/-- step B: the first change of (time, date) is after exactly one step's slabs -/
theorem leading_eq (f : SFile) (h : WF f) (s0 s1 : Step) (rest : List Step)
    (hst : f.steps = s0 :: s1 :: rest) (hne : (s1.time, s1.date) ≠ (s0.time, s0.date)) (hm : 1 ≤ s0.slabs.length) :
    leading ((f.steps.map framedStep).flatten) = s0.slabs.length := by
  rw [hst]
  simp only [List.map_cons, List.flatten_cons]
  have h1 : 1 ≤ s1.slabs.length := by
    have := h.same s1 (by rw [hst]; simp) s0 (by rw [hst]; simp)
    omega
  -- shapes of the first two framed steps
  obtain ⟨c0, cs0, hc0⟩ : ∃ c0 cs0, s0.slabs = c0 :: cs0 := by
    cases hs : s0.slabs with
    | nil => rw [hs] at hm; simp at hm
    | cons a as => exact ⟨a, as, rfl⟩
  obtain ⟨c1, cs1, hc1⟩ : ∃ c1 cs1, s1.slabs = c1 :: cs1 := by
    cases hs : s1.slabs with
    | nil => rw [hs] at h1; simp at h1
    | cons a as => exact ⟨a, as, rfl⟩
  have e0 : framedStep s0 = frame (s0.time :: s0.date :: c0) :: cs0.map (fun c => frame (s0.time :: s0.date :: c)) := by
    simp [framedStep, stepRows, hc0]
  have e1 : framedStep s1 = frame (s1.time :: s1.date :: c1) :: cs1.map (fun c => frame (s1.time :: s1.date :: c)) := by
    simp [framedStep, stepRows, hc1]
  rw [e0, e1]
  simp only [List.cons_append, leading, recTD_frame]
  rw [takeWhile_stop _ _ _ (by
      rw [recTD_frame]
      simp only [beq_eq_false_iff_ne, ne_eq]
      exact hne) _ (by
      intro x hx
      obtain ⟨c, _, rfl⟩ := List.mem_map.mp hx
      rw [recTD_frame]; simp)]
  simp [hc0]
  omega


theorem flatten_length (steps : List Step) (m : Nat) (hm : ∀ s ∈ steps, s.slabs.length = m) :
    ((steps.map framedStep).flatten).length = m * steps.length := by
  induction steps with
  | nil => simp
  | cons s rest ih =>
    simp only [List.map_cons, List.flatten_cons, List.length_append, List.length_cons, framedStep_length,
      hm s (by simp), ih (fun x hx => hm x (by simp [hx]))]
    ring

theorem recCells_framedStep (s : Step) : (framedStep s).map recCells = s.slabs := by
  simp only [framedStep, stepRows, List.map_map]
  conv_rhs => rw [← List.map_id s.slabs]
  apply List.map_congr_left
  intro c _
  simp [Function.comp, recCells_frame]

/-- **the memory-mapped readers recover the content** (C13, slab formats): for every well-formed file with at
least two time steps — any grid size, any number of layers, any payload — what the memory-mapped reader infers
from record sizes and (time, date) changes is exactly the content the file was written from, i.e. what a
record-by-record reader presents: the same number of steps and layers, the same time flags and the same cells
of every variable. -/
theorem mm_decode_encode (k : Kind) (f : SFile) (h : WF f) :
    mmDecode k f.cells (encode f) = viewOf k f := by
  obtain ⟨s0, s1, rest, hst, hne, hm⟩ := h.two
  have hsame : ∀ s ∈ f.steps, s.slabs.length = s0.slabs.length :=
    fun s hs => h.same s hs s0 (by rw [hst]; simp)
  unfold mmDecode
  have hwhole : ¬ ((encode f).length % (f.cells + 4) ≠ 0) := by
    rw [encode_eq]
    have : ∀ (ps : List (List Word)), (∀ p ∈ ps, p.length = f.cells + 4) →
        ps.flatten.length % (f.cells + 4) = 0 := by
      intro ps
      induction ps with
      | nil => intro _; simp
      | cons a as ih =>
        intro hp
        simp only [List.flatten_cons, List.length_append, hp a (by simp)]
        have := ih (fun x hx => hp x (by simp [hx]))
        rw [Nat.add_mod, Nat.mod_self, this]; simp
    have hz := this ((f.steps.map framedStep).flatten) (by
      intro p hp
      obtain ⟨fs, hfs, hp'⟩ := List.mem_flatten.mp hp
      obtain ⟨s, hs, rfl⟩ := List.mem_map.mp hfs
      obtain ⟨c, hc, rfl⟩ := mem_framedStep hp'
      rw [frame_len, h.cells s hs c hc])
    omega
  rw [if_neg hwhole, chunk_records f h]
  unfold mmRows
  simp only
  rw [leading_eq f h s0 s1 rest hst hne hm]
  have hlen := flatten_length f.steps s0.slabs.length hsame
  have hnsteps : f.steps.length = rest.length + 2 := by rw [hst]; simp
  -- the three guards
  have g1 : ¬ (s0.slabs.length = 0 ∨ s0.slabs.length = ((f.steps.map framedStep).flatten).length ∨
      ((f.steps.map framedStep).flatten).length % s0.slabs.length ≠ 0) := by
    rw [hlen, hnsteps]
    intro hh
    rcases hh with h0 | h1 | h2
    · omega
    · have : s0.slabs.length * (rest.length + 2) = s0.slabs.length * rest.length + 2 * s0.slabs.length := by ring
      omega
    · exact h2 (Nat.mul_mod_right _ _)
  rw [if_neg g1]
  have g2 : ¬ (k ≠ Kind.one3d ∧ ((f.steps.map framedStep).flatten).any (fun r => r.head? ≠ r.getLast?) = true) := by
    intro ⟨_, hany⟩
    rw [List.any_eq_true] at hany
    obtain ⟨r, hr, hbad⟩ := hany
    obtain ⟨fs, hfs, hr'⟩ := List.mem_flatten.mp hr
    obtain ⟨s, _, rfl⟩ := List.mem_map.mp hfs
    obtain ⟨c, _, rfl⟩ := mem_framedStep hr'
    simp [frame_markers] at hbad
  rw [if_neg g2]
  -- step C: regroup the records into steps
  have hchunk : chunk s0.slabs.length ((f.steps.map framedStep).flatten) ((f.steps.map framedStep).flatten).length =
      f.steps.map framedStep := by
    apply chunk_flatten s0.slabs.length (by omega) _ _ _ (Nat.le_refl _)
    intro p hp
    obtain ⟨s, hs, rfl⟩ := List.mem_map.mp hp
    rw [framedStep_length, hsame s hs]
  rw [hchunk]
  unfold viewOf
  rw [hst]
  simp only [List.map_cons]
  -- step D: the view
  congr 1
  funext nz
  have hflag : ∀ s : Step, 1 ≤ s.slabs.length →
      ((recTD ((framedStep s).headD [])).2, (recTD ((framedStep s).headD [])).1) = (s.date, s.time) := by
    intro s hs
    cases hsl : s.slabs with
    | nil => rw [hsl] at hs; simp at hs
    | cons c cs =>
      simp [framedStep, stepRows, hsl, recTD_frame]
  have h1 : 1 ≤ s1.slabs.length := by
    have := hsame s1 (by rw [hst]; simp); omega
  have hrest : ∀ s ∈ rest, 1 ≤ s.slabs.length := by
    intro s hs
    have := hsame s (by rw [hst]; simp [hs]); omega
  simp only [List.length_cons, List.length_map, View.mk.injEq, true_and, List.map_cons, List.cons.injEq]
  refine ⟨⟨hflag s0 hm, hflag s1 h1, ?_⟩, ?_⟩
  · rw [List.map_map]
    apply List.map_congr_left
    intro s hs
    exact hflag s (hrest s hs)
  · simp only [List.foldl_cons, recCells_framedStep, List.foldl_map]

/-- the hypotheses are met: a 2-step temperature file with two layers and two cells per slab -/
def exFile : SFile :=
  { cells := 2, steps := [⟨0, 2001, [[1, 2], [3, 4], [5, 6]]⟩, ⟨1120403456, 2001, [[7, 8], [9, 10], [11, 12]]⟩] }

theorem exFile_wf : WF exFile := by
  refine ⟨?_, ?_, ⟨_, _, _, rfl, by decide, by decide⟩⟩
  · intro s hs c hc
    simp only [exFile, List.mem_cons, List.mem_nil_iff, or_false] at hs
    rcases hs with rfl | rfl <;> simp at hc <;> rcases hc with rfl | rfl | rfl <;> rfl
  · intro s hs s' hs'
    simp only [exFile, List.mem_cons, List.mem_nil_iff, or_false] at hs hs'
    rcases hs with rfl | rfl <;> rcases hs' with rfl | rfl <;> rfl

example : (mmDecode .temperature 2 (encode exFile)).map (fun v => (v.nt, v.nz, v.vars)) =
    some (2, 2, [("SURFTEMP", [[1, 2], [7, 8]]), ("AIRTEMP", [[3, 4], [5, 6], [9, 10], [11, 12]])]) := by
  have := mm_decode_encode .temperature exFile exFile_wf
  rw [show exFile.cells = 2 from rfl] at this
  rw [this]; rfl

/-- **one-step files are outside the domain**: no record differs from the first one, so the reader has nothing
to infer the layer count from — the model (like `one3d`, which raises IndexError) rejects the file -/
theorem single_step_rejected :
    mmDecode .one3d 2 (encode { cells := 2, steps := [⟨0, 2001, [[1, 2], [3, 4]]⟩] }) = none := by rfl

/-! ### the record-based readers (one3d / humidity / vertical diffusivity, and height/pressure)

They navigate by time arithmetic (`SlabRead.lean`).  On a file whose time axis is regular — every step follows the
previous one by the same whole number of hours, at most a day — they present the content that was written, hence
the same steps, layers and cells as the memory-mapped readers. -/
open SlabRead

/-- a file the record readers are meant for: `L` layers (`2 L` slabs per step for height/pressure), at least two
steps, and a regular time axis from `start` in steps of `step` (HHMM units, an even number, at most 2400) -/
structure ReadWF (hp : Bool) (f : SFile) (L : Nat) (start : DT) (step : Int) : Prop where
  cells : ∀ s ∈ f.steps, ∀ c ∈ s.slabs, c.length = f.cells
  slabs : ∀ s ∈ f.steps, s.slabs.length = L * (if hp then 2 else 1)
  layers : 1 ≤ L
  two : 2 ≤ f.steps.length
  t0 : 0 ≤ start.2 ∧ start.2 < 2400
  stepOk : 0 < step ∧ step ≤ 2400
  even : step % 2 = 0
  axis : ∀ (i : Nat) (h : i < f.steps.length),
    (((f.steps[i].date : Nat) : Int), truncF32 f.steps[i].time) = iter start step i

theorem getElem?_flatten_uniform {α} (m : Nat) : ∀ (ls : List (List α)), (∀ l ∈ ls, l.length = m) →
    ∀ (i j : Nat), j < m → (ls.flatten)[i * m + j]? = (ls[i]?).bind (·[j]?) := by
  intro ls
  induction ls with
  | nil => intro _ i j _; simp
  | cons a rest ih =>
    intro h i j hj
    have ha : a.length = m := h a (by simp)
    cases i with
    | zero =>
      simp only [Nat.zero_mul, Nat.zero_add, List.flatten_cons, List.getElem?_cons_zero, Option.bind_some]
      rw [List.getElem?_append_left (by omega)]
    | succ i =>
      simp only [List.flatten_cons, List.getElem?_cons_succ]
      rw [List.getElem?_append_right (by rw [ha, Nat.succ_mul]; omega)]
      have : (i + 1) * m + j - a.length = i * m + j := by rw [ha, Nat.succ_mul]; omega
      rw [this]
      exact ih (fun l hl => h l (List.mem_cons_of_mem _ hl)) i j hj

/-- the cells of slab `j` of step `i` -/
def slabAt (f : SFile) (i j : Nat) : List Word := ((f.steps[i]?).bind (·.slabs[j]?)).getD []

theorem recDT_frame (t d : Word) (c : List Word) : recDT (frame (t :: d :: c)) = (((d : Nat) : Int), truncF32 t) := by
  simp [recDT, frame]

/-- the framed records of a well-formed file are the table the record readers walk -/
theorem table_of_file (hp : Bool) (f : SFile) (L : Nat) (start : DT) (step : Int) (h : ReadWF hp f L start step) :
    Table ((f.steps.map framedStep).flatten) f.steps.length L (if hp then 2 else 1) (iter start step) (slabAt f) := by
  have hm : ∀ l ∈ f.steps.map framedStep, l.length = L * (if hp then 2 else 1) := by
    intro l hl
    obtain ⟨s, hs, rfl⟩ := List.mem_map.mp hl
    rw [framedStep_length, h.slabs s hs]
  constructor
  · rw [flatten_length f.steps _ h.slabs, Nat.mul_comm]
  · intro i j hi hj
    rw [getElem?_flatten_uniform _ _ hm i j hj]
    have hsi : f.steps[i]? = some f.steps[i] := List.getElem?_eq_getElem hi
    have hmem : f.steps[i] ∈ f.steps := List.getElem_mem hi
    have hjs : j < (f.steps[i]).slabs.length := by rw [h.slabs _ hmem]; exact hj
    refine ⟨frame (f.steps[i].time :: f.steps[i].date :: (f.steps[i]).slabs[j]), ?_, ?_, ?_⟩
    · simp only [List.getElem?_map, hsi, Option.map_some, Option.bind_some, framedStep, stepRows,
        List.getElem?_eq_getElem hjs]
    · rw [recDT_frame]; exact h.axis i hi
    · rw [recCells_frame]
      simp [slabAt, hsi, List.getElem?_eq_getElem hjs]

theorem encode_whole (f : SFile) (hc : ∀ s ∈ f.steps, ∀ c ∈ s.slabs, c.length = f.cells) :
    (encode f).length % (f.cells + 4) = 0 := by
  rw [encode_eq]
  have : ∀ (ps : List (List Word)), (∀ p ∈ ps, p.length = f.cells + 4) →
      ps.flatten.length % (f.cells + 4) = 0 := by
    intro ps
    induction ps with
    | nil => intro _; simp
    | cons a as ih =>
      intro hp
      simp only [List.flatten_cons, List.length_append, hp a (by simp)]
      have := ih (fun x hx => hp x (by simp [hx]))
      rw [Nat.add_mod, Nat.mod_self, this]; simp
  exact this ((f.steps.map framedStep).flatten) (by
    intro p hp
    obtain ⟨fs, hfs, hp'⟩ := List.mem_flatten.mp hp
    obtain ⟨s, hs, rfl⟩ := List.mem_map.mp hfs
    obtain ⟨c, hc', rfl⟩ := mem_framedStep hp'
    rw [frame_len, hc s hs c hc'])

/-- a file that is well-formed for the record readers is well-formed for the memory-mapped ones -/
theorem wf_of_readWF (hp : Bool) (f : SFile) (L : Nat) (start : DT) (step : Int) (h : ReadWF hp f L start step) : WF f := by
  refine ⟨h.cells, fun s hs s' hs' => by rw [h.slabs s hs, h.slabs s' hs'], ?_⟩
  have h2 := h.two
  match hst : f.steps with
  | [] => rw [hst] at h2; simp at h2
  | [_] => rw [hst] at h2; simp at h2
  | s0 :: s1 :: rest =>
    refine ⟨s0, s1, rest, rfl, ?_, ?_⟩
    · intro heq
      have a0 := h.axis 0 (by omega)
      have a1 := h.axis 1 (by omega)
      simp only [hst, List.getElem_cons_zero, List.getElem_cons_succ] at a0 a1
      have hne := iter_ne start step h.t0 h.stepOk 1 0 (by omega)
      apply hne
      rw [← a0, ← a1]
      simp only [Prod.mk.injEq] at heq
      rw [heq.1, heq.2]
    · have := h.slabs s0 (by rw [hst]; simp)
      have hl := h.layers
      rw [this]
      cases hp <;> simp <;> omega

/-- **C13 (record readers).** For every file with a regular time axis — any grid, any number of layers, at least
two steps, any payload — the record-based reader of the one3d family (`hp = false`) and of height/pressure files
(`hp = true`) presents exactly the content the file was written from: the number of steps and layers, the time
of every step and the cells of every slab. -/
theorem read_decode_encode (hp : Bool) (f : SFile) (L : Nat) (start : DT) (step : Int) (h : ReadWF hp f L start step) :
    readDecode hp (encode f) =
      some (tableView f.steps.length L (if hp then 2 else 1) (iter start step) (slabAt f)) := by
  have hwf := wf_of_readWF hp f L start step h
  obtain ⟨s0, s1, rest, hst, _, hm⟩ := hwf.two
  -- the record size the reader takes from the first marker
  have hhead : (encode f).headD 0 / 4 - 2 = f.cells := by
    obtain ⟨c0, cs, hc0⟩ : ∃ c0 cs, s0.slabs = c0 :: cs := by
      cases hsl : s0.slabs with
      | nil => rw [hsl] at hm; simp at hm
      | cons c cs => exact ⟨c, cs, rfl⟩
    have hlen : c0.length = f.cells := h.cells s0 (by rw [hst]; simp) c0 (by rw [hc0]; simp)
    simp only [encode, rows, hst, List.map_cons, List.flatten_cons, stepRows, hc0, encodeRecs, frame,
      List.cons_append, List.nil_append, List.headD_cons, List.length_cons, hlen]
    rw [Nat.mul_div_cancel_left _ (show 0 < 4 by omega)]
    rfl
  unfold readDecode
  simp only [hhead]
  rw [if_neg (by rw [encode_whole f h.cells]; simp), chunk_records f hwf]
  exact readRows_spec hp _ f.steps.length L start step (slabAt f) (table_of_file hp f L start step h)
    h.t0 h.stepOk h.even h.two h.layers

theorem range_map_getD {α} (d : α) (l : List α) : (List.range l.length).map (fun k => (l[k]?).getD d) = l := by
  apply List.ext_getElem
  · simp
  · intro i h1 h2
    simp only [List.length_map, List.length_range] at h1
    simp [List.getElem?_eq_getElem h1]

theorem range_flatMap_getElem? {α β} (h : Option α → List β) (l : List α) :
    (List.range l.length).flatMap (fun i => h (l[i]?)) = l.flatMap (fun x => h (some x)) := by
  induction l with
  | nil => simp
  | cons a rest ih =>
    rw [List.length_cons, List.range_succ_eq_map, List.flatMap_cons, List.flatMap_map, List.flatMap_cons]
    simp only [List.getElem?_cons_zero, Function.comp_def, List.getElem?_cons_succ]
    rw [ih]

theorem flatMap_congr' {α β} (l : List α) (g1 g2 : α → List β) (h : ∀ x ∈ l, g1 x = g2 x) : l.flatMap g1 = l.flatMap g2 := by
  induction l with
  | nil => rfl
  | cons a rest ih =>
    simp only [List.flatMap_cons, h a (by simp), ih (fun x hx => h x (List.mem_cons_of_mem _ hx))]

/-- every second slab of a step, as the table indexes it -/
theorem pickEvery_two (v : Nat) (hv : v < 2) : ∀ (L : Nat) (l : List (List Word)), l.length = L * 2 →
    pickEvery v 2 l = (List.range L).map (fun k => (l[k * 2 + v]?).getD []) := by
  intro L
  induction L with
  | zero => intro l hl; have : l = [] := List.length_eq_zero_iff.mp (by omega); subst this; simp [pickEvery]
  | succ L ih =>
    intro l hl
    match l, hl with
    | [], hl => simp at hl
    | [_], hl => simp at hl; omega
    | a :: b :: rest, hl =>
      have hr : rest.length = L * 2 := by simp only [List.length_cons] at hl; omega
      have ihr := ih rest hr
      unfold pickEvery at ihr ⊢
      rw [List.length_cons, List.length_cons, List.range_succ_eq_map, List.filterMap_cons]
      rw [List.range_succ_eq_map]
      simp only [List.map_cons, List.filterMap_cons, List.filterMap_map, List.map_map, Function.comp_def]
      have e1 : ∀ i : Nat, (i + 1 + 1) % 2 = i % 2 := by intro i; omega
      simp only [e1, List.getElem?_cons_succ]
      rw [List.range_succ_eq_map (n := L)]
      simp only [List.map_cons, List.map_map, Function.comp_def]
      have e2 : ∀ k : Nat, (k + 1) * 2 + v = k * 2 + v + 1 + 1 := by intro k; omega
      simp only [e2, List.getElem?_cons_succ]
      rw [← ihr]
      have hv2 : v = 0 ∨ v = 1 := by omega
      rcases hv2 with rfl | rfl <;> simp

theorem foldl_merge2 (n1 n2 : String) (a b : Step → List (List Word)) : ∀ (rest : List Step) (A B : List (List Word)),
    rest.foldl (fun acc st => mergeVars acc [(n1, a st), (n2, b st)]) [(n1, A), (n2, B)] =
      [(n1, A ++ rest.flatMap a), (n2, B ++ rest.flatMap b)] := by
  intro rest
  induction rest with
  | nil => intro A B; simp
  | cons s rest ih =>
    intro A B
    have e : mergeVars [(n1, A), (n2, B)] [(n1, a s), (n2, b s)] = [(n1, A ++ a s), (n2, B ++ b s)] := rfl
    rw [List.foldl_cons, e, ih]
    simp [List.append_assoc]

theorem foldl_merge1 (n1 : String) (a : Step → List (List Word)) : ∀ (rest : List Step) (A : List (List Word)),
    rest.foldl (fun acc st => mergeVars acc [(n1, a st)]) [(n1, A)] = [(n1, A ++ rest.flatMap a)] := by
  intro rest
  induction rest with
  | nil => intro A; simp
  | cons s rest ih =>
    intro A
    have e : mergeVars [(n1, A)] [(n1, a s)] = [(n1, A ++ a s)] := rfl
    rw [List.foldl_cons, e, ih]
    simp [List.append_assoc]

/-- the table of slabs is the list of slabs of every step (one record per layer) -/
theorem slabs_table1 (f : SFile) (L : Nat) (hsl : ∀ s ∈ f.steps, s.slabs.length = L) :
    (List.range f.steps.length).flatMap (fun i => (List.range L).map (fun k => slabAt f i (k * 1 + 0))) =
      f.steps.flatMap (·.slabs) := by
  have := range_flatMap_getElem? (fun o : Option Step => (List.range L).map (fun k => ((o.bind (·.slabs[k * 1 + 0]?)).getD []))) f.steps
  simp only [slabAt]
  rw [this]
  apply flatMap_congr'
  intro s hs
  simp only [Option.bind_some, Nat.mul_one, Nat.add_zero]
  conv_rhs => rw [← range_map_getD [] s.slabs, hsl s hs]

/-- … and, for two records per layer, every second slab -/
theorem slabs_table2 (f : SFile) (L v : Nat) (hv : v < 2) (hsl : ∀ s ∈ f.steps, s.slabs.length = L * 2) :
    (List.range f.steps.length).flatMap (fun i => (List.range L).map (fun k => slabAt f i (k * 2 + v))) =
      f.steps.flatMap (fun s => pickEvery v 2 s.slabs) := by
  have := range_flatMap_getElem? (fun o : Option Step => (List.range L).map (fun k => ((o.bind (·.slabs[k * 2 + v]?)).getD []))) f.steps
  simp only [slabAt]
  rw [this]
  apply flatMap_congr'
  intro s hs
  simp only [Option.bind_some]
  rw [pickEvery_two v hv L s.slabs (hsl s hs)]

/-- **C13 (the two reader families agree).** On every file with a regular time axis the memory-mapped reader and the
record-based reader present the same number of steps and layers, the same time of every step and the same cells
of every variable — for the one3d family (`hp = false`) and for height/pressure files (`hp = true`), any grid,
layer count, number of steps ≥ 2 and payload. -/
theorem readers_agree (hp : Bool) (f : SFile) (L : Nat) (start : DT) (step : Int) (h : ReadWF hp f L start step) :
    (mmDecode (if hp then Kind.heightPressure else Kind.one3d) f.cells (encode f)).map
        (fun v => (v.nt, v.nz, v.flags.map (fun p => (((p.1 : Nat) : Int), truncF32 p.2)), v.vars.map (·.2))) =
    (readDecode hp (encode f)).map (fun v => (v.nt, v.nz, v.times, v.vars)) := by
  have hwf := wf_of_readWF hp f L start step h
  rw [mm_decode_encode _ f hwf, read_decode_encode hp f L start step h]
  obtain ⟨s0, s1, rest, hst, _, _⟩ := hwf.two
  have hs0 := h.slabs s0 (by rw [hst]; simp)
  have hL := h.layers
  -- the time of every step
  have htimes : f.steps.map (fun s => (((s.date : Nat) : Int), truncF32 s.time)) = (List.range f.steps.length).map (iter start step) := by
    apply List.ext_getElem
    · simp
    · intro i h1 h2
      simp only [List.length_map] at h1
      simp only [List.getElem_map, List.getElem_range]
      exact h.axis i h1
  unfold viewOf
  simp only [hst, tableView, Option.map_some, Option.some.injEq]
  rw [hst] at htimes
  cases hp
  · -- one3d family
    simp only [Bool.false_eq_true, if_false, Nat.mul_one] at hs0 ⊢
    have t1 := slabs_table1 f L (fun s hs => by have := h.slabs s hs; simpa using this)
    rw [hst] at t1
    simp only [layersOf, Option.map_some, Option.some.injEq, stepVars, foldl_merge1, List.map_cons, List.map_nil,
      List.range_one, Prod.mk.injEq, List.length_cons, true_and]
    refine ⟨hs0, ?_, ?_⟩
    · simpa [List.map_map, Function.comp_def] using htimes
    · simp only [List.length_cons, List.flatMap_cons, Nat.mul_one] at t1
      rw [t1]
      simp [List.flatMap_cons]
  · -- height / pressure
    simp only [if_true] at hs0 ⊢
    have hm2 : s0.slabs.length % 2 = 0 ∧ s0.slabs.length ≥ 2 := by omega
    have t0 := slabs_table2 f L 0 (by omega) h.slabs
    have t1 := slabs_table2 f L 1 (by omega) h.slabs
    rw [hst] at t0 t1
    simp only [List.length_cons, List.flatMap_cons] at t0 t1
    have r2 : List.range 2 = [0, 1] := rfl
    simp only [layersOf, hm2, and_self, if_true, Option.map_some, Option.some.injEq, stepVars, foldl_merge2,
      List.map_cons, List.map_nil, Prod.mk.injEq, List.length_cons, true_and, r2, t0, t1]
    refine ⟨by omega, ?_, ?_⟩
    · simpa [List.map_map, Function.comp_def] using htimes
    · simp [List.flatMap_cons]

/-! ### the temperature record reader -/

/-- a temperature file the record reader is meant for: a surface slab and `L` layer slabs per step, a regular time
axis -/
structure TempWF (f : SFile) (L : Nat) (start : DT) (step : Int) : Prop where
  cells : ∀ s ∈ f.steps, ∀ c ∈ s.slabs, c.length = f.cells
  slabs : ∀ s ∈ f.steps, s.slabs.length = L + 1
  layers : 1 ≤ L
  two : 2 ≤ f.steps.length
  t0 : 0 ≤ start.2 ∧ start.2 < 2400
  stepOk : 0 < step ∧ step ≤ 2400
  even : step % 2 = 0
  axis : ∀ (i : Nat) (h : i < f.steps.length),
    (((f.steps[i].date : Nat) : Int), truncF32 f.steps[i].time) = iter start step i

theorem table_of_temp (f : SFile) (L : Nat) (start : DT) (step : Int) (h : TempWF f L start step) :
    Table ((f.steps.map framedStep).flatten) f.steps.length (L + 1) 1 (iter start step) (slabAt f) := by
  have hm : ∀ l ∈ f.steps.map framedStep, l.length = (L + 1) * 1 := by
    intro l hl
    obtain ⟨s, hs, rfl⟩ := List.mem_map.mp hl
    rw [framedStep_length, h.slabs s hs, Nat.mul_one]
  constructor
  · rw [flatten_length f.steps _ h.slabs, Nat.mul_comm, Nat.mul_one]
  · intro i j hi hj
    rw [getElem?_flatten_uniform _ _ hm i j hj]
    have hsi : f.steps[i]? = some f.steps[i] := List.getElem?_eq_getElem hi
    have hmem : f.steps[i] ∈ f.steps := List.getElem_mem hi
    have hjs : j < (f.steps[i]).slabs.length := by rw [h.slabs _ hmem]; omega
    refine ⟨frame (f.steps[i].time :: f.steps[i].date :: (f.steps[i]).slabs[j]), ?_, ?_, ?_⟩
    · simp only [List.getElem?_map, hsi, Option.map_some, Option.bind_some, framedStep, stepRows,
        List.getElem?_eq_getElem hjs]
    · rw [recDT_frame]; exact h.axis i hi
    · rw [recCells_frame]
      simp [slabAt, hsi, List.getElem?_eq_getElem hjs]

theorem wf_of_tempWF (f : SFile) (L : Nat) (start : DT) (step : Int) (h : TempWF f L start step) : WF f := by
  refine ⟨h.cells, fun s hs s' hs' => by rw [h.slabs s hs, h.slabs s' hs'], ?_⟩
  have h2 := h.two
  match hst : f.steps with
  | [] => rw [hst] at h2; simp at h2
  | [_] => rw [hst] at h2; simp at h2
  | s0 :: s1 :: rest =>
    refine ⟨s0, s1, rest, rfl, ?_, ?_⟩
    · intro heq
      have a0 := h.axis 0 (by omega)
      have a1 := h.axis 1 (by omega)
      simp only [hst, List.getElem_cons_zero, List.getElem_cons_succ] at a0 a1
      have hne := iter_ne start step h.t0 h.stepOk 1 0 (by omega)
      apply hne
      rw [← a0, ← a1]
      simp only [Prod.mk.injEq] at heq
      rw [heq.1, heq.2]
    · have := h.slabs s0 (by rw [hst]; simp)
      omega

/-- **C13 (temperature record reader).** On every temperature file with a regular time axis the record reader
presents the written content: steps, layers, the time of every step, the surface slab and the layer slabs of every
step. -/
theorem read_temp_decode_encode (f : SFile) (L : Nat) (start : DT) (step : Int) (h : TempWF f L start step) :
    readTempDecode (encode f) = some (tempView f.steps.length (L + 1) (iter start step) (slabAt f)) := by
  have hwf := wf_of_tempWF f L start step h
  obtain ⟨s0, s1, rest, hst, _, hm⟩ := hwf.two
  have hhead : (encode f).headD 0 / 4 - 2 = f.cells := by
    obtain ⟨c0, cs, hc0⟩ : ∃ c0 cs, s0.slabs = c0 :: cs := by
      cases hsl : s0.slabs with
      | nil => rw [hsl] at hm; simp at hm
      | cons c cs => exact ⟨c, cs, rfl⟩
    have hlen : c0.length = f.cells := h.cells s0 (by rw [hst]; simp) c0 (by rw [hc0]; simp)
    simp only [encode, rows, hst, List.map_cons, List.flatten_cons, stepRows, hc0, encodeRecs, frame,
      List.cons_append, List.nil_append, List.headD_cons, List.length_cons, hlen]
    rw [Nat.mul_div_cancel_left _ (show 0 < 4 by omega)]
    rfl
  unfold readTempDecode
  simp only [hhead]
  rw [if_neg (by rw [encode_whole f h.cells]; simp), chunk_records f hwf]
  exact readTempRows_spec _ f.steps.length (L + 1) start step (slabAt f) (table_of_temp f L start step h)
    h.t0 h.stepOk h.even h.two (by have := h.layers; omega)

theorem range_map_slab0 (f : SFile) (hsl : ∀ s ∈ f.steps, 1 ≤ s.slabs.length) :
    (List.range f.steps.length).map (fun i => slabAt f i 0) = f.steps.flatMap (fun s => s.slabs.take 1) := by
  have h1 := range_flatMap_getElem? (fun o : Option Step => [((o.bind (·.slabs[0]?)).getD [])]) f.steps
  have e : (List.range f.steps.length).map (fun i => slabAt f i 0) =
      (List.range f.steps.length).flatMap (fun i => [slabAt f i 0]) := by
    generalize List.range f.steps.length = l
    induction l with
    | nil => rfl
    | cons a rest ih => simp only [List.map_cons, List.flatMap_cons, ih]; rfl
  rw [e]
  simp only [slabAt]
  rw [h1]
  apply flatMap_congr'
  intro s hs
  have := hsl s hs
  cases hc : s.slabs with
  | nil => rw [hc] at this; simp at this
  | cons c cs => simp [hc]

theorem slabs_table_drop (f : SFile) (L : Nat) (hsl : ∀ s ∈ f.steps, s.slabs.length = L + 1) :
    (List.range f.steps.length).flatMap (fun i => (List.range L).map (fun k => slabAt f i (1 + k))) =
      f.steps.flatMap (fun s => s.slabs.drop 1) := by
  have := range_flatMap_getElem? (fun o : Option Step => (List.range L).map (fun k => ((o.bind (·.slabs[1 + k]?)).getD []))) f.steps
  simp only [slabAt]
  rw [this]
  apply flatMap_congr'
  intro s hs
  simp only [Option.bind_some]
  have hl : (s.slabs.drop 1).length = L := by rw [List.length_drop, hsl s hs]; omega
  conv_rhs => rw [← range_map_getD [] (s.slabs.drop 1), hl]
  apply List.map_congr_left
  intro k _
  rw [List.getElem?_drop]

/-- **C13 (temperature: the two reader families agree).** -/
theorem readers_agree_temperature (f : SFile) (L : Nat) (start : DT) (step : Int) (h : TempWF f L start step) :
    (mmDecode Kind.temperature f.cells (encode f)).map
        (fun v => (v.nt, v.nz, v.flags.map (fun p => (((p.1 : Nat) : Int), truncF32 p.2)), v.vars.map (·.2))) =
    (readTempDecode (encode f)).map (fun v => (v.nt, v.nz, v.times, v.vars)) := by
  have hwf := wf_of_tempWF f L start step h
  rw [mm_decode_encode _ f hwf, read_temp_decode_encode f L start step h]
  obtain ⟨s0, s1, rest, hst, _, _⟩ := hwf.two
  have hs0 := h.slabs s0 (by rw [hst]; simp)
  have htimes : f.steps.map (fun s => (((s.date : Nat) : Int), truncF32 s.time)) = (List.range f.steps.length).map (iter start step) := by
    apply List.ext_getElem
    · simp
    · intro i h1 h2
      simp only [List.length_map] at h1
      simp only [List.getElem_map, List.getElem_range]
      exact h.axis i h1
  have t0 := range_map_slab0 f (fun s hs => by rw [h.slabs s hs]; omega)
  have t1 := slabs_table_drop f L h.slabs
  unfold viewOf
  rw [hst] at htimes t0 t1
  simp only [List.length_cons, List.flatMap_cons] at t0 t1
  have hm2 : s0.slabs.length ≥ 2 := by have := h.layers; omega
  simp only [hst, tempView, Option.map_some, Option.some.injEq, layersOf, hm2, if_true, stepVars, foldl_merge2,
    List.map_cons, List.map_nil, Prod.mk.injEq, List.length_cons, true_and, Nat.add_sub_cancel, t0, t1]
  refine ⟨by omega, ?_, ?_⟩
  · simpa [List.map_map, Function.comp_def] using htimes
  · simp [List.flatMap_cons]

/-- the hypotheses of `readers_agree` are met: three hourly steps across midnight, two layers, two cells -/
def exRead : SFile :=
  ⟨2, [⟨f32OfNat 2300, 19200, [[1, 2], [3, 4]]⟩, ⟨f32OfNat 0, 19201, [[5, 6], [7, 8]]⟩, ⟨f32OfNat 100, 19201, [[9, 10], [11, 12]]⟩]⟩

theorem exRead_wf : ReadWF false exRead 2 (19200, 2300) 100 := by
  refine ⟨by decide, by decide, by decide, by decide, by decide, by decide, by decide, ?_⟩
  intro i h
  have e0 : (((19200 : Nat) : Int), truncF32 (f32OfNat 2300)) = iter (19200, 2300) 100 0 := by decide +kernel
  have e1 : (((19201 : Nat) : Int), truncF32 (f32OfNat 0)) = iter (19200, 2300) 100 1 := by decide +kernel
  have e2 : (((19201 : Nat) : Int), truncF32 (f32OfNat 100)) = iter (19200, 2300) 100 2 := by decide +kernel
  have h3 : i < 3 := h
  match i, h3 with
  | 0, _ => exact e0
  | 1, _ => exact e1
  | 2, _ => exact e2

example : (readDecode false (encode exRead)).map (fun v => (v.nt, v.nz, v.times)) =
    some (3, 2, [(19200, 2300), (19201, 0), (19201, 100)]) := by
  rw [read_decode_encode false exRead 2 (19200, 2300) 100 exRead_wf]
  decide +kernel

/-- … and those of `readers_agree_temperature`: two 12-hourly steps, one layer above the surface slab -/
def exTemp : SFile :=
  ⟨1, [⟨f32OfNat 1200, 19200, [[1], [2]]⟩, ⟨f32OfNat 0, 19201, [[3], [4]]⟩]⟩

theorem exTemp_wf : TempWF exTemp 1 (19200, 1200) 1200 := by
  refine ⟨by decide, by decide, by decide, by decide, by decide, by decide, by decide, ?_⟩
  intro i h
  have e0 : (((19200 : Nat) : Int), truncF32 (f32OfNat 1200)) = iter (19200, 1200) 1200 0 := by decide +kernel
  have e1 : (((19201 : Nat) : Int), truncF32 (f32OfNat 0)) = iter (19200, 1200) 1200 1 := by decide +kernel
  have h2 : i < 2 := h
  match i, h2 with
  | 0, _ => exact e0
  | 1, _ => exact e1

/-! ### gridded average / instant files: the record reader (`uamiv/Read.py`) and the memory-mapped reader -/

/-- **C13 (gridded files, at the level of the bytes).** For every file with standard header records whose time axis
lies inside one day — whatever its data blocks hold, markers included — both readers open it and present the same
counts and, for every (species, step, layer), the same words. -/
theorem uamiv_readers_agree_words (ws : List Word) (nspec nx ny nz T : Nat) (d a s : Int)
    (h : UamivRead.Std ws nspec nx ny nz T d a s) :
    ∃ v m, UamivRead.read ws = some v ∧ Camx.decodeMM ws 0 = .ok m ∧
      v.nspec = m.nspec ∧ v.nx = m.nx ∧ v.ny = m.ny ∧ v.nz = m.nz ∧ v.nt = m.steps.length ∧
      v.data = UamivRead.bySpecies m :=
  UamivRead.readers_agree_std ws nspec nx ny nz T d a s h

/-- **C13 (gridded files, written content).** For every well-formed AVERAGE/INSTANT-like content whose steps (whole
hours, odd or even) lie inside one day, both readers applied to the encoded file present exactly the content: counts,
species names, and every slab. -/
theorem uamiv_read_encode (f : Camx.Uamiv) (d a s : Int) (h : UamivRead.OneDay f d a s) :
    UamivRead.read f.encode = some (UamivRead.recViewOf f) ∧ Camx.decodeMM f.encode 0 = .ok (Camx.viewOf f) :=
  UamivRead.read_encode f d a s h

/-- a 2-species, 1 x 2-cell, 2-layer file with two 2-hour steps from 03:00 -/
def exUamiv : Camx.Uamiv where
  name := [65, 86, 69, 82, 65, 71, 69, 32, 32, 32]
  note := List.replicate 60 32
  itzon := 0
  ibdate := 19001
  btime := f32OfNat 3
  iedate := 19001
  etime := f32OfNat 7
  grid := [0, 0, 0, 0, 0, 0, 0, 2, 1, 2, 0, 0, 0, 0, 0]
  species := [List.replicate 10 66, List.replicate 10 67]
  steps := [⟨19001, f32OfNat 3, 19001, f32OfNat 5, [[[1, 2], [3, 4]], [[5, 6], [7, 8]]]⟩,
            ⟨19001, f32OfNat 5, 19001, f32OfNat 7, [[[9, 10], [11, 12]], [[13, 14], [15, 16]]]⟩]

/-- non-vacuity: the example meets the hypotheses, and the record reader model presents its content -/
theorem exUamiv_oneDay : UamivRead.OneDay exUamiv 19001 3 2 where
  wf := ⟨by decide, by decide, by decide, by decide, by decide⟩
  asciiName := by decide
  asciiNote := by decide
  asciiSpecies := by decide
  notE := by decide
  notA := by decide
  nspec1 := by decide
  nspecS := by decide
  nxS := by decide
  nyS := by decide
  nzS := by decide
  nz1 := by decide
  sd0 := by decide
  st0 := by decide +kernel
  ed0 := by decide
  et0 := by decide +kernel
  first := ⟨_, _, rfl, by decide +kernel⟩
  s1 := by decide
  a0 := by decide
  aT := by decide

example : (UamivRead.read exUamiv.encode).map (fun v => (v.nt, v.nz, v.data)) =
    some (2, 2, [[[[1, 2], [3, 4]], [[9, 10], [11, 12]]], [[[5, 6], [7, 8]], [[13, 14], [15, 16]]]]) := by
  rw [(uamiv_read_encode exUamiv 19001 3 2 exUamiv_oneDay).1]
  rfl

/-! ### wind files: the record reader (`wind/Read.py`) and the memory-mapped reader -/

/-- **C13 (wind files).** For every wind file of at least two steps on a regular time axis (any whole-HHMM step up to
a day, over any number of midnights), any number of layers, any grid of at least four cells, either header variant and
any payload, the record reader presents exactly the steps' times and the U and V slab of every step and layer, and
the memory-mapped reader presents exactly the encoded steps: the two agree through the content. -/
theorem wind_readers_agree (cells nz h : Nat) (steps : List Wind.WStep) (start : SlabRead.DT) (step : Int)
    (r : WindRec.RegW cells nz h steps start step) :
    WindRec.read cells (Wind.encode steps) = some (WindRec.viewOf nz steps start step) ∧
    Wind.read cells (Wind.encode steps) = some steps :=
  ⟨WindRec.read_encode r, Wind.read_encode cells nz h steps r.wf⟩

/-- a two-step, one-layer wind file on a 2 x 2 grid with the three-word header: 23:00 and 00:00 of the next day -/
def exWind : List Wind.WStep :=
  [⟨f32OfNat 2300, 19200, some 0, [[1, 2, 3, 4], [5, 6, 7, 8]]⟩, ⟨f32OfNat 0, 19201, some 0, [[9, 10, 11, 12], [13, 14, 15, 16]]⟩]

theorem exWind_reg : WindRec.RegW 4 1 3 exWind (19200, 2300) 100 := by
  refine ⟨⟨by decide, by decide, by decide, by decide, by decide⟩, by decide, by decide, by decide, by decide, ?_⟩
  intro i hi
  have e0 : WindRec.dtOf (exWind[0]'(by decide)) = SlabRead.iter (19200, 2300) 100 0 := by decide +kernel
  have e1 : WindRec.dtOf (exWind[1]'(by decide)) = SlabRead.iter (19200, 2300) 100 1 := by decide +kernel
  have h2 : i < 2 := hi
  match i, h2 with
  | 0, _ => exact e0
  | 1, _ => exact e1

example : (WindRec.read 4 (Wind.encode exWind)).map (fun v => (v.nt, v.nz, v.times, v.u, v.v)) =
    some (2, 1, [(19200, 2300), (19201, 0)], [[[1, 2, 3, 4]], [[9, 10, 11, 12]]], [[[5, 6, 7, 8]], [[13, 14, 15, 16]]]) := by
  rw [(wind_readers_agree 4 1 3 exWind (19200, 2300) 100 exWind_reg).1]
  rfl

/-- **C13 (wind files of one step).** The record reader finds no second time header, presents one step with a nominal
step of 100 and exactly the U and V slabs of the file; the memory-mapped reader presents the encoded step. -/
theorem wind_readers_agree_one (cells nz h : Nat) (s : Wind.WStep) (o : WindRec.OneW cells nz h s) :
    WindRec.read cells (Wind.encode [s]) = some (WindRec.viewOf nz [s] (WindRec.dtOf s) 100) ∧
    Wind.read cells (Wind.encode [s]) = some [s] :=
  ⟨WindRec.read_encode_one o, Wind.read_encode cells nz h [s] o.wf⟩

/-- a one-step, two-layer wind file on a 2 x 2 grid with the two-word header -/
def exWindOne : Wind.WStep := ⟨f32OfNat 1800, 19200, none, [[1, 2, 3, 4], [5, 6, 7, 8], [9, 10, 11, 12], [13, 14, 15, 16]]⟩

theorem exWindOne_ok : WindRec.OneW 4 2 2 exWindOne := by
  refine ⟨⟨by decide, by decide, by decide, by decide, by decide⟩, by decide, by decide +kernel⟩

example : (WindRec.read 4 (Wind.encode [exWindOne])).map (fun v => (v.nt, v.nz, v.times, v.u, v.v)) =
    some (1, 2, [(19200, 1800)], [[[1, 2, 3, 4], [9, 10, 11, 12]]], [[[5, 6, 7, 8], [13, 14, 15, 16]]]) := by
  rw [(wind_readers_agree_one 4 2 2 exWindOne exWindOne_ok).1]
  have e : WindRec.dtOf exWindOne = (19200, 1800) := by decide +kernel
  rw [e]
  rfl

end Props.C13
